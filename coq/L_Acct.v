(* L_Acct.v — C13: timer accounting.  The recurring loops (probe, periodic announce, periodic
   announce-to-down, periodic gossip) are re-armed exactly once by the handler of their own
   live timer, armed exactly once each when the instance connects, and never otherwise;
   every epoch change (Idle, Defunct, identity change) leaves nothing armed in the new epoch. *)
From Foca Require Import Laws L_Lists MembersM L_Members L_MembersInv FocaM Hoare Inv L_Reject L_Mech L_Timers L_Mirror L_ConnCons.

Section Acct.
Context {Id Addr : Type} {IO : IdOps Id Addr} {CO : CodecOps Id} {HO : HandlerOps Id} {IL : IdLaws IO}.
Variable rnd : oracle.
Notation member := (member Id).
Notation foca := (@foca Id Addr HO).
Notation rs := (@rs Id Addr HO).
Notation M := (@M Id Addr HO).
Notation effect := (effect Id).
Notation "x <- m ;; f" := (bind m (fun x => f)) (at level 61, m at next level, right associativity).
Notation "m ;;; f" := (bind m (fun _ => f)) (at level 61, right associativity).

Inductive lk := LProbe | LAnn | LAnnDown | LGossip.

Definition loop_of (t : timer Id) : option (lk * N) :=
  match t with
  | TProbeRandomMember k => Some (LProbe, k)
  | TPeriodicAnnounce k => Some (LAnn, k)
  | TPeriodicAnnounceDown k => Some (LAnnDown, k)
  | TPeriodicGossip k => Some (LGossip, k)
  | _ => None
  end.

(* notifications that mark the start of a new timer epoch *)
Definition epoch_note (n : notification Id) : bool :=
  match n with NIdle | NDefunct | NRejoin _ => true | _ => false end.

(* the loop timers submitted since the last epoch notification, and whether there was one *)
Definition acc_step (a : list (lk * N) * bool) (e : effect) : list (lk * N) * bool :=
  match e with
  | Notify n => if epoch_note n then ([], true) else a
  | Submit t _ => match loop_of t with Some x => (fst a ++ [x], snd a) | None => a end
  | Send _ _ => a
  end.
Definition acc_from (a : list (lk * N) * bool) (es : list effect) := fold_left acc_step es a.
Definition acc (es : list effect) := acc_from ([], false) es.

Definition neutral (e : effect) : Prop :=
  match e with
  | Notify n => epoch_note n = false
  | Submit t _ => loop_of t = None
  | Send _ _ => True
  end.

Lemma acc_from_app a e1 e2 : acc_from a (e1 ++ e2) = acc_from (acc_from a e1) e2.
Proof. unfold acc_from. apply fold_left_app. Qed.
Lemma acc_from_neutral es : Forall neutral es -> forall a, acc_from a es = a.
Proof.
  induction 1 as [|e es He _ IH]; intros a; [reflexivity|]. cbn [acc_from fold_left]. fold (acc_from (acc_step a e) es).
  rewrite IH. destruct e as [d b|t d|n]; cbn in *; [reflexivity| |].
  - rewrite He. destruct a; reflexivity.
  - rewrite He. reflexivity.
Qed.
Lemma acc_app_neutral es new : Forall neutral new -> acc (es ++ new) = acc es.
Proof. intros H. unfold acc. rewrite acc_from_app. apply acc_from_neutral. exact H. Qed.

(* computations that neither touch connection state / token / configuration nor submit a loop
   timer nor notify an epoch change *)
Definition still {A} (m : M A) : Prop :=
  forall s, conn (st (fst (m s))) = conn (st s) /\ token (st (fst (m s))) = token (st s)
            /\ cfg (st (fst (m s))) = cfg (st s)
            /\ exists new, out (fst (m s)) = out s ++ new /\ Forall neutral new.

Lemma still_bind {A B} (m : M A) (f : A -> M B) : still m -> (forall a, still (f a)) -> still (bind m f).
Proof.
  intros Hm Hf s. destruct (Hm s) as (E1 & E2 & E3 & n1 & O1 & N1). unfold bind.
  destruct (m s) as [s1 [a|e|p]]; cbn [fst] in *; try (repeat split; auto; exists n1; auto).
  destruct (Hf a s1) as (F1 & F2 & F3 & n2 & O2 & N2).
  repeat split; try congruence. exists (n1 ++ n2). split.
  - rewrite O2, O1, app_assoc. reflexivity.
  - apply Forall_app. auto.
Qed.
Lemma still_same {A} (r : res A) : still (fun s => (s, r)).
Proof. intros s. cbn. repeat split; auto. exists []. split; [symmetry; apply app_nil_r|constructor]. Qed.
Lemma still_ret {A} (a : A) : still (@ret Id Addr HO A a). Proof. apply still_same. Qed.
Lemma still_fail {A} e : still (@fail Id Addr HO A e). Proof. apply still_same. Qed.
Lemma still_panic {A} p : still (@panic Id Addr HO A p). Proof. apply still_same. Qed.
Lemma still_get : still (@get Id Addr HO).
Proof. intros s. cbn. repeat split; auto. exists []. split; [symmetry; apply app_nil_r|constructor]. Qed.
Lemma still_num_sends : still (@num_sends Id Addr HO).
Proof. intros s. cbn. repeat split; auto. exists []. split; [symmetry; apply app_nil_r|constructor]. Qed.
Lemma still_modify g :
  (forall f, conn (g f) = conn f /\ token (g f) = token f /\ cfg (g f) = cfg f) -> still (@modify Id Addr HO g).
Proof.
  intros H s. cbn. destruct (H (st s)) as (A1 & A2 & A3). repeat split; auto.
  exists []. split; [symmetry; apply app_nil_r|constructor].
Qed.
Lemma still_emit e : neutral e -> still (@emit Id Addr HO e).
Proof. intros H s. cbn. repeat split; auto. exists [e]. split; [reflexivity|constructor; [exact H|constructor]]. Qed.
Lemma still_ask r : still (ask rnd r).
Proof. intros s. cbn. repeat split; auto. exists []. split; [symmetry; apply app_nil_r|constructor]. Qed.
Lemma still_with_ctr {A} (g : N -> A * N) : still (with_ctr g).
Proof.
  intros s. unfold with_ctr. destruct (g (ctr s)) as [a k]. cbn. repeat split; auto.
  exists []. split; [symmetry; apply app_nil_r|constructor].
Qed.
Lemma still_when b (m : M unit) : still m -> still (when b m).
Proof. destruct b; cbn; auto. intros _. apply still_ret. Qed.
Lemma still_forM {A} (l : list A) (f : A -> M unit) : (forall x, still (f x)) -> still (forM_ l f).
Proof. intros H. induction l as [|x t IH]; cbn [forM_]; [apply still_ret|]. apply still_bind; auto. Qed.
Lemma still_get_bind {B} (body : foca -> M B) : (forall f, still (body f)) -> still (f <- get ;; body f).
Proof. intros H. apply still_bind; [apply still_get|exact H]. Qed.
Lemma still_attempt (m : M unit) : still m -> still (attempt m).
Proof. intros H s. specialize (H s). unfold attempt. destruct (m s) as [s1 [a|e|p]]; cbn [fst] in *; auto. Qed.

Ltac smod := apply still_modify; intros ?; repeat split; reflexivity.

Lemma still_add_update m : still (@add_update Id Addr IO CO HO m).
Proof. unfold add_update. smod. Qed.
Lemma still_add_custom key data : still (@add_custom Id Addr HO key data).
Proof. unfold add_custom. smod. Qed.
Lemma still_choose_active wanted picker : still (choose_active rnd wanted picker).
Proof. unfold choose_active. apply still_get_bind. intros f. apply still_with_ctr. Qed.
Lemma still_feed_loop l : forall room count acc0, still (@feed_loop Id Addr CO HO l room count acc0).
Proof.
  induction l as [|m t IH]; intros room count acc0; cbn [feed_loop]; [apply still_ret|].
  destruct (room <? len (enc_mem m)); [apply still_ret|].
  destruct (count =? u16_max); [apply still_panic|apply IH].
Qed.

Lemma still_send_message dst msg : still (send_message rnd dst msg).
Proof.
  unfold send_message. apply still_get_bind. intros f.
  destruct (negb (send_cap f =? max_packet_size (cfg f))); [apply still_panic|].
  destruct (max_packet_size (cfg f) <? len (enc_hdr _)); [apply still_fail|].
  apply still_bind; [apply still_num_sends|]. intros idx.
  apply still_bind.
  - unfold send_body. destruct (needs_piggyback msg && _); [|apply still_ret].
    destruct (piggyback_only_active msg).
    + apply still_bind.
      { unfold estimate_feed_capacity. destruct (_ =? 0); [apply still_panic|apply still_ret]. }
      intros cap. apply still_bind; [apply still_choose_active|].
      intros chosen. apply still_bind; [apply still_feed_loop|]. intros [[c b] l]. apply still_ret.
    + apply still_get_bind. intros f0.
      destruct (updates f0); [apply still_ret|].
      apply still_bind; [apply still_ask|]. intros hint.
      destruct (fill_gen Addr 0 hint _ _ _) as [[[w n] kept] p].
      destruct p; [apply still_panic|].
      apply still_bind; [smod|intros; apply still_ret].
  - intros [body room3]. apply still_bind; [|intros; apply still_emit; exact I].
    unfold send_customs. apply still_get_bind. intros f1.
    destruct (_ && _ && _); [|apply still_ret].
    destruct (customs f1); [apply still_ret|].
    apply still_bind; [apply still_ask|]. intros hint.
    destruct (fill_gen hkey 2 hint _ _ _) as [[[w n] kept] p].
    destruct p; [apply still_panic|].
    apply still_bind; [smod|intros; apply still_ret].
Qed.

Lemma still_choose_and_send n msg : still (choose_and_send rnd n msg).
Proof.
  unfold choose_and_send. apply still_bind; [apply still_choose_active|]. intros chosen.
  apply still_forM. intros m. apply still_send_message.
Qed.
Lemma still_gossip : still (gossip rnd).
Proof. unfold gossip. apply still_get_bind. intros f. apply still_choose_and_send. Qed.
Lemma still_announce_to_down n : still (announce_to_down rnd n).
Proof.
  unfold announce_to_down. apply still_get_bind. intros f.
  apply still_bind; [apply still_with_ctr|]. intros chosen. apply still_forM. intros m. apply still_send_message.
Qed.
Lemma still_broadcast_loop l : still (broadcast_loop rnd l).
Proof.
  induction l as [|m t IH]; cbn [broadcast_loop]; [apply still_ret|].
  apply still_bind; [apply still_send_message|]. intros _.
  apply still_get_bind. intros f. destruct (customs f); [apply still_ret|apply IH].
Qed.
Lemma still_broadcast : still (broadcast rnd).
Proof.
  unfold broadcast. apply still_get_bind. intros f.
  destruct (customs f); [apply still_ret|].
  apply still_bind; [apply still_choose_active|]. intros chosen. apply still_broadcast_loop.
Qed.
Lemma still_add_broadcast data : still (@add_broadcast Id Addr HO data).
Proof.
  unfold add_broadcast. apply still_get_bind. intros f.
  destruct data as [|b0 bs]; [apply still_fail|].
  destruct (_ || _); [apply still_fail|].
  destruct (h_recv (hst f) (b0 :: bs) None) as [h' r].
  apply still_bind; [smod|]. intros _.
  destruct r as [[key|]|]; [|apply still_ret|apply still_fail].
  apply still_bind; [apply still_add_custom|intros; apply still_ret].
Qed.
Lemma still_custom_loop sender fuel : forall data, still (@custom_loop Id Addr HO fuel data sender).
Proof.
  induction fuel as [|fuel IH]; intros data; cbn [custom_loop].
  - destruct data; [apply still_ret|apply still_fail].
  - destruct (2 <? len data); [|destruct data; [apply still_ret|apply still_fail]].
    destruct (get_u16 data) as [[pkt_len rest]|]; [|apply still_fail].
    destruct (_ || _); [apply still_fail|].
    apply still_get_bind. intros f.
    destruct (h_recv (hst f) _ sender) as [h' r].
    apply still_bind; [smod|]. intros _.
    apply still_bind; [|intros; apply IH].
    destruct r as [[key|]|]; [apply still_add_custom|apply still_ret|apply still_fail].
Qed.
Lemma still_handle_custom_broadcasts data sender : still (@handle_custom_broadcasts Id Addr HO data sender).
Proof.
  unfold handle_custom_broadcasts. destruct data; [apply still_ret|].
  destruct (_ <? 3); [apply still_fail|apply still_custom_loop].
Qed.
Lemma still_indirect_loop probed l : still (indirect_loop rnd probed l).
Proof.
  unfold indirect_loop. apply still_forM. intros m. apply still_get_bind. intros f.
  destruct (probe_expect_indirect_ack (prb f) (m_id m)); [|apply still_panic].
  apply still_bind; [smod|]. intros _. apply still_send_message.
Qed.

Lemma still_hsum sm u b : still (@handle_apply_summary Id Addr IO CO HO sm u b).
Proof.
  unfold handle_apply_summary.
  apply still_bind.
  { apply still_when. apply still_bind; [apply still_when, still_add_update|]. intros _.
    apply still_get_bind. intros f. apply still_when, still_emit. reflexivity. }
  intros _. apply still_bind.
  { destruct (s_conflict sm); try apply still_ret. apply still_emit. reflexivity. }
  intros _. apply still_when, still_emit. destruct (is_active_now sm); reflexivity.
Qed.

Lemma still_apply_update u b : still (apply_update rnd u b).
Proof.
  unfold apply_update. apply still_get_bind. intros f.
  destruct (id_eqb (identity f) (m_id u)); [apply still_panic|].
  apply still_bind; [apply still_with_ctr|]. intros [ms sm].
  apply still_bind; [smod|]. intros _.
  apply still_bind; [apply still_hsum|]. intros _. apply still_ret.
Qed.

(* ---- the accounting invariant of one call, relative to the state f0 it started from ---- *)
Variable f0 : foca.
(* the loop whose live timer this call consumes, if any *)
Variable L : option lk.

Definition enabled (c : config) : list lk :=
  LProbe :: (if is_some (periodic_announce c) then [LAnn] else [])
         ++ (if is_some (periodic_announce_down c) then [LAnnDown] else [])
         ++ (if is_some (periodic_gossip c) then [LGossip] else []).
Definition full (c : config) (k : N) : list (lk * N) := map (fun K => (K, k)) (enabled c).

(* nothing happened to the loops so far *)
Definition M0 (s : rs) : Prop :=
  acc (out s) = ([], false) /\ token (st s) = token f0 /\ conn (st s) = conn f0
  /\ incl (enabled (cfg (st s))) (enabled (cfg f0)).
(* not connected, nothing armed in the current epoch *)
Definition M1 (s : rs) : Prop :=
  conn (st s) <> Connected /\ fst (acc (out s)) = []
  /\ (snd (acc (out s)) = false -> token (st s) = token f0 -> conn (st s) = conn f0).
(* connected in the current epoch: every enabled loop armed exactly once with the current token *)
Definition M2 (s : rs) : Prop :=
  conn (st s) = Connected /\ fst (acc (out s)) = full (cfg (st s)) (token (st s))
  /\ (snd (acc (out s)) = false -> token (st s) = token f0 -> conn f0 <> Connected).
(* the live timer of loop K was consumed and re-armed exactly once *)
Definition ML (K : lk) (s : rs) : Prop :=
  acc (out s) = ([(K, token f0)], false) /\ token (st s) = token f0
  /\ conn (st s) = Connected /\ conn f0 = Connected
  /\ incl (enabled (cfg (st s))) (enabled (cfg f0)).
Definition MLo (s : rs) : Prop := match L with Some K => ML K s | None => False end.
Definition J (s : rs) : Prop := M0 s \/ M1 s \/ M2 s \/ MLo s.

Definition jpost {A} (x : rs * res A) : Prop :=
  match x with
  | (_, RErr EEncode) => True
  | (_, RPanic _) => True
  | (s', _) => J s'
  end.
Definition jp {A} (m : M A) : Prop := forall s, J s -> jpost (m s).
Definition jpP {A} (m : M A) (s : rs) : Prop := J s -> jpost (m s).

Lemma jp_bind {A B} (m : M A) (f : A -> M B) : jp m -> (forall a, jp (f a)) -> jp (bind m f).
Proof.
  intros Hm Hf s Js. specialize (Hm s Js). unfold bind.
  destruct (m s) as [s1 [a|e|p]]; cbn in *; auto. apply Hf. exact Hm.
Qed.
Lemma jpP_bind {A B} (m : M A) (f : A -> M B) s : jpP m s -> (forall a, jp (f a)) -> jpP (bind m f) s.
Proof.
  intros Hm Hf Js. specialize (Hm Js). unfold bind.
  destruct (m s) as [s1 [a|e|p]]; cbn in *; auto. apply Hf. exact Hm.
Qed.
Lemma jp_at {A} (m : M A) s : jp m -> jpP m s.
Proof. intros H. exact (H s). Qed.
Lemma jpP_get {B} (body : foca -> M B) s : jpP (body (st s)) s -> jpP (f <- get ;; body f) s.
Proof. unfold jpP, bind, get. cbn. auto. Qed.
Lemma jp_get_bind {B} (body : foca -> M B) : (forall f, jp (body f)) -> jp (f <- get ;; body f).
Proof. intros H s. exact (jpP_get body s (H (st s) s)). Qed.

Lemma J_still (s s' : rs) new :
  conn (st s') = conn (st s) -> token (st s') = token (st s) -> cfg (st s') = cfg (st s) ->
  out s' = out s ++ new -> Forall neutral new -> J s -> J s'.
Proof.
  intros C T G O Nn Js. assert (EA : acc (out s') = acc (out s)) by (rewrite O; apply acc_app_neutral; exact Nn).
  destruct Js as [(A & B & D & E)|[(A & B & D)|[(A & B & D)|H]]].
  - left. unfold M0. rewrite EA, T, C, G. auto.
  - right. left. unfold M1. rewrite EA, C, T. auto.
  - right. right. left. unfold M2. rewrite EA, C, G, T. auto.
  - right. right. right. unfold MLo in *. destruct L as [K|]; [|contradiction].
    destruct H as (A & B & D & E & F). unfold ML. rewrite EA, T, C, G. auto.
Qed.

Lemma still_jp {A} (m : M A) : still m -> jp m.
Proof.
  intros H s Js. destruct (H s) as (C & T & G & new & O & Nn).
  assert (J (fst (m s))) by (eapply J_still; eauto).
  destruct (m s) as [s' [a|e|p]]; cbn in *; auto. destruct e; auto.
Qed.

Lemma jp_ret {A} (a : A) : jp (@ret Id Addr HO A a). Proof. apply still_jp, still_ret. Qed.
Lemma jp_when b (m : M unit) : jp m -> jp (when b m).
Proof. destruct b; cbn; auto. intros _. apply jp_ret. Qed.
Lemma jp_forM {A} (l : list A) (f : A -> M unit) : (forall x, jp (f x)) -> jp (forM_ l f).
Proof. intros H. induction l as [|x t IH]; cbn [forM_]; [apply jp_ret|]. apply jp_bind; auto. Qed.
Lemma jp_attempt (m : M unit) : still m -> jp (attempt m).
Proof. intros H. apply still_jp, still_attempt, H. Qed.

(* ---- units ---- *)
Lemma acc_snoc es e : acc (es ++ [e]) = acc_step (acc es) e.
Proof. unfold acc. rewrite acc_from_app. reflexivity. Qed.

Lemma jp_become_undead : jp (@become_undead Id Addr HO).
Proof.
  intros s _. unfold become_undead, bind, modify, emit. cbn.
  right. left. split; [cbn; discriminate|]. cbn [out]. rewrite acc_snoc. cbn. split; [reflexivity|discriminate].
Qed.

Lemma jpP_become_disconnected s : jpP (@become_disconnected Id Addr HO) s.
Proof.
  intros _. unfold become_disconnected, bind at 1, get at 1. cbv beta iota.
  destruct (negb (num_active (mems (st s)) =? 0)); [exact I|].
  unfold bind, modify, emit. cbn.
  right. left. split; [cbn; discriminate|]. cbn [out]. rewrite acc_snoc. cbn. split; [reflexivity|discriminate].
Qed.

Lemma acc_from_periodic a p t K k :
  loop_of t = Some (K, k) ->
  acc_from a (periodic_submits p t) = (fst a ++ (if is_some p then [(K, k)] else []), snd a).
Proof.
  intros H. destruct p as [[fr n]|]; cbn.
  - rewrite H. reflexivity.
  - rewrite app_nil_r. destruct a; reflexivity.
Qed.

Lemma jpP_become_connected s : conn (st s) = Disconnected -> jpP (@become_connected Id Addr HO) s.
Proof.
  intros Cn Js.
  assert (A0 : fst (acc (out s)) = [] /\ (snd (acc (out s)) = false -> token (st s) = token f0 -> conn f0 <> Connected)).
  { destruct Js as [(A & B & D & _)|[(_ & B & D)|[(A & _)|H]]].
    - rewrite A. split; [reflexivity|]. intros _ _. rewrite <- D, Cn. discriminate.
    - split; [exact B|]. intros E1 E2. rewrite <- (D E1 E2), Cn. discriminate.
    - congruence.
    - unfold MLo in H. destruct L as [K|]; [|contradiction]. destruct H as (_ & _ & D & _). congruence. }
  destruct A0 as [A0 A1].
  destruct (0 <? num_active (mems (st s))) eqn:Z.
  - rewrite become_connected_effects by lia. cbn [jpost].
    right. right. left. cbn [out st cfg token conn set_conn].
    assert (EA : acc (out s ++ [Submit (TProbeRandomMember (token (st s))) (probe_period (cfg (st s)))]
                       ++ periodic_submits (periodic_announce (cfg (st s))) (TPeriodicAnnounce (token (st s)))
                       ++ periodic_submits (periodic_announce_down (cfg (st s))) (TPeriodicAnnounceDown (token (st s)))
                       ++ periodic_submits (periodic_gossip (cfg (st s))) (TPeriodicGossip (token (st s)))
                       ++ [Notify NActive])
                 = (full (cfg (st s)) (token (st s)), snd (acc (out s)))).
    { unfold acc. rewrite !acc_from_app. fold (acc (out s)).
      cbn [acc_from fold_left acc_step loop_of].
      rewrite (acc_from_periodic _ (periodic_announce (cfg (st s))) (TPeriodicAnnounce (token (st s))) LAnn (token (st s)) eq_refl).
      rewrite (acc_from_periodic _ (periodic_announce_down (cfg (st s))) (TPeriodicAnnounceDown (token (st s))) LAnnDown (token (st s)) eq_refl).
      rewrite (acc_from_periodic _ (periodic_gossip (cfg (st s))) (TPeriodicGossip (token (st s))) LGossip (token (st s)) eq_refl).
      cbn [fst snd epoch_note]. rewrite A0. unfold full, enabled. cbn [app map].
      destruct (is_some (periodic_announce (cfg (st s)))), (is_some (periodic_announce_down (cfg (st s)))),
               (is_some (periodic_gossip (cfg (st s)))); reflexivity. }
    unfold M2. cbn [st out conn cfg token set_conn]. rewrite EA. cbn [fst snd]. repeat split; auto.
  - unfold become_connected, bind at 1, get at 1. cbv beta iota.
    destruct (num_active (mems (st s)) =? 0) eqn:Z0; [exact I|lia].
Qed.

Lemma jp_adjust : jp (@adjust_connection_state Id Addr HO).
Proof.
  unfold adjust_connection_state. intros s. refine (jpP_get _ s _).
  destruct (conn (st s)) eqn:Cn.
  - destruct (0 <? _); cbn [when]; [apply jpP_become_connected; exact Cn|apply jp_at, jp_ret].
  - destruct (_ =? 0); cbn [when]; [apply jpP_become_disconnected|apply jp_at, jp_ret].
  - apply jp_at, jp_ret.
Qed.

(* auto-rejoin: the identity change (epoch change) followed by the Rejoin notification *)
Lemma jpP_rejoin_tail new_id (s : rs) :
  id_eqb (identity (st s)) new_id = false ->
  jpP (change_identity rnd new_id ;;; emit (Notify (NRejoin new_id)) ;;; ret true) s.
Proof.
  intros E _. pose proof (change_identity_oee_at rnd s new_id E) as OE.
  destruct (change_identity_state rnd s new_id E) as (u0 & c0 & Es).
  unfold bind at 1. destruct (change_identity rnd new_id s) as [s1 [[]|e|p]] eqn:EC; cbn [fst] in *.
  - unfold bind, emit, ret. cbn. right. left. split.
    + cbn [st]. rewrite Es. cbn. discriminate.
    + cbn [out]. rewrite acc_snoc. cbn. split; [reflexivity|discriminate].
  - cbn. subst e. exact I.
  - exact I.
Qed.

Lemma jp_attempt_rejoin : jp (attempt_rejoin rnd).
Proof.
  unfold attempt_rejoin. intros s. refine (jpP_get _ s _).
  destruct (renew (identity (st s))) as [new_id|]; [|apply jp_at, jp_ret].
  destruct (id_eqb (identity (st s)) new_id) eqn:E; [apply jp_at, jp_ret|].
  destruct (negb (wins new_id (identity (st s)))); [apply jp_at, jp_ret|].
  apply jpP_rejoin_tail. exact E.
Qed.

Lemma jp_handle_self_update inc st0 : jp (handle_self_update rnd inc st0).
Proof.
  unfold handle_self_update. destruct st0.
  - apply jp_ret.
  - apply jp_get_bind. intros f. destruct (_ =? u16_max).
    + apply jp_bind; [apply jp_attempt_rejoin|]. intros b. apply jp_when, jp_become_undead.
    + apply jp_bind; [apply jp_when, still_jp; smod|]. intros _.
      apply jp_get_bind. intros f1. apply jp_when, still_jp, still_gossip.
  - apply jp_bind; [apply jp_attempt_rejoin|]. intros b. apply jp_when, jp_become_undead.
Qed.

Lemma jp_apply_one b u : jp (apply_one rnd b u).
Proof.
  unfold apply_one. apply jp_get_bind. intros f.
  destruct (id_eqb (m_id u) (identity f)); [apply jp_handle_self_update|].
  destruct (addr_eqb _ _); (apply jp_bind; [apply still_jp, still_apply_update|intros; apply jp_ret]).
Qed.

Lemma jp_apply_many l b : jp (apply_many rnd l b).
Proof.
  unfold apply_many. apply jp_bind; [apply jp_forM; intros; apply jp_apply_one|]. intros _. apply jp_adjust.
Qed.

Lemma jp_react src msg : jp (react rnd src msg).
Proof.
  unfold react. apply jp_get_bind. intros f.
  destruct msg; try (apply still_jp, still_send_message); try apply jp_ret;
    try (apply still_jp; smod);
    try (destruct (id_eqb _ _); [apply still_jp, still_fail|];
         first [apply still_jp, still_send_message|apply still_jp; smod]).
  apply jp_handle_self_update.
Qed.

Lemma jp_handle_data data : jp (handle_data rnd data).
Proof.
  unfold handle_data. apply jp_get_bind. intros f.
  destruct (_ <? len data); [apply still_jp, still_fail|].
  destruct (dec_hdr data) as [[h rest]|]; [|apply still_jp, still_fail].
  destruct (_ || _); [apply still_jp, still_fail|].
  destruct (_ || _); [apply still_jp, still_fail|].
  destruct (negb (accept_payload _ _)); [apply jp_ret|].
  apply jp_bind.
  { apply still_jp. destruct (_ && _); [|apply still_ret].
    destruct (get_u16 rest) as [[n r]|]; [|apply still_fail].
    destruct (dec_members _ _); [apply still_ret|apply still_fail]. }
  intros [ul tail].
  apply jp_bind; [apply still_jp, still_apply_update|]. intros sia.
  destruct (negb sia).
  - apply jp_get_bind. intros f1.
    apply jp_bind; [apply jp_when, jp_handle_self_update|]. intros _.
    apply jp_get_bind. intros f2. apply jp_when, still_jp, still_send_message.
  - apply jp_bind; [apply jp_apply_many|]. intros _.
    apply jp_bind; [apply jp_attempt, still_handle_custom_broadcasts|]. intros cres.
    apply jp_get_bind. intros f1.
    destruct (negb (conn_eqb _ _)).
    + destruct cres; [apply still_jp, still_fail|apply jp_ret].
    + apply jp_bind; [apply jp_react|]. intros _. destruct cres; [apply still_jp, still_fail|apply jp_ret].
Qed.

(* ---- timers: the live loop timers re-arm themselves exactly once ---- *)
Lemma M0_emit_loop (s : rs) t d K :
  M0 s -> conn (st s) = Connected -> loop_of t = Some (K, token (st s)) ->
  ML K (mkRs (st s) (out s ++ [Submit t d]) (ctr s)).
Proof.
  intros (A & T & C & G) Cn Lp. unfold ML. cbn [out st]. rewrite acc_snoc, A. cbn [acc_step]. rewrite Lp. cbn.
  rewrite T. repeat split; auto. congruence.
Qed.

Lemma still_keeps_M0 {A} (m : M A) s : still m -> M0 s -> M0 (fst (m s)).
Proof.
  intros H (A0 & T & C & G). destruct (H s) as (C1 & T1 & G1 & new & O & Nn). unfold M0.
  rewrite O, acc_app_neutral by exact Nn. rewrite T1, C1, G1. auto.
Qed.
Lemma still_keeps_ML {A} (m : M A) s K : still m -> ML K s -> ML K (fst (m s)).
Proof.
  intros H (A0 & T & C & C0 & G). destruct (H s) as (C1 & T1 & G1 & new & O & Nn). unfold ML.
  rewrite O, acc_app_neutral by exact Nn. rewrite T1, C1, G1. auto.
Qed.

Lemma jpost_of_J {A} (x : rs * res A) : J (fst x) -> jpost x.
Proof. destruct x as [s' [a|e|p]]; cbn; auto. destruct e; auto. Qed.

(* the handler of a live loop timer: a prefix that leaves the loops alone, the re-arm, a tail *)
Definition live (s : rs) : Prop := M0 s /\ conn (st s) = Connected.
Definition rpost {A} (K : lk) (x : rs * res A) : Prop :=
  match x with
  | (_, RErr EEncode) => True
  | (_, RPanic _) => True
  | (s', _) => ML K s'
  end.
Definition rearm {A} (K : lk) (m : M A) : Prop := forall s, live s -> rpost K (m s).

Lemma rearm_pre {A B} K (m : M A) (f : A -> M B) :
  still m -> oee m -> (forall a, rearm K (f a)) -> rearm K (bind m f).
Proof.
  intros Sm Om Hf s [H0 Cn]. pose proof (still_keeps_M0 _ s Sm H0) as H1. destruct (Sm s) as (C1 & _).
  specialize (Om s). unfold bind. destruct (m s) as [s1 [a|e|p]]; cbn [fst] in *.
  - apply Hf. split; [exact H1|congruence].
  - subst e. exact I.
  - exact I.
Qed.
Lemma rearm_get_bind {B} K (body : foca -> M B) : (forall f, rearm K (body f)) -> rearm K (f <- get ;; body f).
Proof. intros H s Lv. unfold bind, get. cbn. apply H. exact Lv. Qed.

Lemma rearm_emit_then K (mk : foca -> timer Id) (d : foca -> N) (fin : M unit) :
  (forall f, loop_of (mk f) = Some (K, token f)) -> still fin ->
  rearm K (f <- get ;; emit (Submit (mk f) (d f)) ;;; fin).
Proof.
  intros HL Sf s [H0 Cn]. unfold bind at 1, get at 1. cbv beta iota. unfold bind at 1, emit at 1. cbv beta iota.
  pose proof (M0_emit_loop s (mk (st s)) (d (st s)) K H0 Cn (HL (st s))) as H1.
  pose proof (still_keeps_ML _ _ K Sf H1) as H2.
  destruct (fin _) as [s2 [a|e|p]]; cbn [fst rpost] in *; auto. destruct e; auto.
Qed.

(* the probe loop *)
Lemma rearm_probe_random_member : rearm LProbe (probe_random_member rnd).
Proof.
  unfold probe_random_member. apply rearm_get_bind. intros f.
  destruct (negb (conn_eqb (conn f) Connected)); [intros s _; exact I|].
  apply rearm_pre; [apply still_when; smod|apply oee_when, oee_modify|]. intros _.
  apply rearm_get_bind. intros f1. destruct (probe_take_failed (prb f1)) as [p' failed].
  apply rearm_pre; [smod|apply oee_modify|]. intros _.
  apply rearm_pre.
  { destruct failed as [fm|]; [|apply still_ret]. apply still_get_bind. intros f2.
    destruct (apply_existing_if _ _ _) as [[ms sm]|]; [|apply still_ret].
    apply still_bind; [smod|]. intros _. apply still_bind; [apply still_hsum|]. intros _.
    apply still_get_bind. intros f3. apply still_when, still_emit. reflexivity. }
  { destruct failed as [fm|]; [|apply oee_ret]. apply oee_get_bind. intros f2.
    destruct (apply_existing_if _ _ _) as [[ms sm]|]; [|apply oee_ret].
    apply oee_bind; [apply oee_modify|]. intros _. apply oee_bind; [apply oee_hsum|]. intros _.
    apply oee_get_bind. intros f3. apply oee_when, oee_emit. }
  intros _. apply rearm_get_bind. intros f2.
  apply rearm_pre; [apply still_with_ctr|apply oee_with_ctr|]. intros [ms chosen].
  apply rearm_pre; [smod|apply oee_modify|]. intros _.
  apply rearm_pre.
  { destruct chosen as [m|]; [|apply still_ret]. apply still_get_bind. intros f3.
    destruct (probe_start (prb f3) m) as [p'0 n].
    apply still_bind; [smod|]. intros _. apply still_bind; [apply still_send_message|]. intros _.
    apply still_get_bind. intros f4. apply still_emit. reflexivity. }
  { destruct chosen as [m|]; [|apply oee_ret]. apply oee_get_bind. intros f3.
    destruct (probe_start (prb f3) m) as [p'0 n].
    apply oee_bind; [apply oee_modify|]. intros _. apply oee_bind; [apply oee_send_message|]. intros _.
    apply oee_get_bind. intros f4. apply oee_emit. }
  intros _.
  apply (rearm_emit_then LProbe (fun f3 => TProbeRandomMember (token f3)) (fun f3 => probe_period (cfg f3))).
  - intros f3. reflexivity.
  - destruct (negb _); [apply still_fail|apply still_ret].
Qed.

Lemma rearm_periodic K (mk : N -> timer Id) (freq : N) (tok : N) (send : M unit) :
  (forall k, loop_of (mk k) = Some (K, k)) -> still send ->
  forall s, live s -> rpost K ((emit (Submit (mk (token (st s))) freq) ;;; send) s).
Proof.
  intros HL Ss s [H0 Cn]. unfold bind at 1, emit at 1. cbv beta iota.
  pose proof (M0_emit_loop s (mk (token (st s))) freq K H0 Cn (HL _)) as H1.
  pose proof (still_keeps_ML _ _ K Ss H1) as H2.
  destruct (send _) as [s2 [a|e|p]]; cbn [fst rpost] in *; auto. destruct e; auto.
Qed.

Lemma rpost_jpost {A} K (x : rs * res A) : L = Some K -> rpost K x -> jpost x.
Proof.
  intros EL. destruct x as [s' [a|e|p]]; cbn; auto; [|destruct e; auto]; intros H; right; right; right;
    unfold MLo; rewrite EL; exact H.
Qed.

(* is t the live timer of an enabled loop of f? *)
Definition live_timer (f : foca) (t : timer Id) : option lk :=
  match t with
  | TProbeRandomMember k => if (k =? token f) && conn_eqb (conn f) Connected then Some LProbe else None
  | TPeriodicAnnounce k =>
      if (k =? token f) && conn_eqb (conn f) Connected && is_some (periodic_announce (cfg f)) then Some LAnn else None
  | TPeriodicAnnounceDown k =>
      if (k =? token f) && conn_eqb (conn f) Connected && is_some (periodic_announce_down (cfg f)) then Some LAnnDown else None
  | TPeriodicGossip k =>
      if (k =? token f) && conn_eqb (conn f) Connected && is_some (periodic_gossip (cfg f)) then Some LGossip else None
  | _ => None
  end.

(* handle_timer from the state the call started in *)
Lemma handle_timer_acct t (s : rs) : st s = f0 -> L = live_timer f0 t -> M0 s -> jpost (handle_timer rnd t s).
Proof.
  intros Es EL H0. assert (Js : J s) by (left; exact H0).
  unfold handle_timer, bind at 1, get at 1. cbv beta iota. rewrite Es in *.
  destruct t as [tok|probed tok|mid inc tok|tok|tok|tok|down]; cbn [live_timer] in EL.
  - destruct (tok =? token f0); cbn [andb] in EL; [|apply jp_ret; exact Js].
    destruct (conn f0) eqn:Cn; cbn [conn_eqb negb] in *; try (apply (still_jp _ (still_fail _)); exact Js).
    apply (rpost_jpost LProbe _ EL). apply rearm_probe_random_member. split; [exact H0|]. rewrite Es. exact Cn.
  - revert Js. apply still_jp.
    destruct (negb (tok =? token f0)); [apply still_ret|].
    apply still_bind; [smod|]. intros _.
    destruct (negb (probe_is_probing _ _)); [apply still_ret|].
    destruct (probe_succeeded _); [apply still_ret|].
    destruct (negb (is_active_id _ _)); [apply still_ret|].
    apply still_bind; [apply still_choose_active|]. intros chosen. apply still_indirect_loop.
  - revert Js. destruct (negb (token f0 =? tok)); [apply jp_ret|].
    destruct (apply_existing_if _ _ _) as [[ms sm]|]; [|apply jp_ret].
    apply jp_bind; [apply still_jp; smod|]. intros _.
    apply jp_bind; [apply still_jp, still_hsum|]. intros _.
    apply jp_bind; [apply jp_adjust|]. intros _. apply jp_when, still_jp, still_send_message.
  - unfold periodic_guard. destruct (tok =? token f0) eqn:T; cbn [andb] in *; [|apply jp_ret; exact Js].
    destruct (conn f0) eqn:Cn; cbn [conn_eqb andb] in *; try (apply jp_ret; exact Js).
    destruct (periodic_announce (cfg f0)) as [[freq n]|]; cbn [is_some] in EL; [|apply jp_ret; exact Js].
    apply (rpost_jpost LAnn _ EL). rewrite <- Es.
    apply (rearm_periodic LAnn (fun k => TPeriodicAnnounce k) freq tok); [reflexivity|apply still_choose_and_send|].
    split; [exact H0|rewrite Es; exact Cn].
  - unfold periodic_guard. destruct (tok =? token f0) eqn:T; cbn [andb] in *; [|apply jp_ret; exact Js].
    destruct (conn f0) eqn:Cn; cbn [conn_eqb andb] in *; try (apply jp_ret; exact Js).
    destruct (periodic_announce_down (cfg f0)) as [[freq n]|]; cbn [is_some] in EL; [|apply jp_ret; exact Js].
    apply (rpost_jpost LAnnDown _ EL). rewrite <- Es.
    apply (rearm_periodic LAnnDown (fun k => TPeriodicAnnounceDown k) freq tok); [reflexivity|apply still_announce_to_down|].
    split; [exact H0|rewrite Es; exact Cn].
  - unfold periodic_guard. destruct (tok =? token f0) eqn:T; cbn [andb] in *; [|apply jp_ret; exact Js].
    destruct (conn f0) eqn:Cn; cbn [conn_eqb andb] in *; try (apply jp_ret; exact Js).
    destruct (periodic_gossip (cfg f0)) as [[freq n]|]; cbn [is_some] in EL; [|apply jp_ret; exact Js].
    apply (rpost_jpost LGossip _ EL). rewrite <- Es.
    apply (rearm_periodic LGossip (fun k => TPeriodicGossip k) freq tok); [reflexivity| |split; [exact H0|rewrite Es; exact Cn]].
    destruct (updates (st s)), (customs (st s)); try apply still_ret; apply still_choose_and_send.
  - revert Js. apply still_jp. smod.
Qed.

(* the live timer of an enabled loop: consumed and re-armed exactly once, nothing else armed *)
Lemma handle_timer_live t K (s : rs) :
  st s = f0 -> live_timer f0 t = Some K -> M0 s -> rpost K (handle_timer rnd t s).
Proof.
  intros Es EL H0.
  unfold handle_timer, bind at 1, get at 1. cbv beta iota. rewrite Es in *.
  destruct t as [tok|probed tok|mid inc tok|tok|tok|tok|down]; cbn [live_timer] in EL; try discriminate.
  - destruct (tok =? token f0); cbn [andb] in EL; [|discriminate].
    destruct (conn f0) eqn:Cn; cbn [conn_eqb negb] in *; try discriminate.
    inversion EL; subst K. apply rearm_probe_random_member. split; [exact H0|]. rewrite Es. exact Cn.
  - unfold periodic_guard. destruct (tok =? token f0) eqn:T; cbn [andb] in *; [|discriminate].
    destruct (conn f0) eqn:Cn; cbn [conn_eqb andb] in *; try discriminate.
    destruct (periodic_announce (cfg f0)) as [[freq n]|]; cbn [is_some] in EL; [|discriminate].
    inversion EL; subst K. rewrite <- Es.
    apply (rearm_periodic LAnn (fun k => TPeriodicAnnounce k) freq tok); [reflexivity|apply still_choose_and_send|].
    split; [exact H0|rewrite Es; exact Cn].
  - unfold periodic_guard. destruct (tok =? token f0) eqn:T; cbn [andb] in *; [|discriminate].
    destruct (conn f0) eqn:Cn; cbn [conn_eqb andb] in *; try discriminate.
    destruct (periodic_announce_down (cfg f0)) as [[freq n]|]; cbn [is_some] in EL; [|discriminate].
    inversion EL; subst K. rewrite <- Es.
    apply (rearm_periodic LAnnDown (fun k => TPeriodicAnnounceDown k) freq tok); [reflexivity|apply still_announce_to_down|].
    split; [exact H0|rewrite Es; exact Cn].
  - unfold periodic_guard. destruct (tok =? token f0) eqn:T; cbn [andb] in *; [|discriminate].
    destruct (conn f0) eqn:Cn; cbn [conn_eqb andb] in *; try discriminate.
    destruct (periodic_gossip (cfg f0)) as [[freq n]|]; cbn [is_some] in EL; [|discriminate].
    inversion EL; subst K. rewrite <- Es.
    apply (rearm_periodic LGossip (fun k => TPeriodicGossip k) freq tok); [reflexivity| |split; [exact H0|rewrite Es; exact Cn]].
    destruct (updates (st s)), (customs (st s)); try apply still_ret; apply still_choose_and_send.
Qed.

Lemma M0_init : M0 (mkRs f0 [] 0).
Proof. repeat split. apply incl_refl. Qed.

Lemma wrap8_succ_neq (k : N) : wrap8 (k + 1) <> k.
Proof.
  unfold wrap8. intros H. assert (k < 256) by (rewrite <- H; apply N.mod_lt; lia).
  destruct (N.eq_dec k 255) as [->|Ne]; [cbn in H; lia|].
  rewrite N.mod_small in H by lia. lia.
Qed.

Lemma run_unit_acct (m : M unit) :
  jpost (m (mkRs f0 [] 0)) ->
  let '(f', es, r, k) := run_unit m f0 in
  match r with Failed EEncode => True | Panicked _ => True | _ => J (mkRs f' es k) end.
Proof.
  unfold run_unit. destruct (m (mkRs f0 [] 0)) as [[f' es k] [a|e|p]]; cbn; auto.
Qed.

Lemma change_identity_acct new_id : jpost (change_identity rnd new_id (mkRs f0 [] 0)).
Proof.
  unfold change_identity, bind at 1, get at 1. cbv beta iota. cbn [st].
  destruct (id_eqb (identity f0) new_id); [cbn; left; apply M0_init|].
  unfold bind at 1, modify at 1. cbv beta iota. unfold bind at 1, reset at 1, modify at 1. cbv beta iota. cbn [st out ctr].
  set (s2 := mkRs _ [] 0).
  assert (S : still (when (negb (conn_eqb (conn f0) Undead)) (add_update (mkMember (identity f0) 0 Down)) ;;; gossip rnd)).
  { apply still_bind; [apply still_when, still_add_update|]. intros _. apply still_gossip. }
  destruct (S s2) as (C & T & _ & new & O & Nn).
  apply jpost_of_J. right. left. unfold M1. rewrite C, T, O. rewrite acc_app_neutral by exact Nn.
  subst s2. cbn. repeat split; [discriminate|]. intros _ H. exfalso. exact (wrap8_succ_neq _ H).
Qed.

(* ONE CALL from f0: unless it panics (C06) or aborts with an Encode error, the loop timers it
   submitted since the last epoch notification are described by exactly one of the modes *)
Theorem step_acct (i : @input Id) :
  L = match i with ITimer t => live_timer f0 t | _ => None end ->
  let '(f', es, r, k) := step rnd f0 i in
  match r with Failed EEncode => True | Panicked _ => True | _ => J (mkRs f' es k) end.
Proof.
  intros EL.
  assert (J0 : J (mkRs f0 [] 0)) by (left; apply M0_init).
  destruct i; cbn [step].
  - apply run_unit_acct. apply jp_handle_data. exact J0.
  - apply run_unit_acct. apply handle_timer_acct; [reflexivity|exact EL|apply M0_init].
  - apply run_unit_acct. apply jp_apply_many. exact J0.
  - apply run_unit_acct. apply (still_jp _ (still_send_message dst Announce)). exact J0.
  - apply run_unit_acct. apply (still_jp _ still_gossip). exact J0.
  - apply run_unit_acct. apply (still_jp _ still_broadcast). exact J0.
  - apply run_unit_acct. revert J0. unfold leave_cluster. apply jp_get_bind. intros f.
    apply jp_bind; [apply still_jp, still_add_update|]. intros _.
    apply jp_bind; [apply still_jp, still_gossip|]. intros _. apply jp_become_undead.
  - apply run_unit_acct. apply change_identity_acct.
  - apply run_unit_acct. unfold reuse_down_identity, bind, get. cbn [st].
    destruct (negb (conn_eqb (conn f0) Undead)); [cbn; exact J0|].
    unfold reset, modify. cbn. right. left. unfold M1. cbn. repeat split; [discriminate|].
    intros _ H. exfalso. exact (wrap8_succ_neq _ H).
  - apply run_unit_acct. unfold set_config, bind at 1, get at 1. cbv beta iota. cbn [st].
    pose proof (set_config_accepts f0 c) as SA. unfold config_refused in SA.
    destruct (_ || _ || _ || _ || _); [cbn; exact J0|].
    destruct (SA eq_refl) as (_ & _ & A1 & A2 & A3).
    assert (IN : incl (enabled c) (enabled (cfg f0))).
    { unfold enabled. intros K HK. destruct HK as [<-|HK]; [left; reflexivity|]. right.
      apply in_app_or in HK. apply in_or_app. destruct HK as [HK|HK].
      - left. destruct (periodic_announce (cfg f0)); [destruct (periodic_announce c); [exact HK|contradiction]|].
        rewrite (A1 eq_refl) in HK. contradiction.
      - right. apply in_app_or in HK. apply in_or_app. destruct HK as [HK|HK].
        + left. destruct (periodic_announce_down (cfg f0)); [destruct (periodic_announce_down c); [exact HK|contradiction]|].
          rewrite (A2 eq_refl) in HK. contradiction.
        + right. destruct (periodic_gossip (cfg f0)); [destruct (periodic_gossip c); [exact HK|contradiction]|].
          rewrite (A3 eq_refl) in HK. contradiction. }
    unfold bind, when, modify, ret. destruct (negb _); cbn; left; repeat split; exact IN.
  - unfold run_bool. pose proof (still_jp _ (still_add_broadcast b) _ J0) as H.
    destruct (add_broadcast b (mkRs f0 [] 0)) as [[f' es k] [a|e|p]]; cbn in *; auto.
Qed.

Theorem step_live (t : timer Id) (K : lk) :
  live_timer f0 t = Some K ->
  let '(f', es, r, k) := step rnd f0 (ITimer t) in
  match r with Failed EEncode => True | Panicked _ => True | _ => ML K (mkRs f' es k) end.
Proof.
  intros EL. cbn [step]. unfold run_unit.
  pose proof (handle_timer_live t K (mkRs f0 [] 0) eq_refl EL M0_init) as H.
  destruct (handle_timer rnd t (mkRs f0 [] 0)) as [[f' es k] [a|e|p]]; cbn in *; auto.
Qed.

End Acct.

(* ---------- closed loop: the runtime delivers each scheduled timer exactly once ---------- *)
Section Loop.
Context {Id Addr : Type} {IO : IdOps Id Addr} {CO : CodecOps Id} {HO : HandlerOps Id} {IL : IdLaws IO}.
Variable rnd : oracle.
Notation foca := (@foca Id Addr HO).
Notation effect := (effect Id).

Definition lk_eqb (a b : lk) : bool :=
  match a, b with LProbe, LProbe | LAnn, LAnn | LAnnDown, LAnnDown | LGossip, LGossip => true | _, _ => false end.
Lemma lk_eqb_eq a b : lk_eqb a b = true <-> a = b.
Proof. destruct a, b; cbn; split; intros H; try reflexivity; try discriminate. Qed.

(* loop timers (kind, token) among a list of timers / among the timers submitted by effects *)
Definition pairs_of (P : list (timer Id)) : list (lk * N) :=
  flat_map (fun t => match loop_of t with Some x => [x] | None => [] end) P.
Definition subm (es : list effect) : list (timer Id) :=
  flat_map (fun e => match e with Submit t _ => [t] | _ => [] end) es.
Definition cntp (K : lk) (k : N) (l : list (lk * N)) : nat :=
  length (filter (fun p => lk_eqb K (fst p) && (k =? snd p)) l).
Definition cnt (K : lk) (k : N) (P : list (timer Id)) : nat := cntp K k (pairs_of P).

Lemma cntp_app K k l1 l2 : cntp K k (l1 ++ l2) = (cntp K k l1 + cntp K k l2)%nat.
Proof. unfold cntp. rewrite filter_app, app_length. reflexivity. Qed.
Lemma pairs_of_app P1 P2 : pairs_of (P1 ++ P2) = pairs_of P1 ++ pairs_of P2.
Proof. unfold pairs_of. apply flat_map_app. Qed.
Lemma cnt_app K k P1 P2 : cnt K k (P1 ++ P2) = (cnt K k P1 + cnt K k P2)%nat.
Proof. unfold cnt. rewrite pairs_of_app. apply cntp_app. Qed.

(* the loop timers a call submitted = those before its last epoch notification ++ those after *)
Lemma acc_from_split es : forall a,
  exists d, fst a ++ pairs_of (subm es) = d ++ fst (acc_from a es)
            /\ (snd (acc_from a es) = false -> d = [] /\ snd a = false).
Proof.
  induction es as [|e es IH]; intros a.
  - exists []. cbn. rewrite app_nil_r. auto.
  - cbn [acc_from fold_left]. fold (acc_from (acc_step a e) es).
    destruct (IH (acc_step a e)) as (d & E & F).
    destruct e as [dst b|t dur|n]; cbn [acc_step subm flat_map app] in *.
    + exists d. split; [exact E|exact F].
    + cbn [pairs_of flat_map]. fold (pairs_of (subm es)).
      destruct (loop_of t) as [x|]; cbn [fst snd app] in *.
      * exists d. rewrite <- app_assoc in E. cbn [app] in E. split; [exact E|exact F].
      * exists d. split; [exact E|exact F].
    + destruct (epoch_note n); cbn [fst snd app] in *.
      * exists (fst a ++ d). rewrite <- app_assoc, <- E. split; [reflexivity|].
        intros H. destruct (F H) as [_ X]. discriminate.
      * exists d. split; [exact E|exact F].
Qed.

Lemma acc_split es :
  exists d, pairs_of (subm es) = d ++ fst (acc es) /\ (snd (acc es) = false -> d = []).
Proof.
  destruct (acc_from_split es ([], false)) as (d & E & F). exists d. cbn [fst app] in E. split; [exact E|].
  intros H. apply F. exact H.
Qed.

Definition Inv (f : foca) (P : list (timer Id)) : Prop :=
  forall K, (conn f = Connected -> In K (enabled (cfg f)) -> cnt K (token f) P = 1%nat)
         /\ (conn f <> Connected -> cnt K (token f) P = 0%nat).

(* no aliasing across epochs (fewer than 256 epoch changes between issue and delivery):
   after an epoch change no timer issued earlier carries the new token *)
Definition no_alias (f' : foca) (P1 : list (timer Id)) (es : list effect) : Prop :=
  forall K d, pairs_of (subm es) = d ++ fst (acc es) ->
              cnt K (token f') P1 = 0%nat /\ cntp K (token f') d = 0%nat.

Lemma NoDup_enabled c : NoDup (enabled c).
Proof.
  unfold enabled. destruct (is_some (periodic_announce c)), (is_some (periodic_announce_down c)), (is_some (periodic_gossip c));
    cbn; repeat constructor; cbn; intuition discriminate.
Qed.

Lemma cntp_full K c k : cntp K k (full c k) = if existsb (lk_eqb K) (enabled c) then 1%nat else 0%nat.
Proof.
  unfold full. pose proof (NoDup_enabled c) as ND. induction (enabled c) as [|x l IH]; [reflexivity|].
  inversion ND as [|? ? Hn ND']; subst. cbn [map existsb]. unfold cntp in *. cbn [filter fst snd].
  rewrite N.eqb_refl, andb_true_r. destruct (lk_eqb K x) eqn:E.
  - apply lk_eqb_eq in E. subst x. cbn [length orb]. rewrite IH by exact ND'.
    destruct (existsb (lk_eqb K) l) eqn:X; [|reflexivity].
    apply existsb_exists in X. destruct X as (y & Hy & Ey). apply lk_eqb_eq in Ey. subst. contradiction.
  - cbn [orb]. apply IH. exact ND'.
Qed.

Lemma In_existsb K l : In K l -> existsb (lk_eqb K) l = true.
Proof. intros H. apply existsb_exists. exists K. split; [exact H|apply lk_eqb_eq; reflexivity]. Qed.

Lemma cnt_subm K k es d : pairs_of (subm es) = d ++ fst (acc es) ->
  cnt K k (subm es) = (cntp K k d + cntp K k (fst (acc es)))%nat.
Proof. intros E. unfold cnt. rewrite E. apply cntp_app. Qed.

Definition clean (r : result) : Prop := match r with Failed EEncode => False | Panicked _ => False | _ => True end.
Definition epoch_changed (f f' : foca) (es : list effect) : Prop := snd (acc es) = true \/ token f' <> token f.

(* delivering a timer that is not the live timer of an enabled loop (stale, foreign kind, disabled
   task) takes nothing away that the invariant counts *)
Lemma Inv_remove_nonlive (f : foca) (P1 P2 : list (timer Id)) (t : timer Id) :
  Inv f (P1 ++ t :: P2) -> live_timer f t = None -> Inv f (P1 ++ P2).
Proof.
  intros HI NL K'. destruct (HI K') as [H1 H2]. rewrite !cnt_app in *.
  assert (E : exists b : bool, cnt K' (token f) (t :: P2) = ((if b then 1 else 0) + cnt K' (token f) P2)%nat
              /\ (b = true -> exists K, loop_of t = Some (K, token f) /\ K' = K)).
  { unfold cnt. cbn [pairs_of flat_map]. fold (pairs_of P2). destruct (loop_of t) as [[K k]|] eqn:LO.
    - cbn [app]. unfold cntp. cbn [filter fst snd].
      destruct (lk_eqb K' K && (token f =? k)) eqn:B.
      + exists true. split; [reflexivity|]. intros _. apply andb_true_iff in B. destruct B as [B1 B2].
        apply lk_eqb_eq in B1. apply N.eqb_eq in B2. subst. exists K. auto.
      + exists false. split; [reflexivity|discriminate].
    - exists false. split; [reflexivity|discriminate]. }
  destruct E as (b & E1 & E2). rewrite E1 in *. destruct b; [|split; [exact H1|exact H2]].
  destruct (E2 eq_refl) as (K & LO & ->).
  (* t is a loop timer of kind K carrying the current token, yet not live *)
  destruct (conn f) eqn:Cn.
  - specialize (H2 ltac:(discriminate)). lia.
  - split; [|intros X; contradiction]. intros _ HK. exfalso.
    destruct t; cbn [loop_of] in LO; inversion LO; subst; cbn [live_timer] in NL;
      rewrite N.eqb_refl, Cn in NL; cbn [conn_eqb andb] in NL; try discriminate;
      unfold enabled in HK;
      match type of NL with (if ?c then _ else _) = _ => destruct c eqn:Ec; [discriminate|] end;
      cbn in HK; rewrite ?Ec in HK;
      repeat (match goal with
              | H : _ \/ _ |- _ => destruct H
              | H : In _ (_ ++ _) |- _ => apply in_app_or in H
              | H : In _ (if ?c then _ else _) |- _ => destruct c; cbn in H
              | H : In _ [] |- _ => contradiction
              | H : In _ [_] |- _ => destruct H
              end; try discriminate; try contradiction).
  - specialize (H2 ltac:(discriminate)). lia.
Qed.

(* a call that does not consume a live loop timer *)
Theorem loop_invariant_other (f : foca) (P : list (timer Id)) (i : @input Id) :
  Inv f P ->
  match i with ITimer t => live_timer f t = None | _ => True end ->
  let '(f', es, r, _) := step rnd f i in
  clean r -> (epoch_changed f f' es -> no_alias f' P es) ->
  Inv f' (P ++ subm es).
Proof.
  intros HI NL. pose proof (step_acct rnd f None i) as SA.
  assert (EL : None = match i with ITimer t => live_timer f t | _ => None end).
  { destruct i; try reflexivity. symmetry. exact NL. }
  specialize (SA EL). destruct (step rnd f i) as [[[f' es] r] k]. intros Cl NA.
  assert (Jf : J f None (mkRs f' es k)) by (destruct r as [| |e|p]; try exact SA; [destruct e; try exact SA; contradiction|contradiction]).
  clear SA. destruct (acc_split es) as (d & Ed & Fd).
  destruct Jf as [(A & T & C & G)|[(C & A & X)|[(C & A & X)|[]]]]; cbn [st out] in *.
  - (* nothing happened to the loops *)
    assert (d = []) by (apply Fd; rewrite A; reflexivity). subst d.
    intros K. rewrite cnt_app, (cnt_subm K _ es [] Ed), A. cbn. rewrite T, C, Nat.add_0_r.
    destruct (HI K) as [H1 H2]. split; [|exact H2]. intros Cn HK. apply H1; [exact Cn|apply G; exact HK].
  - (* not connected at the end *)
    intros K. split; [intros Cn; contradiction|]. intros _.
    rewrite cnt_app, (cnt_subm K _ es d Ed), A. cbn [cntp filter length]. rewrite Nat.add_0_r.
    destruct (snd (acc es)) eqn:EP.
    + destruct (NA (or_introl EP) K d Ed) as [N1 N2]. rewrite N1, N2. reflexivity.
    + destruct (N.eq_dec (token f') (token f)) as [ET|NT].
      * rewrite (Fd eq_refl). cbn. rewrite Nat.add_0_r. rewrite ET. apply (HI K). rewrite <- (X eq_refl ET). exact C.
      * destruct (NA (or_intror NT) K d Ed) as [N1 N2]. rewrite N1, N2. reflexivity.
  - (* connected in the last epoch of the call: every enabled loop armed once *)
    intros K. split; [|intros NC; contradiction]. intros _ HK.
    rewrite cnt_app, (cnt_subm K _ es d Ed), A, cntp_full, (In_existsb _ _ HK).
    destruct (snd (acc es)) eqn:EP.
    + destruct (NA (or_introl EP) K d Ed) as [N1 N2]. rewrite N1, N2. reflexivity.
    + destruct (N.eq_dec (token f') (token f)) as [ET|NT].
      * rewrite (Fd eq_refl). cbn. rewrite ET. rewrite (proj2 (HI K) (X eq_refl ET)). reflexivity.
      * destruct (NA (or_intror NT) K d Ed) as [N1 N2]. rewrite N1, N2. reflexivity.
Qed.

(* the live timer of an enabled loop is delivered: it is taken out of the pending set and the
   handler puts exactly one successor back *)
Theorem loop_invariant_live (f : foca) (P1 P2 : list (timer Id)) (t : timer Id) (K : lk) :
  Inv f (P1 ++ t :: P2) -> live_timer f t = Some K ->
  let '(f', es, r, _) := step rnd f (ITimer t) in
  clean r -> Inv f' (P1 ++ P2 ++ subm es).
Proof.
  intros HI LT. pose proof (step_live rnd f t K LT) as SL.
  destruct (step rnd f (ITimer t)) as [[[f' es] r] k]. intros Cl.
  assert (HM : ML f K (mkRs f' es k)) by (destruct r as [| |e|p]; try exact SL; [destruct e; try exact SL; contradiction|contradiction]).
  clear SL. destruct HM as (A & T & C & C0 & G). cbn [st out] in *.
  destruct (acc_split es) as (d & Ed & Fd). assert (d = []) by (apply Fd; rewrite A; reflexivity). subst d.
  assert (LO : loop_of t = Some (K, token f)).
  { destruct t; cbn [live_timer] in LT; try discriminate;
      match type of LT with (if ?c then _ else _) = _ => destruct c eqn:E; [|discriminate] end;
      inversion LT; subst K; cbn [loop_of]; repeat (apply andb_true_iff in E; destruct E as [E ?]);
      apply N.eqb_eq in E; subst; reflexivity. }
  assert (KE : In K (enabled (cfg f))).
  { unfold enabled. destruct t; cbn [live_timer] in LT; try discriminate;
      match type of LT with (if ?c then _ else _) = _ => destruct c eqn:E; [|discriminate] end;
      inversion LT; subst K; repeat (apply andb_true_iff in E; destruct E as [E ?]).
    - left. reflexivity.
    - right. apply in_or_app. left. match goal with H : is_some _ = true |- _ => rewrite H end. left. reflexivity.
    - right. apply in_or_app. right. apply in_or_app. left. match goal with H : is_some _ = true |- _ => rewrite H end. left. reflexivity.
    - right. apply in_or_app. right. apply in_or_app. right. match goal with H : is_some _ = true |- _ => rewrite H end. left. reflexivity. }
  intros K'. rewrite T, C. split; [|intros NC; contradiction]. intros _ HK'.
  apply G in HK'. destruct (HI K') as [H1 _]. specialize (H1 C0 HK').
  rewrite !cnt_app in *. rewrite (cnt_subm K' _ es [] Ed), A. cbn [app fst].
  assert (E1 : cnt K' (token f) (t :: P2) = ((if lk_eqb K' K then 1 else 0) + cnt K' (token f) P2)%nat).
  { unfold cnt. cbn [pairs_of flat_map]. rewrite LO. fold (pairs_of P2). cbn [app]. unfold cntp. cbn [filter fst snd].
    rewrite N.eqb_refl, andb_true_r. destruct (lk_eqb K' K); reflexivity. }
  assert (E2 : cntp K' (token f) [(K, token f)] = (if lk_eqb K' K then 1 else 0)%nat).
  { unfold cntp. cbn [filter fst snd]. rewrite N.eqb_refl, andb_true_r. destruct (lk_eqb K' K); reflexivity. }
  rewrite E1 in H1. rewrite E2. unfold cntp at 1. cbn [filter length].
  destruct (lk_eqb K' K); lia.
Qed.

End Loop.

(* ---------- which errors handle_timer can return ---------- *)
Section TimerErrors.
Context {Id Addr : Type} {IO : IdOps Id Addr} {CO : CodecOps Id} {HO : HandlerOps Id} {IL : IdLaws IO}.
Variable rnd : oracle.
Notation foca := (@foca Id Addr HO).
Notation M := (@M Id Addr HO).
Notation "x <- m ;; f" := (bind m (fun x => f)) (at level 61, m at next level, right associativity).
Notation "m ;;; f" := (bind m (fun _ => f)) (at level 61, right associativity).

Definition errs {A} (S : error -> Prop) (m : M A) : Prop :=
  forall s, match m s with (_, RErr e) => S e | _ => True end.

Lemma errs_bind {A B} S (m : M A) (f : A -> M B) : errs S m -> (forall a, errs S (f a)) -> errs S (bind m f).
Proof. intros Hm Hf s. specialize (Hm s). unfold bind. destruct (m s) as [s1 [a|e|p]]; auto. apply Hf. Qed.
Lemma errs_oee {A} (S : error -> Prop) (m : M A) : S EEncode -> oee m -> errs S m.
Proof. intros HS H s. specialize (H s). destruct (m s) as [s1 [a|e|p]]; auto. subst. exact HS. Qed.
Lemma errs_fail {A} (S : error -> Prop) e : S e -> errs S (@fail Id Addr HO A e).
Proof. intros H s. exact H. Qed.
Lemma errs_get_bind {B} S (body : foca -> M B) : (forall f, errs S (body f)) -> errs S (f <- get ;; body f).
Proof. intros H. apply errs_bind; [intros s; exact I|exact H]. Qed.

Lemma oee_choose_and_send n msg : oee (choose_and_send rnd n msg).
Proof.
  unfold choose_and_send. apply oee_bind.
  { unfold choose_active. apply oee_get_bind. intros f1. apply oee_with_ctr. }
  intros chosen. apply oee_forM. intros m. apply oee_send_message.
Qed.
Lemma oee_announce_to_down n : oee (announce_to_down rnd n).
Proof.
  unfold announce_to_down. apply oee_get_bind. intros f.
  apply oee_bind; [apply oee_with_ctr|]. intros chosen. apply oee_forM. intros m. apply oee_send_message.
Qed.
Lemma oee_indirect_loop probed l : oee (indirect_loop rnd probed l).
Proof.
  unfold indirect_loop. apply oee_forM. intros m. apply oee_get_bind. intros f.
  destruct (probe_expect_indirect_ack (prb f) (m_id m)); [|apply oee_panic].
  apply oee_bind; [apply oee_modify|]. intros _. apply oee_send_message.
Qed.
Lemma oee_adjust : oee (@adjust_connection_state Id Addr HO).
Proof.
  unfold adjust_connection_state. apply oee_get_bind. intros f. destruct (conn f).
  - apply oee_when. unfold become_connected. apply oee_get_bind. intros f1.
    destruct (_ =? 0); [apply oee_panic|].
    apply oee_bind; [apply oee_modify|]. intros _. apply oee_bind; [apply oee_emit|]. intros _.
    unfold submit_periodic.
    apply oee_bind; [destruct (periodic_announce (cfg f1)) as [[? ?]|]; [apply oee_emit|apply oee_ret]|]. intros _.
    apply oee_bind; [destruct (periodic_announce_down (cfg f1)) as [[? ?]|]; [apply oee_emit|apply oee_ret]|]. intros _.
    apply oee_bind; [destruct (periodic_gossip (cfg f1)) as [[? ?]|]; [apply oee_emit|apply oee_ret]|]. intros _.
    apply oee_emit.
  - apply oee_when. unfold become_disconnected. apply oee_get_bind. intros f1.
    destruct (negb _); [apply oee_panic|]. apply oee_bind; [apply oee_modify|]. intros _. apply oee_emit.
  - apply oee_ret.
Qed.

Definition timer_err (e : error) : Prop := e = EEncode \/ e = EIncompleteProbeCycle \/ e = ENotConnected.
Definition probe_err (e : error) : Prop := e = EEncode \/ e = EIncompleteProbeCycle.

Lemma errs_probe_random_member : errs probe_err (probe_random_member rnd).
Proof.
  assert (PE : probe_err EEncode) by (left; reflexivity).
  unfold probe_random_member. apply errs_get_bind. intros f.
  destruct (negb (conn_eqb (conn f) Connected)); [intros s; exact I|].
  apply errs_bind; [apply (errs_oee _ _ PE), oee_when, oee_modify|]. intros _.
  apply errs_get_bind. intros f1. destruct (probe_take_failed (prb f1)) as [p' failed].
  apply errs_bind; [apply (errs_oee _ _ PE), oee_modify|]. intros _.
  apply errs_bind.
  { apply (errs_oee _ _ PE). destruct failed as [fm|]; [|apply oee_ret]. apply oee_get_bind. intros f2.
    destruct (apply_existing_if _ _ _) as [[ms sm]|]; [|apply oee_ret].
    apply oee_bind; [apply oee_modify|]. intros _. apply oee_bind; [apply oee_hsum|]. intros _.
    apply oee_get_bind. intros f3. apply oee_when, oee_emit. }
  intros _. apply errs_get_bind. intros f2.
  apply errs_bind; [apply (errs_oee _ _ PE), oee_with_ctr|]. intros [ms chosen].
  apply errs_bind; [apply (errs_oee _ _ PE), oee_modify|]. intros _.
  apply errs_bind.
  { apply (errs_oee _ _ PE). destruct chosen as [m|]; [|apply oee_ret]. apply oee_get_bind. intros f3.
    destruct (probe_start (prb f3) m) as [p'0 n].
    apply oee_bind; [apply oee_modify|]. intros _. apply oee_bind; [apply oee_send_message|]. intros _.
    apply oee_get_bind. intros f4. apply oee_emit. }
  intros _. apply errs_get_bind. intros f3.
  apply errs_bind; [apply (errs_oee _ _ PE), oee_emit|]. intros _.
  destruct (negb _); [apply errs_fail; right; reflexivity|intros s; exact I].
Qed.

(* handle_timer returns Done, or fails with Encode (a header that does not fit), IncompleteProbeCycle
   (a probe timer delivered before its round's SendIndirectProbe), or NotConnected - the latter only
   for a probe timer carrying the current token while the instance is not connected *)
Theorem handle_timer_errors (f : foca) (t : timer Id) :
  match snd (fst (step rnd f (ITimer t))) with
  | Failed e => e = EEncode \/ e = EIncompleteProbeCycle
                \/ (e = ENotConnected /\ conn f <> Connected /\ t = TProbeRandomMember (token f))
  | _ => True
  end.
Proof.
  cbn [step]. unfold run_unit, handle_timer, bind at 1, get at 1. cbv beta iota. cbn [st].
  assert (EE : forall (m : M unit), oee m ->
            match snd (fst (let '(s, r) := m (mkRs f [] 0) in (st s, out s, to_result (fun _ => Done) r, ctr s))) with
            | Failed e => e = EEncode \/ e = EIncompleteProbeCycle
                          \/ (e = ENotConnected /\ conn f <> Connected /\ t = TProbeRandomMember (token f))
            | _ => True end).
  { intros m H. specialize (H (mkRs f [] 0)). destruct (m (mkRs f [] 0)) as [s1 [a|e|p]]; cbn; auto. }
  destruct t as [tok|probed tok|mid inc tok|tok|tok|tok|down].
  - destruct (tok =? token f) eqn:T; [|apply EE, oee_ret].
    apply N.eqb_eq in T. subst tok.
    destruct (conn f) eqn:Cn; cbn [conn_eqb negb].
    + cbn. right. right. repeat split; auto. discriminate.
    + pose proof (errs_probe_random_member (mkRs f [] 0)) as H.
      destruct (probe_random_member rnd (mkRs f [] 0)) as [s1 [a|e|p]]; cbn; auto. destruct H as [->| ->]; auto.
    + cbn. right. right. repeat split; auto. discriminate.
  - apply EE. destruct (negb (tok =? token f)); [apply oee_ret|].
    apply oee_bind; [apply oee_modify|]. intros _.
    destruct (negb (probe_is_probing _ _)); [apply oee_ret|].
    destruct (probe_succeeded _); [apply oee_ret|].
    destruct (negb (is_active_id _ _)); [apply oee_ret|].
    apply oee_bind; [unfold choose_active; apply oee_get_bind; intros f1; apply oee_with_ctr|]. intros chosen.
    apply oee_indirect_loop.
  - apply EE. destruct (negb (token f =? tok)); [apply oee_ret|].
    destruct (apply_existing_if _ _ _) as [[ms sm]|]; [|apply oee_ret].
    apply oee_bind; [apply oee_modify|]. intros _. apply oee_bind; [apply oee_hsum|]. intros _.
    apply oee_bind; [apply oee_adjust|]. intros _. apply oee_when, oee_send_message.
  - apply EE. destruct (periodic_guard _ _); [|apply oee_ret].
    destruct (periodic_announce _) as [[freq n]|]; [|apply oee_ret].
    apply oee_bind; [apply oee_emit|]. intros _. apply oee_choose_and_send.
  - apply EE. destruct (periodic_guard _ _); [|apply oee_ret].
    destruct (periodic_announce_down _) as [[freq n]|]; [|apply oee_ret].
    apply oee_bind; [apply oee_emit|]. intros _. apply oee_announce_to_down.
  - apply EE. destruct (periodic_guard _ _); [|apply oee_ret].
    destruct (periodic_gossip _) as [[freq n]|]; [|apply oee_ret].
    apply oee_bind; [apply oee_emit|]. intros _.
    destruct (updates f), (customs f); try apply oee_ret; apply oee_choose_and_send.
  - apply EE, oee_modify.
Qed.

End TimerErrors.
