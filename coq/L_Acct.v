(* L_Acct.v — C13: timer accounting.  The recurring loops (probe, periodic announce, periodic
   announce-to-down, periodic gossip) are re-armed exactly once by the handler of their own
   live timer, armed exactly once each when the instance connects, and never otherwise;
   every epoch change (Idle, Defunct, identity change) leaves nothing armed in the new epoch. *)
From Foca Require Import Laws L_Lists MembersM L_Members L_MembersInv FocaM Hoare Inv L_Mech L_Timers L_Mirror L_ConnCons.

Section Acct.
Context {Id Addr : Type} {IO : IdOps Id Addr} {CO : CodecOps Id} {HO : HandlerOps Id} {IL : IdLaws IO}.
Variable rnd : oracle.
Notation member := (member Id).
Notation foca := (@foca Id Addr HO).
Notation rs := (@rs Id Addr HO).
Notation M := (@M Id Addr HO).
Notation effect := (effect Id).
Notation "x <- m ;; f" := (bind m (fun x => f)) (at level 61, m at next level, right associativity).
Notation "m ;;; f" := (bind m (fun _ => f)) (at level 61, right associativity).

Inductive lk := LProbe | LAnn | LAnnDown | LGossip.

Definition loop_of (t : timer Id) : option (lk * N) :=
  match t with
  | TProbeRandomMember k => Some (LProbe, k)
  | TPeriodicAnnounce k => Some (LAnn, k)
  | TPeriodicAnnounceDown k => Some (LAnnDown, k)
  | TPeriodicGossip k => Some (LGossip, k)
  | _ => None
  end.

(* notifications that mark the start of a new timer epoch *)
Definition epoch_note (n : notification Id) : bool :=
  match n with NIdle | NDefunct | NRejoin _ => true | _ => false end.

(* the loop timers submitted since the last epoch notification, and whether there was one *)
Definition acc_step (a : list (lk * N) * bool) (e : effect) : list (lk * N) * bool :=
  match e with
  | Notify n => if epoch_note n then ([], true) else a
  | Submit t _ => match loop_of t with Some x => (fst a ++ [x], snd a) | None => a end
  | Send _ _ => a
  end.
Definition acc_from (a : list (lk * N) * bool) (es : list effect) := fold_left acc_step es a.
Definition acc (es : list effect) := acc_from ([], false) es.

Definition neutral (e : effect) : Prop :=
  match e with
  | Notify n => epoch_note n = false
  | Submit t _ => loop_of t = None
  | Send _ _ => True
  end.

Lemma acc_from_app a e1 e2 : acc_from a (e1 ++ e2) = acc_from (acc_from a e1) e2.
Proof. unfold acc_from. apply fold_left_app. Qed.
Lemma acc_from_neutral es : Forall neutral es -> forall a, acc_from a es = a.
Proof.
  induction 1 as [|e es He _ IH]; intros a; [reflexivity|]. cbn [acc_from fold_left]. fold (acc_from (acc_step a e) es).
  rewrite IH. destruct e as [d b|t d|n]; cbn in *; [reflexivity| |].
  - rewrite He. destruct a; reflexivity.
  - rewrite He. reflexivity.
Qed.
Lemma acc_app_neutral es new : Forall neutral new -> acc (es ++ new) = acc es.
Proof. intros H. unfold acc. rewrite acc_from_app. apply acc_from_neutral. exact H. Qed.

(* computations that neither touch connection state / token / configuration nor submit a loop
   timer nor notify an epoch change *)
Definition still {A} (m : M A) : Prop :=
  forall s, conn (st (fst (m s))) = conn (st s) /\ token (st (fst (m s))) = token (st s)
            /\ cfg (st (fst (m s))) = cfg (st s)
            /\ exists new, out (fst (m s)) = out s ++ new /\ Forall neutral new.

Lemma still_bind {A B} (m : M A) (f : A -> M B) : still m -> (forall a, still (f a)) -> still (bind m f).
Proof.
  intros Hm Hf s. destruct (Hm s) as (E1 & E2 & E3 & n1 & O1 & N1). unfold bind.
  destruct (m s) as [s1 [a|e|p]]; cbn [fst] in *; try (repeat split; auto; exists n1; auto).
  destruct (Hf a s1) as (F1 & F2 & F3 & n2 & O2 & N2).
  repeat split; try congruence. exists (n1 ++ n2). split.
  - rewrite O2, O1, app_assoc. reflexivity.
  - apply Forall_app. auto.
Qed.
Lemma still_same {A} (r : res A) : still (fun s => (s, r)).
Proof. intros s. cbn. repeat split; auto. exists []. split; [symmetry; apply app_nil_r|constructor]. Qed.
Lemma still_ret {A} (a : A) : still (@ret Id Addr HO A a). Proof. apply still_same. Qed.
Lemma still_fail {A} e : still (@fail Id Addr HO A e). Proof. apply still_same. Qed.
Lemma still_panic {A} p : still (@panic Id Addr HO A p). Proof. apply still_same. Qed.
Lemma still_get : still (@get Id Addr HO).
Proof. intros s. cbn. repeat split; auto. exists []. split; [symmetry; apply app_nil_r|constructor]. Qed.
Lemma still_num_sends : still (@num_sends Id Addr HO).
Proof. intros s. cbn. repeat split; auto. exists []. split; [symmetry; apply app_nil_r|constructor]. Qed.
Lemma still_modify g :
  (forall f, conn (g f) = conn f /\ token (g f) = token f /\ cfg (g f) = cfg f) -> still (@modify Id Addr HO g).
Proof.
  intros H s. cbn. destruct (H (st s)) as (A1 & A2 & A3). repeat split; auto.
  exists []. split; [symmetry; apply app_nil_r|constructor].
Qed.
Lemma still_emit e : neutral e -> still (@emit Id Addr HO e).
Proof. intros H s. cbn. repeat split; auto. exists [e]. split; [reflexivity|constructor; [exact H|constructor]]. Qed.
Lemma still_ask r : still (ask rnd r).
Proof. intros s. cbn. repeat split; auto. exists []. split; [symmetry; apply app_nil_r|constructor]. Qed.
Lemma still_with_ctr {A} (g : N -> A * N) : still (with_ctr g).
Proof.
  intros s. unfold with_ctr. destruct (g (ctr s)) as [a k]. cbn. repeat split; auto.
  exists []. split; [symmetry; apply app_nil_r|constructor].
Qed.
Lemma still_when b (m : M unit) : still m -> still (when b m).
Proof. destruct b; cbn; auto. intros _. apply still_ret. Qed.
Lemma still_forM {A} (l : list A) (f : A -> M unit) : (forall x, still (f x)) -> still (forM_ l f).
Proof. intros H. induction l as [|x t IH]; cbn [forM_]; [apply still_ret|]. apply still_bind; auto. Qed.
Lemma still_get_bind {B} (body : foca -> M B) : (forall f, still (body f)) -> still (f <- get ;; body f).
Proof. intros H. apply still_bind; [apply still_get|exact H]. Qed.
Lemma still_attempt (m : M unit) : still m -> still (attempt m).
Proof. intros H s. specialize (H s). unfold attempt. destruct (m s) as [s1 [a|e|p]]; cbn [fst] in *; auto. Qed.

Ltac smod := apply still_modify; intros ?; repeat split; reflexivity.

Lemma still_add_update m : still (@add_update Id Addr IO CO HO m).
Proof. unfold add_update. smod. Qed.
Lemma still_add_custom key data : still (@add_custom Id Addr HO key data).
Proof. unfold add_custom. smod. Qed.
Lemma still_choose_active wanted picker : still (choose_active rnd wanted picker).
Proof. unfold choose_active. apply still_get_bind. intros f. apply still_with_ctr. Qed.
Lemma still_feed_loop l : forall room count acc0, still (@feed_loop Id Addr CO HO l room count acc0).
Proof.
  induction l as [|m t IH]; intros room count acc0; cbn [feed_loop]; [apply still_ret|].
  destruct (room <? len (enc_mem m)); [apply still_ret|].
  destruct (count =? u16_max); [apply still_panic|apply IH].
Qed.

Lemma still_send_message dst msg : still (send_message rnd dst msg).
Proof.
  unfold send_message. apply still_get_bind. intros f.
  destruct (negb (send_cap f =? max_packet_size (cfg f))); [apply still_panic|].
  destruct (max_packet_size (cfg f) <? len (enc_hdr _)); [apply still_fail|].
  apply still_bind; [apply still_num_sends|]. intros idx.
  apply still_bind.
  - unfold send_body. destruct (needs_piggyback msg && _); [|apply still_ret].
    destruct (piggyback_only_active msg).
    + apply still_bind.
      { unfold estimate_feed_capacity. destruct (_ =? 0); [apply still_panic|apply still_ret]. }
      intros cap. apply still_bind; [apply still_choose_active|].
      intros chosen. apply still_bind; [apply still_feed_loop|]. intros [[c b] l]. apply still_ret.
    + apply still_get_bind. intros f0.
      destruct (updates f0); [apply still_ret|].
      apply still_bind; [apply still_ask|]. intros hint.
      destruct (fill_gen Addr 0 hint _ _ _) as [[[w n] kept] p].
      destruct p; [apply still_panic|].
      apply still_bind; [smod|intros; apply still_ret].
  - intros [body room3]. apply still_bind; [|intros; apply still_emit; exact I].
    unfold send_customs. apply still_get_bind. intros f1.
    destruct (_ && _ && _); [|apply still_ret].
    destruct (customs f1); [apply still_ret|].
    apply still_bind; [apply still_ask|]. intros hint.
    destruct (fill_gen hkey 2 hint _ _ _) as [[[w n] kept] p].
    destruct p; [apply still_panic|].
    apply still_bind; [smod|intros; apply still_ret].
Qed.

Lemma still_choose_and_send n msg : still (choose_and_send rnd n msg).
Proof.
  unfold choose_and_send. apply still_bind; [apply still_choose_active|]. intros chosen.
  apply still_forM. intros m. apply still_send_message.
Qed.
Lemma still_gossip : still (gossip rnd).
Proof. unfold gossip. apply still_get_bind. intros f. apply still_choose_and_send. Qed.
Lemma still_announce_to_down n : still (announce_to_down rnd n).
Proof.
  unfold announce_to_down. apply still_get_bind. intros f.
  apply still_bind; [apply still_with_ctr|]. intros chosen. apply still_forM. intros m. apply still_send_message.
Qed.
Lemma still_broadcast_loop l : still (broadcast_loop rnd l).
Proof.
  induction l as [|m t IH]; cbn [broadcast_loop]; [apply still_ret|].
  apply still_bind; [apply still_send_message|]. intros _.
  apply still_get_bind. intros f. destruct (customs f); [apply still_ret|apply IH].
Qed.
Lemma still_broadcast : still (broadcast rnd).
Proof.
  unfold broadcast. apply still_get_bind. intros f.
  destruct (customs f); [apply still_ret|].
  apply still_bind; [apply still_choose_active|]. intros chosen. apply still_broadcast_loop.
Qed.
Lemma still_add_broadcast data : still (@add_broadcast Id Addr HO data).
Proof.
  unfold add_broadcast. apply still_get_bind. intros f.
  destruct data as [|b0 bs]; [apply still_fail|].
  destruct (_ || _); [apply still_fail|].
  destruct (h_recv (hst f) (b0 :: bs) None) as [h' r].
  apply still_bind; [smod|]. intros _.
  destruct r as [[key|]|]; [|apply still_ret|apply still_fail].
  apply still_bind; [apply still_add_custom|intros; apply still_ret].
Qed.
Lemma still_custom_loop sender fuel : forall data, still (@custom_loop Id Addr HO fuel data sender).
Proof.
  induction fuel as [|fuel IH]; intros data; cbn [custom_loop].
  - destruct data; [apply still_ret|apply still_fail].
  - destruct (2 <? len data); [|destruct data; [apply still_ret|apply still_fail]].
    destruct (get_u16 data) as [[pkt_len rest]|]; [|apply still_fail].
    destruct (_ || _); [apply still_fail|].
    apply still_get_bind. intros f.
    destruct (h_recv (hst f) _ sender) as [h' r].
    apply still_bind; [smod|]. intros _.
    apply still_bind; [|intros; apply IH].
    destruct r as [[key|]|]; [apply still_add_custom|apply still_ret|apply still_fail].
Qed.
Lemma still_handle_custom_broadcasts data sender : still (@handle_custom_broadcasts Id Addr HO data sender).
Proof.
  unfold handle_custom_broadcasts. destruct data; [apply still_ret|].
  destruct (_ <? 3); [apply still_fail|apply still_custom_loop].
Qed.
Lemma still_indirect_loop probed l : still (indirect_loop rnd probed l).
Proof.
  unfold indirect_loop. apply still_forM. intros m. apply still_get_bind. intros f.
  destruct (probe_expect_indirect_ack (prb f) (m_id m)); [|apply still_panic].
  apply still_bind; [smod|]. intros _. apply still_send_message.
Qed.

Lemma still_hsum sm u b : still (@handle_apply_summary Id Addr IO CO HO sm u b).
Proof.
  unfold handle_apply_summary.
  apply still_bind.
  { apply still_when. apply still_bind; [apply still_when, still_add_update|]. intros _.
    apply still_get_bind. intros f. apply still_when, still_emit. reflexivity. }
  intros _. apply still_bind.
  { destruct (s_conflict sm); try apply still_ret. apply still_emit. reflexivity. }
  intros _. apply still_when, still_emit. destruct (is_active_now sm); reflexivity.
Qed.

Lemma still_apply_update u b : still (apply_update rnd u b).
Proof.
  unfold apply_update. apply still_get_bind. intros f.
  destruct (id_eqb (identity f) (m_id u)); [apply still_panic|].
  apply still_bind; [apply still_with_ctr|]. intros [ms sm].
  apply still_bind; [smod|]. intros _.
  apply still_bind; [apply still_hsum|]. intros _. apply still_ret.
Qed.

(* ---- the accounting invariant of one call, relative to the state f0 it started from ---- *)
Variable f0 : foca.

Definition enabled (c : config) : list lk :=
  LProbe :: (if is_some (periodic_announce c) then [LAnn] else [])
         ++ (if is_some (periodic_announce_down c) then [LAnnDown] else [])
         ++ (if is_some (periodic_gossip c) then [LGossip] else []).
Definition full (c : config) (k : N) : list (lk * N) := map (fun K => (K, k)) (enabled c).

(* nothing happened to the loops so far *)
Definition M0 (s : rs) : Prop :=
  acc (out s) = ([], false) /\ token (st s) = token f0 /\ conn (st s) = conn f0.
(* not connected, nothing armed in the current epoch *)
Definition M1 (s : rs) : Prop := conn (st s) <> Connected /\ fst (acc (out s)) = [].
(* connected in the current epoch: every enabled loop armed exactly once with the current token *)
Definition M2 (s : rs) : Prop :=
  conn (st s) = Connected /\ fst (acc (out s)) = full (cfg (st s)) (token (st s)).
(* the live timer of loop K was consumed and re-armed exactly once *)
Definition ML (K : lk) (s : rs) : Prop :=
  acc (out s) = ([(K, token f0)], false) /\ token (st s) = token f0
  /\ conn (st s) = Connected /\ conn f0 = Connected.
Definition J (s : rs) : Prop := M0 s \/ M1 s \/ M2 s \/ exists K, ML K s.

Definition jpost {A} (x : rs * res A) : Prop :=
  match x with
  | (_, RErr EEncode) => True
  | (_, RPanic _) => True
  | (s', _) => J s'
  end.
Definition jp {A} (m : M A) : Prop := forall s, J s -> jpost (m s).
Definition jpP {A} (m : M A) (s : rs) : Prop := J s -> jpost (m s).

Lemma jp_bind {A B} (m : M A) (f : A -> M B) : jp m -> (forall a, jp (f a)) -> jp (bind m f).
Proof.
  intros Hm Hf s Js. specialize (Hm s Js). unfold bind.
  destruct (m s) as [s1 [a|e|p]]; cbn in *; auto. apply Hf. exact Hm.
Qed.
Lemma jpP_bind {A B} (m : M A) (f : A -> M B) s : jpP m s -> (forall a, jp (f a)) -> jpP (bind m f) s.
Proof.
  intros Hm Hf Js. specialize (Hm Js). unfold bind.
  destruct (m s) as [s1 [a|e|p]]; cbn in *; auto. apply Hf. exact Hm.
Qed.
Lemma jp_at {A} (m : M A) s : jp m -> jpP m s.
Proof. intros H. exact (H s). Qed.
Lemma jpP_get {B} (body : foca -> M B) s : jpP (body (st s)) s -> jpP (f <- get ;; body f) s.
Proof. unfold jpP, bind, get. cbn. auto. Qed.
Lemma jp_get_bind {B} (body : foca -> M B) : (forall f, jp (body f)) -> jp (f <- get ;; body f).
Proof. intros H s. exact (jpP_get body s (H (st s) s)). Qed.

Lemma J_still (s s' : rs) new :
  conn (st s') = conn (st s) -> token (st s') = token (st s) -> cfg (st s') = cfg (st s) ->
  out s' = out s ++ new -> Forall neutral new -> J s -> J s'.
Proof.
  intros C T G O Nn Js. assert (EA : acc (out s') = acc (out s)) by (rewrite O; apply acc_app_neutral; exact Nn).
  destruct Js as [(A & B & D)|[(A & B)|[(A & B)|(K & A & B & D & E)]]].
  - left. unfold M0. rewrite EA, T, C. auto.
  - right. left. unfold M1. rewrite EA, C. auto.
  - right. right. left. unfold M2. rewrite EA, C, G, T. auto.
  - right. right. right. exists K. unfold ML. rewrite EA, T, C. auto.
Qed.

Lemma still_jp {A} (m : M A) : still m -> jp m.
Proof.
  intros H s Js. destruct (H s) as (C & T & G & new & O & Nn).
  assert (J (fst (m s))) by (eapply J_still; eauto).
  destruct (m s) as [s' [a|e|p]]; cbn in *; auto. destruct e; auto.
Qed.

Lemma jp_ret {A} (a : A) : jp (@ret Id Addr HO A a). Proof. apply still_jp, still_ret. Qed.
Lemma jp_when b (m : M unit) : jp m -> jp (when b m).
Proof. destruct b; cbn; auto. intros _. apply jp_ret. Qed.
Lemma jp_forM {A} (l : list A) (f : A -> M unit) : (forall x, jp (f x)) -> jp (forM_ l f).
Proof. intros H. induction l as [|x t IH]; cbn [forM_]; [apply jp_ret|]. apply jp_bind; auto. Qed.
Lemma jp_attempt (m : M unit) : still m -> jp (attempt m).
Proof. intros H. apply still_jp, still_attempt, H. Qed.

(* ---- units ---- *)
Lemma acc_snoc es e : acc (es ++ [e]) = acc_step (acc es) e.
Proof. unfold acc. rewrite acc_from_app. reflexivity. Qed.

Lemma jp_become_undead : jp (@become_undead Id Addr HO).
Proof.
  intros s _. unfold become_undead, bind, modify, emit. cbn.
  right. left. split; [cbn; discriminate|]. cbn [out]. rewrite acc_snoc. reflexivity.
Qed.

Lemma jpP_become_disconnected s : jpP (@become_disconnected Id Addr HO) s.
Proof.
  intros _. unfold become_disconnected, bind at 1, get at 1. cbv beta iota.
  destruct (negb (num_active (mems (st s)) =? 0)); [exact I|].
  unfold bind, modify, emit. cbn.
  right. left. split; [cbn; discriminate|]. cbn [out]. rewrite acc_snoc. reflexivity.
Qed.

Lemma acc_from_periodic a p t K k :
  loop_of t = Some (K, k) ->
  acc_from a (periodic_submits p t) = (fst a ++ (if is_some p then [(K, k)] else []), snd a).
Proof.
  intros H. destruct p as [[fr n]|]; cbn.
  - rewrite H. reflexivity.
  - rewrite app_nil_r. destruct a; reflexivity.
Qed.

Lemma jpP_become_connected s : conn (st s) = Disconnected -> jpP (@become_connected Id Addr HO) s.
Proof.
  intros Cn Js.
  assert (A0 : fst (acc (out s)) = []).
  { destruct Js as [(A & _)|[(_ & B)|[(A & _)|(K & _ & _ & D & _)]]]; try congruence.
    rewrite A. reflexivity. }
  destruct (0 <? num_active (mems (st s))) eqn:Z.
  - rewrite become_connected_effects by lia. cbn [jpost].
    right. right. left. split; [reflexivity|]. cbn [out st cfg token set_conn].
    unfold acc. rewrite !acc_from_app. fold (acc (out s)).
    cbn [acc_from fold_left acc_step loop_of].
    rewrite (acc_from_periodic _ (periodic_announce (cfg (st s))) (TPeriodicAnnounce (token (st s))) LAnn (token (st s)) eq_refl).
    rewrite (acc_from_periodic _ (periodic_announce_down (cfg (st s))) (TPeriodicAnnounceDown (token (st s))) LAnnDown (token (st s)) eq_refl).
    rewrite (acc_from_periodic _ (periodic_gossip (cfg (st s))) (TPeriodicGossip (token (st s))) LGossip (token (st s)) eq_refl).
    cbn [fst snd epoch_note]. rewrite A0. unfold full, enabled. cbn [app map].
    destruct (is_some (periodic_announce (cfg (st s)))), (is_some (periodic_announce_down (cfg (st s)))),
             (is_some (periodic_gossip (cfg (st s)))); reflexivity.
  - unfold become_connected, bind at 1, get at 1. cbv beta iota.
    destruct (num_active (mems (st s)) =? 0) eqn:Z0; [exact I|lia].
Qed.

Lemma jp_adjust : jp (@adjust_connection_state Id Addr HO).
Proof.
  unfold adjust_connection_state. intros s. refine (jpP_get _ s _).
  destruct (conn (st s)) eqn:Cn.
  - destruct (0 <? _); cbn [when]; [apply jpP_become_connected; exact Cn|apply jp_at, jp_ret].
  - destruct (_ =? 0); cbn [when]; [apply jpP_become_disconnected|apply jp_at, jp_ret].
  - apply jp_at, jp_ret.
Qed.

(* auto-rejoin: the identity change (epoch change) followed by the Rejoin notification *)
Lemma jpP_rejoin_tail new_id (s : rs) :
  id_eqb (identity (st s)) new_id = false ->
  jpP (change_identity rnd new_id ;;; emit (Notify (NRejoin new_id)) ;;; ret true) s.
Proof.
  intros E _. pose proof (change_identity_oee_at rnd s new_id E) as OE.
  destruct (change_identity_state rnd s new_id E) as (u0 & c0 & Es).
  unfold bind at 1. destruct (change_identity rnd new_id s) as [s1 [[]|e|p]] eqn:EC; cbn [fst] in *.
  - unfold bind, emit, ret. cbn. right. left. split.
    + cbn [st]. rewrite Es. cbn. discriminate.
    + cbn [out]. rewrite acc_snoc. reflexivity.
  - cbn. subst e. exact I.
  - exact I.
Qed.

Lemma jp_attempt_rejoin : jp (attempt_rejoin rnd).
Proof.
  unfold attempt_rejoin. intros s. refine (jpP_get _ s _).
  destruct (renew (identity (st s))) as [new_id|]; [|apply jp_at, jp_ret].
  destruct (id_eqb (identity (st s)) new_id) eqn:E; [apply jp_at, jp_ret|].
  destruct (negb (wins new_id (identity (st s)))); [apply jp_at, jp_ret|].
  apply jpP_rejoin_tail. exact E.
Qed.

Lemma jp_handle_self_update inc st0 : jp (handle_self_update rnd inc st0).
Proof.
  unfold handle_self_update. destruct st0.
  - apply jp_ret.
  - apply jp_get_bind. intros f. destruct (_ =? u16_max).
    + apply jp_bind; [apply jp_attempt_rejoin|]. intros b. apply jp_when, jp_become_undead.
    + apply jp_bind; [apply jp_when, still_jp; smod|]. intros _.
      apply jp_get_bind. intros f1. apply jp_when, still_jp, still_gossip.
  - apply jp_bind; [apply jp_attempt_rejoin|]. intros b. apply jp_when, jp_become_undead.
Qed.

Lemma jp_apply_one b u : jp (apply_one rnd b u).
Proof.
  unfold apply_one. apply jp_get_bind. intros f.
  destruct (id_eqb (m_id u) (identity f)); [apply jp_handle_self_update|].
  destruct (addr_eqb _ _); (apply jp_bind; [apply still_jp, still_apply_update|intros; apply jp_ret]).
Qed.

Lemma jp_apply_many l b : jp (apply_many rnd l b).
Proof.
  unfold apply_many. apply jp_bind; [apply jp_forM; intros; apply jp_apply_one|]. intros _. apply jp_adjust.
Qed.

Lemma jp_react src msg : jp (react rnd src msg).
Proof.
  unfold react. apply jp_get_bind. intros f.
  destruct msg; try (apply still_jp, still_send_message); try apply jp_ret;
    try (apply still_jp; smod);
    try (destruct (id_eqb _ _); [apply still_jp, still_fail|];
         first [apply still_jp, still_send_message|apply still_jp; smod]).
  apply jp_handle_self_update.
Qed.

Lemma jp_handle_data data : jp (handle_data rnd data).
Proof.
  unfold handle_data. apply jp_get_bind. intros f.
  destruct (_ <? len data); [apply still_jp, still_fail|].
  destruct (dec_hdr data) as [[h rest]|]; [|apply still_jp, still_fail].
  destruct (_ || _); [apply still_jp, still_fail|].
  destruct (_ || _); [apply still_jp, still_fail|].
  destruct (negb (accept_payload _ _)); [apply jp_ret|].
  apply jp_bind.
  { apply still_jp. destruct (_ && _); [|apply still_ret].
    destruct (get_u16 rest) as [[n r]|]; [|apply still_fail].
    destruct (dec_members _ _); [apply still_ret|apply still_fail]. }
  intros [ul tail].
  apply jp_bind; [apply still_jp, still_apply_update|]. intros sia.
  destruct (negb sia).
  - apply jp_get_bind. intros f1.
    apply jp_bind; [apply jp_when, jp_handle_self_update|]. intros _.
    apply jp_get_bind. intros f2. apply jp_when, still_jp, still_send_message.
  - apply jp_bind; [apply jp_apply_many|]. intros _.
    apply jp_bind; [apply jp_attempt, still_handle_custom_broadcasts|]. intros cres.
    apply jp_get_bind. intros f1.
    destruct (negb (conn_eqb _ _)).
    + destruct cres; [apply still_jp, still_fail|apply jp_ret].
    + apply jp_bind; [apply jp_react|]. intros _. destruct cres; [apply still_jp, still_fail|apply jp_ret].
Qed.

(* ---- timers: the live loop timers re-arm themselves exactly once ---- *)
Lemma M0_emit_loop (s : rs) t d K :
  M0 s -> conn (st s) = Connected -> loop_of t = Some (K, token (st s)) ->
  ML K (mkRs (st s) (out s ++ [Submit t d]) (ctr s)).
Proof.
  intros (A & T & C) Cn L. unfold ML. cbn [out st]. rewrite acc_snoc, A. cbn [acc_step]. rewrite L. cbn.
  rewrite T. repeat split; auto. congruence.
Qed.

Lemma still_keeps_M0 {A} (m : M A) s : still m -> M0 s -> M0 (fst (m s)).
Proof.
  intros H (A0 & T & C). destruct (H s) as (C1 & T1 & _ & new & O & Nn). unfold M0.
  rewrite O, acc_app_neutral by exact Nn. rewrite T1, C1. auto.
Qed.
Lemma still_keeps_ML {A} (m : M A) s K : still m -> ML K s -> ML K (fst (m s)).
Proof.
  intros H (A0 & T & C & C0). destruct (H s) as (C1 & T1 & _ & new & O & Nn). unfold ML.
  rewrite O, acc_app_neutral by exact Nn. rewrite T1, C1. auto.
Qed.

Lemma jpost_of_J {A} (x : rs * res A) : J (fst x) -> jpost x.
Proof. destruct x as [s' [a|e|p]]; cbn; auto. destruct e; auto. Qed.

(* the handler of a live loop timer: a prefix that leaves the loops alone, the re-arm, a tail *)
Definition live (s : rs) : Prop := M0 s /\ conn (st s) = Connected.
Definition rpost {A} (K : lk) (x : rs * res A) : Prop :=
  match x with
  | (_, RErr EEncode) => True
  | (_, RPanic _) => True
  | (s', _) => ML K s'
  end.
Definition rearm {A} (K : lk) (m : M A) : Prop := forall s, live s -> rpost K (m s).

Lemma rearm_pre {A B} K (m : M A) (f : A -> M B) :
  still m -> oee m -> (forall a, rearm K (f a)) -> rearm K (bind m f).
Proof.
  intros Sm Om Hf s [H0 Cn]. pose proof (still_keeps_M0 _ s Sm H0) as H1. destruct (Sm s) as (C1 & _).
  specialize (Om s). unfold bind. destruct (m s) as [s1 [a|e|p]]; cbn [fst] in *.
  - apply Hf. split; [exact H1|congruence].
  - subst e. exact I.
  - exact I.
Qed.
Lemma rearm_get_bind {B} K (body : foca -> M B) : (forall f, rearm K (body f)) -> rearm K (f <- get ;; body f).
Proof. intros H s L. unfold bind, get. cbn. apply H. exact L. Qed.

Lemma rearm_emit_then K (mk : foca -> timer Id) (d : foca -> N) (fin : M unit) :
  (forall f, loop_of (mk f) = Some (K, token f)) -> still fin ->
  rearm K (f <- get ;; emit (Submit (mk f) (d f)) ;;; fin).
Proof.
  intros HL Sf s [H0 Cn]. unfold bind at 1, get at 1. cbv beta iota. unfold bind at 1, emit at 1. cbv beta iota.
  pose proof (M0_emit_loop s (mk (st s)) (d (st s)) K H0 Cn (HL (st s))) as H1.
  pose proof (still_keeps_ML _ _ K Sf H1) as H2.
  destruct (fin _) as [s2 [a|e|p]]; cbn [fst rpost] in *; auto. destruct e; auto.
Qed.

(* the probe loop *)
Lemma rearm_probe_random_member : rearm LProbe (probe_random_member rnd).
Proof.
  unfold probe_random_member. apply rearm_get_bind. intros f.
  destruct (negb (conn_eqb (conn f) Connected)); [intros s _; exact I|].
  apply rearm_pre; [apply still_when; smod|apply oee_when, oee_modify|]. intros _.
  apply rearm_get_bind. intros f1. destruct (probe_take_failed (prb f1)) as [p' failed].
  apply rearm_pre; [smod|apply oee_modify|]. intros _.
  apply rearm_pre.
  { destruct failed as [fm|]; [|apply still_ret]. apply still_get_bind. intros f2.
    destruct (apply_existing_if _ _ _) as [[ms sm]|]; [|apply still_ret].
    apply still_bind; [smod|]. intros _. apply still_bind; [apply still_hsum|]. intros _.
    apply still_get_bind. intros f3. apply still_when, still_emit. reflexivity. }
  { destruct failed as [fm|]; [|apply oee_ret]. apply oee_get_bind. intros f2.
    destruct (apply_existing_if _ _ _) as [[ms sm]|]; [|apply oee_ret].
    apply oee_bind; [apply oee_modify|]. intros _. apply oee_bind; [apply oee_hsum|]. intros _.
    apply oee_get_bind. intros f3. apply oee_when, oee_emit. }
  intros _. apply rearm_get_bind. intros f2.
  apply rearm_pre; [apply still_with_ctr|apply oee_with_ctr|]. intros [ms chosen].
  apply rearm_pre; [smod|apply oee_modify|]. intros _.
  apply rearm_pre.
  { destruct chosen as [m|]; [|apply still_ret]. apply still_get_bind. intros f3.
    destruct (probe_start (prb f3) m) as [p'0 n].
    apply still_bind; [smod|]. intros _. apply still_bind; [apply still_send_message|]. intros _.
    apply still_get_bind. intros f4. apply still_emit. reflexivity. }
  { destruct chosen as [m|]; [|apply oee_ret]. apply oee_get_bind. intros f3.
    destruct (probe_start (prb f3) m) as [p'0 n].
    apply oee_bind; [apply oee_modify|]. intros _. apply oee_bind; [apply oee_send_message|]. intros _.
    apply oee_get_bind. intros f4. apply oee_emit. }
  intros _.
  apply (rearm_emit_then LProbe (fun f3 => TProbeRandomMember (token f3)) (fun f3 => probe_period (cfg f3))).
  - intros f3. reflexivity.
  - destruct (negb _); [apply still_fail|apply still_ret].
Qed.

Lemma rearm_periodic K (mk : N -> timer Id) (freq : N) (tok : N) (send : M unit) :
  (forall k, loop_of (mk k) = Some (K, k)) -> still send ->
  forall s, live s -> rpost K ((emit (Submit (mk (token (st s))) freq) ;;; send) s).
Proof.
  intros HL Ss s [H0 Cn]. unfold bind at 1, emit at 1. cbv beta iota.
  pose proof (M0_emit_loop s (mk (token (st s))) freq K H0 Cn (HL _)) as H1.
  pose proof (still_keeps_ML _ _ K Ss H1) as H2.
  destruct (send _) as [s2 [a|e|p]]; cbn [fst rpost] in *; auto. destruct e; auto.
Qed.

Lemma rpost_jpost {A} K (x : rs * res A) : rpost K x -> jpost x.
Proof. destruct x as [s' [a|e|p]]; cbn; auto; [|destruct e; auto]; intros H; right; right; right; exists K; exact H. Qed.

(* handle_timer from the state the call started in *)
Lemma handle_timer_acct t (s : rs) : M0 s -> jpost (handle_timer rnd t s).
Proof.
  intros H0. assert (Js : J s) by (left; exact H0).
  unfold handle_timer, bind at 1, get at 1. cbv beta iota.
  destruct t as [tok|probed tok|mid inc tok|tok|tok|tok|down].
  - destruct (tok =? token (st s)); [|apply jp_ret; exact Js].
    destruct (conn (st s)) eqn:Cn; cbn [conn_eqb negb]; try (apply (still_jp _ (still_fail _)); exact Js).
    apply (rpost_jpost LProbe). apply rearm_probe_random_member. split; [exact H0|exact Cn].
  - revert Js. apply still_jp.
    destruct (negb (tok =? token (st s))); [apply still_ret|].
    apply still_bind; [smod|]. intros _.
    destruct (negb (probe_is_probing _ _)); [apply still_ret|].
    destruct (probe_succeeded _); [apply still_ret|].
    destruct (negb (is_active_id _ _)); [apply still_ret|].
    apply still_bind; [apply still_choose_active|]. intros chosen. apply still_indirect_loop.
  - revert Js. destruct (negb (token (st s) =? tok)); [apply jp_ret|].
    destruct (apply_existing_if _ _ _) as [[ms sm]|]; [|apply jp_ret].
    apply jp_bind; [apply still_jp; smod|]. intros _.
    apply jp_bind; [apply still_jp, still_hsum|]. intros _.
    apply jp_bind; [apply jp_adjust|]. intros _. apply jp_when, still_jp, still_send_message.
  - unfold periodic_guard. destruct (tok =? token (st s)) eqn:T; cbn [andb]; [|apply jp_ret; exact Js].
    destruct (conn (st s)) eqn:Cn; cbn [conn_eqb]; try (apply jp_ret; exact Js).
    destruct (periodic_announce (cfg (st s))) as [[freq n]|]; [|apply jp_ret; exact Js].
    apply (rpost_jpost LAnn).
    apply (rearm_periodic LAnn (fun k => TPeriodicAnnounce k) freq tok); [reflexivity|apply still_choose_and_send|].
    split; [exact H0|exact Cn].
  - unfold periodic_guard. destruct (tok =? token (st s)) eqn:T; cbn [andb]; [|apply jp_ret; exact Js].
    destruct (conn (st s)) eqn:Cn; cbn [conn_eqb]; try (apply jp_ret; exact Js).
    destruct (periodic_announce_down (cfg (st s))) as [[freq n]|]; [|apply jp_ret; exact Js].
    apply (rpost_jpost LAnnDown).
    apply (rearm_periodic LAnnDown (fun k => TPeriodicAnnounceDown k) freq tok); [reflexivity|apply still_announce_to_down|].
    split; [exact H0|exact Cn].
  - unfold periodic_guard. destruct (tok =? token (st s)) eqn:T; cbn [andb]; [|apply jp_ret; exact Js].
    destruct (conn (st s)) eqn:Cn; cbn [conn_eqb]; try (apply jp_ret; exact Js).
    destruct (periodic_gossip (cfg (st s))) as [[freq n]|]; [|apply jp_ret; exact Js].
    apply (rpost_jpost LGossip).
    apply (rearm_periodic LGossip (fun k => TPeriodicGossip k) freq tok); [reflexivity| |split; [exact H0|exact Cn]].
    destruct (updates (st s)), (customs (st s)); try apply still_ret; apply still_choose_and_send.
  - revert Js. apply still_jp. smod.
Qed.

Lemma M0_init : M0 (mkRs f0 [] 0).
Proof. repeat split. Qed.

Lemma run_unit_acct (m : M unit) :
  jpost (m (mkRs f0 [] 0)) ->
  let '(f', es, r, k) := run_unit m f0 in
  match r with Failed EEncode => True | Panicked _ => True | _ => J (mkRs f' es k) end.
Proof.
  unfold run_unit. destruct (m (mkRs f0 [] 0)) as [[f' es k] [a|e|p]]; cbn; auto.
Qed.

Lemma change_identity_acct new_id : jpost (change_identity rnd new_id (mkRs f0 [] 0)).
Proof.
  unfold change_identity, bind at 1, get at 1. cbv beta iota. cbn [st].
  destruct (id_eqb (identity f0) new_id); [cbn; left; apply M0_init|].
  unfold bind at 1, modify at 1. cbv beta iota. unfold bind at 1, reset at 1, modify at 1. cbv beta iota. cbn [st out ctr].
  set (s2 := mkRs _ [] 0).
  assert (S : still (when (negb (conn_eqb (conn f0) Undead)) (add_update (mkMember (identity f0) 0 Down)) ;;; gossip rnd)).
  { apply still_bind; [apply still_when, still_add_update|]. intros _. apply still_gossip. }
  destruct (S s2) as (C & T & _ & new & O & Nn).
  apply jpost_of_J. right. left. split.
  - rewrite C. subst s2. cbn. discriminate.
  - rewrite O. rewrite acc_app_neutral by exact Nn. reflexivity.
Qed.

(* ONE CALL from f0: unless it panics (C06) or aborts with an Encode error, the loop timers it
   submitted since the last epoch notification are described by exactly one of the four modes *)
Theorem step_acct (i : @input Id) :
  let '(f', es, r, k) := step rnd f0 i in
  match r with Failed EEncode => True | Panicked _ => True | _ => J (mkRs f' es k) end.
Proof.
  assert (J0 : J (mkRs f0 [] 0)) by (left; apply M0_init).
  destruct i; cbn [step].
  - apply run_unit_acct. apply jp_handle_data. exact J0.
  - apply run_unit_acct. apply handle_timer_acct. apply M0_init.
  - apply run_unit_acct. apply jp_apply_many. exact J0.
  - apply run_unit_acct. apply (still_jp _ (still_send_message dst Announce)). exact J0.
  - apply run_unit_acct. apply (still_jp _ still_gossip). exact J0.
  - apply run_unit_acct. apply (still_jp _ still_broadcast). exact J0.
  - apply run_unit_acct. revert J0. unfold leave_cluster. apply jp_get_bind. intros f.
    apply jp_bind; [apply still_jp, still_add_update|]. intros _.
    apply jp_bind; [apply still_jp, still_gossip|]. intros _. apply jp_become_undead.
  - apply run_unit_acct. apply change_identity_acct.
  - apply run_unit_acct. unfold reuse_down_identity, bind, get. cbn [st].
    destruct (negb (conn_eqb (conn f0) Undead)); [cbn; exact J0|].
    unfold reset, modify. cbn. right. left. split; [cbn; discriminate|reflexivity].
  - apply run_unit_acct. unfold set_config, bind at 1, get at 1. cbv beta iota. cbn [st].
    destruct (_ || _ || _ || _ || _); [cbn; exact J0|].
    unfold bind, when, modify, ret. destruct (negb _); cbn; left; repeat split.
  - unfold run_bool. pose proof (still_jp _ (still_add_broadcast b) _ J0) as H.
    destruct (add_broadcast b (mkRs f0 [] 0)) as [[f' es k] [a|e|p]]; cbn in *; auto.
Qed.

End Acct.
