(* L_TxHist.v — C15: the conservation of L_TxExact over histories of BOTH backlog operations:
   fills interleaved with acceptances (add_or_replace) for other keys.  An entry is written
   exactly e_tx times before it leaves unless an acceptance for its own key supersedes it. *)
From Foca Require Import Laws L_Lists MembersM ProbeM BcastM FocaM L_Bcast L_Fill L_Dissem L_TxExact L_BacklogOps.
From Coq Require Import Relations.

Section Keys.
Variable K : Type.
Notation entry := (@entry K).
Notation backlog := (backlog K).
Variable keqb : K -> K -> bool.
Hypothesis keqb_eq : forall a b, keqb a b = true <-> a = b.

Inductive bop := BAcc (k : K) (d : bytes) (tx : N) | BFill (s : fill_step).

Definition fill_decs (l : backlog) (s : fill_step) : list (entry * bool) :=
  let '(extra, hint, room, rem) := s in fill_dec K extra (pop_order K hint l) room rem.

Fixpoint bops_end (l : backlog) (ops : list bop) : backlog :=
  match ops with
  | [] => l
  | BAcc k d tx :: t => bops_end (add_or_replace K keqb l k d tx) t
  | BFill s :: t => bops_end (flat_map (kp K) (fill_decs l s)) t
  end.

Fixpoint bops_hist (l : backlog) (ops : list bop) : list (list (entry * bool)) :=
  match ops with
  | [] => []
  | BAcc k d tx :: t => bops_hist (add_or_replace K keqb l k d tx) t
  | BFill s :: t => fill_decs l s :: bops_hist (flat_map (kp K) (fill_decs l s)) t
  end.

Definition accepts_key (k : K) (o : bop) : Prop := match o with BAcc k' _ _ => k' = k | BFill _ => False end.

Lemma keqb_refl k : keqb k k = true.
Proof. apply keqb_eq. reflexivity. Qed.

Lemma keqb_neq a b : a <> b -> keqb a b = false.
Proof. intros H. destruct (keqb a b) eqn:E; auto. apply keqb_eq in E. contradiction. Qed.

Lemma aor_nodup (l : backlog) k d tx :
  NoDup (map e_key l) -> NoDup (map e_key (add_or_replace K keqb l k d tx)).
Proof.
  intros ND. unfold add_or_replace. rewrite map_app. cbn [map e_key].
  induction l as [|a t IH]; cbn [filter map app].
  - constructor; [intros []|constructor].
  - cbn [map] in ND. inversion ND as [|? ? Hn Nt]; subst. specialize (IH Nt).
    destruct (keqb k (e_key a)) eqn:E; cbn [negb]; [exact IH|].
    cbn [map app]. constructor; [|exact IH].
    intros Hin. apply in_app_iff in Hin. destruct Hin as [Hin|[Hin|[]]].
    + apply Hn. apply in_map_iff in Hin. destruct Hin as (x & Ex & Hx). apply filter_In in Hx.
      apply in_map_iff. exists x. tauto.
    + cbn in Hin. subst k. rewrite keqb_refl in E. discriminate.
Qed.

Lemma aor_other (l : backlog) k d tx e : k <> e_key e -> In e l -> In e (add_or_replace K keqb l k d tx).
Proof.
  intros Hk Hin. unfold add_or_replace. apply in_app_iff. left. apply filter_In. split; auto.
  rewrite (keqb_neq _ _ Hk). reflexivity.
Qed.

Lemma aor_absent (l : backlog) k d tx k0 :
  k <> k0 -> (forall x, In x l -> e_key x <> k0) ->
  forall x, In x (add_or_replace K keqb l k d tx) -> e_key x <> k0.
Proof.
  intros Hk H x Hx. unfold add_or_replace in Hx. apply in_app_iff in Hx. destruct Hx as [Hx|[<-|[]]].
  - apply filter_In in Hx. apply H. tauto.
  - cbn. exact Hk.
Qed.

Lemma fill_decs_keys (l : backlog) s d : In d (fill_decs l s) -> In (fst d) l.
Proof.
  destruct s as [[[extra hint] room] rem]. cbn [fill_decs]. intros Hd.
  eapply Permutation_in; [apply pop_order_perm|].
  rewrite <- (fill_dec_fst K extra (pop_order K hint l) room rem). apply in_map. exact Hd.
Qed.

Lemma fill_decs_nodup (l : backlog) s :
  NoDup (map e_key l) -> NoDup (map (fun d => e_key (fst d)) (fill_decs l s)).
Proof.
  destruct s as [[[extra hint] room] rem]. cbn [fill_decs]. intros ND.
  rewrite <- (map_map fst e_key). rewrite fill_dec_fst.
  eapply Permutation_NoDup; [|exact ND]. apply Permutation_map. symmetry. apply pop_order_perm.
Qed.

(* one fill, seen from one pending entry *)
Lemma fill_one (l : backlog) s e :
  NoDup (map e_key l) -> In e l -> 1 <= e_tx e ->
  let decs := fill_decs l s in
  let kept := flat_map (kp K) decs in
  NoDup (map e_key kept)
  /\ ((wrote K keqb (e_key e) decs = true /\ 2 <= e_tx e /\ In (dec_entry K e) kept)
      \/ (wrote K keqb (e_key e) decs = true /\ e_tx e = 1 /\ forall x, In x kept -> e_key x <> e_key e)
      \/ (wrote K keqb (e_key e) decs = false /\ In e kept)).
Proof.
  intros ND Hin TXe decs kept.
  pose proof (fill_decs_nodup l s ND) as NDd. fold decs in NDd.
  split.
  { apply NoDup_keys_kept. exact NDd. }
  destruct s as [[[extra hint] room] rem]. cbn [fill_decs] in *.
  set (po := pop_order K hint l) in *.
  assert (NDp : NoDup (map e_key po)).
  { eapply Permutation_NoDup; [|exact ND]. apply Permutation_map. symmetry. apply pop_order_perm. }
  assert (Hinp : In e po) by (eapply Permutation_in; [symmetry; apply pop_order_perm|exact Hin]).
  pose proof (fill_step_entry K extra po room rem e NDp Hinp) as S. cbv zeta in S.
  fold decs in S. fold kept in S.
  destruct S as [[Hw Hk]|[Hn Hk]].
  - assert (W : wrote K keqb (e_key e) decs = true).
    { unfold wrote. apply existsb_exists. exists (e, true). split; auto. cbn. apply keqb_refl. }
    destruct (1 <? e_tx e) eqn:T.
    + left. repeat split; auto. lia.
    + right. left. repeat split; auto. lia.
  - right. right. split; [|exact Hk]. apply (not_written_wrote_false K keqb keqb_eq decs e NDd Hn).
Qed.

Lemma bops_absent ops : forall l k,
  (forall o, In o ops -> ~ accepts_key k o) ->
  (forall x, In x l -> e_key x <> k) ->
  (forall x, In x (bops_end l ops) -> e_key x <> k) /\ times_written K keqb k (bops_hist l ops) = 0%nat.
Proof.
  induction ops as [|o t IH]; intros l k NA Hk; cbn [bops_end bops_hist]; [split; [exact Hk|reflexivity]|].
  assert (NAt : forall o, In o t -> ~ accepts_key k o) by (intros o' Ho'; apply NA; right; exact Ho').
  destruct o as [k' d tx|s].
  - apply IH; [exact NAt|]. apply aor_absent; [|exact Hk]. exact (NA (BAcc k' d tx) (or_introl eq_refl)).
  - rewrite times_written_cons.
    assert (Hd : forall d, In d (fill_decs l s) -> e_key (fst d) <> k).
    { intros d Hd. apply Hk. eapply fill_decs_keys. exact Hd. }
    rewrite (wrote_false_if_no_key K keqb keqb_eq k _ Hd). cbn [Nat.add].
    apply IH; [exact NAt|]. intros x Hx. destruct (keys_kept_subset K _ x Hx) as (d & Hd' & Ek). rewrite Ek. apply Hd. exact Hd'.
Qed.

(* CONSERVATION OVER HISTORIES of acceptances and fills: as long as nothing is accepted for the
   entry's own key, either the key is gone and the entry was written exactly e_tx times, or the same
   bytes are still pending and transmissions left + times written = e_tx *)
Theorem tx_conserved_hist ops : forall l e,
  NoDup (map e_key l) -> In e l -> 1 <= e_tx e ->
  (forall o, In o ops -> ~ accepts_key (e_key e) o) ->
  ((forall x, In x (bops_end l ops) -> e_key x <> e_key e)
   /\ times_written K keqb (e_key e) (bops_hist l ops) = N.to_nat (e_tx e))
  \/ (exists x, In x (bops_end l ops) /\ e_key x = e_key e /\ e_data x = e_data e /\ 1 <= e_tx x
        /\ (N.to_nat (e_tx x) + times_written K keqb (e_key e) (bops_hist l ops) = N.to_nat (e_tx e))%nat).
Proof.
  induction ops as [|o t IH]; intros l e ND Hin TXe NA; cbn [bops_end bops_hist].
  - right. exists e. repeat split; auto.
  - assert (NAt : forall o, In o t -> ~ accepts_key (e_key e) o) by (intros o' Ho'; apply NA; right; exact Ho').
    destruct o as [k d tx|s].
    + apply IH; auto; [apply aor_nodup; exact ND|].
      apply aor_other; [|exact Hin]. exact (NA (BAcc k d tx) (or_introl eq_refl)).
    + rewrite times_written_cons.
      destruct (fill_one l s e ND Hin TXe) as (NDk & [(W & T & Hk)|[(W & T & Hk)|(W & Hk)]]); rewrite W.
      * assert (TXd : 1 <= e_tx (dec_entry K e)) by (cbn [dec_entry e_tx]; lia).
        destruct (IH _ (dec_entry K e) NDk Hk TXd NAt) as [[G E]|(x & Hx & Ek & Ed & Tx & E)];
          cbn [dec_entry e_key e_tx e_data] in *.
        -- left. split; [exact G|]. rewrite E. lia.
        -- right. exists x. repeat split; auto. lia.
      * left. destruct (bops_absent t _ (e_key e) NAt Hk) as [G E]. split; [exact G|]. rewrite E. lia.
      * cbn [Nat.add]. apply IH; auto.
Qed.

(* ... and an acceptance for the key itself supersedes: afterwards exactly the new entry is pending
   under that key, with the transmissions it was accepted with *)
Lemma aor_supersedes (l : backlog) k d tx x :
  In x (add_or_replace K keqb l k d tx) -> e_key x = k -> x = mkEntry tx d k.
Proof.
  unfold add_or_replace. intros Hx Ek. apply in_app_iff in Hx. destruct Hx as [Hx|[<-|[]]]; [|reflexivity].
  apply filter_In in Hx. destruct Hx as [_ Hx]. subst k. rewrite keqb_refl in Hx. discriminate.
Qed.

End Keys.

(* every operation the implementation performs on the backlog of cluster updates (ustep: what
   C15_backlog_changes_only_so shows every call to be made of) is one such bop *)
Section Tie.
Context {Id Addr : Type} {IO : IdOps Id Addr}.

Lemma ustep_is_bop (l l' : backlog Addr) :
  ustep l l' -> exists o, l' = bops_end Addr addr_eqb l [o].
Proof.
  intros H. destruct H as [l k d tx|l hint room w n kept FG].
  - exists (BAcc Addr k d tx). reflexivity.
  - exists (BFill Addr (0, hint, room, u16_max)). cbn [bops_end fill_decs].
    unfold fill_gen in FG. destruct l as [|x t].
    + inversion FG; subst.
      pose proof (pop_order_perm Addr hint []) as P. apply Permutation_sym, Permutation_nil in P. rewrite P. reflexivity.
    + destruct (fill_loop_dec Addr 0 _ _ _ _ _ _ FG) as (_ & _ & Ek). exact Ek.
Qed.

Lemma bops_end_app a b : forall l0 : backlog Addr,
  bops_end Addr addr_eqb l0 (a ++ b) = bops_end Addr addr_eqb (bops_end Addr addr_eqb l0 a) b.
Proof.
  induction a as [|o t IH]; intros l0; cbn [app bops_end]; [reflexivity|].
  destruct o as [k d tx|s]; apply IH.
Qed.

Lemma usteps_are_bops (l l' : backlog Addr) :
  clos_refl_trans _ ustep l l' -> exists ops, l' = bops_end Addr addr_eqb l ops.
Proof.
  intros H. induction H as [x y H|x|x y z _ [a Ea] _ [b Eb]].
  - destruct (ustep_is_bop x y H) as [o Eo]. exists [o]. exact Eo.
  - exists []. reflexivity.
  - exists (a ++ b). rewrite (bops_end_app a b x). rewrite <- Ea. exact Eb.
Qed.

End Tie.
