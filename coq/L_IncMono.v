(* L_IncMono.v — C10: along every call the own incarnation never decreases while the identity is
   kept, and the identity only moves to a same-address identity that wins against it
   (auto-rejoin); change_identity (API) and reuse_down_identity are the only other ways. *)
From Foca Require Import Laws L_Lists MembersM ProbeM FocaM Hoare Inv L_Mech.

Section IncMono.
Context {Id Addr : Type} {IO : IdOps Id Addr} {CO : CodecOps Id} {HO : HandlerOps Id}.
Context {IL : IdLaws IO} {EL : @ExtraLaws Id Addr IO CO}.
Variable rnd : oracle.
Notation member := (member Id).
Notation foca := (@foca Id Addr HO).
Notation rs := (@rs Id Addr HO).
Notation M := (@M Id Addr HO).
Notation "x <- m ;; f" := (bind m (fun x => f)) (at level 61, m at next level, right associativity).
Notation "m ;;; f" := (bind m (fun _ => f)) (at level 61, right associativity).

(* identity and incarnation untouched *)
Definition same {A} (m : M A) : Prop :=
  forall s, identity (st (fst (m s))) = identity (st s) /\ incarnation (st (fst (m s))) = incarnation (st s).

Lemma same_bind {A B} (m : M A) (f : A -> M B) : same m -> (forall a, same (f a)) -> same (bind m f).
Proof.
  intros Hm Hf s. destruct (Hm s) as [E1 E2]. unfold bind. destruct (m s) as [s1 [a|e|p]]; cbn [fst] in *; auto.
  destruct (Hf a s1) as [F1 F2]. split; congruence.
Qed.
Lemma same_const {A} (r : res A) : same (fun s => (s, r)). Proof. intros s. cbn. auto. Qed.
Lemma same_ret {A} (a : A) : same (@ret Id Addr HO A a). Proof. apply same_const. Qed.
Lemma same_fail {A} e : same (@fail Id Addr HO A e). Proof. apply same_const. Qed.
Lemma same_panic {A} p : same (@panic Id Addr HO A p). Proof. apply same_const. Qed.
Lemma same_get : same (@get Id Addr HO). Proof. intros s. cbn. auto. Qed.
Lemma same_num_sends : same (@num_sends Id Addr HO). Proof. intros s. cbn. auto. Qed.
Lemma same_emit e : same (@emit Id Addr HO e). Proof. intros s. cbn. auto. Qed.
Lemma same_ask r : same (ask rnd r). Proof. intros s. cbn. auto. Qed.
Lemma same_with_ctr {A} (g : N -> A * N) : same (with_ctr g).
Proof. intros s. unfold with_ctr. destruct (g (ctr s)). cbn. auto. Qed.
Lemma same_modify g : (forall f, identity (g f) = identity f /\ incarnation (g f) = incarnation f) -> same (@modify Id Addr HO g).
Proof. intros H s. cbn. apply H. Qed.
Lemma same_when b (m : M unit) : same m -> same (when b m).
Proof. destruct b; cbn; auto. intros _. apply same_ret. Qed.
Lemma same_forM {A} (l : list A) (f : A -> M unit) : (forall x, same (f x)) -> same (forM_ l f).
Proof. intros H. induction l as [|x t IH]; cbn [forM_]; [apply same_ret|]. apply same_bind; auto. Qed.
Lemma same_attempt (m : M unit) : same m -> same (attempt m).
Proof. intros H s. specialize (H s). unfold attempt. destruct (m s) as [s1 [a|e|p]]; auto. Qed.

(* a solver for computations built from the primitives above *)
Ltac same_step :=
  first
    [ apply same_ret | apply same_fail | apply same_panic | apply same_get | apply same_num_sends
    | apply same_emit | apply same_ask | apply same_with_ctr
    | apply same_modify; intros ?; split; reflexivity
    | apply same_when | apply same_attempt
    | apply same_forM; intros ?; cbv beta
    | apply same_bind; [|intros ?]
    | progress cbv zeta
    | progress unfold send_message, send_body, send_customs, estimate_feed_capacity, choose_active, choose_and_send,
        gossip, announce_to_down, add_update, add_custom, handle_apply_summary, apply_update, submit_periodic,
        become_connected, become_disconnected, become_undead, adjust_connection_state, indirect_loop,
        handle_custom_broadcasts, probe_random_member
    | match goal with
      | |- same (match ?x with _ => _ end) => destruct x
      | |- same (if ?c then _ else _) => destruct c
      | |- same (let '(_, _) := ?x in _) => destruct x
      end ].
Ltac same_auto := repeat same_step.

Lemma same_feed_loop l : forall room count acc0, same (@feed_loop Id Addr CO HO l room count acc0).
Proof.
  induction l as [|m t IH]; intros room count acc0; cbn [feed_loop]; [apply same_ret|].
  destruct (room <? len (enc_mem m)); [apply same_ret|].
  destruct (count =? u16_max); [apply same_panic|apply IH].
Qed.
Lemma same_send_message dst msg : same (send_message rnd dst msg).
Proof.
  unfold send_message, send_body, send_customs, estimate_feed_capacity, choose_active.
  same_auto; try apply same_feed_loop.
Qed.
Lemma same_choose_and_send n msg : same (choose_and_send rnd n msg).
Proof. unfold choose_and_send, choose_active. same_auto; apply same_feed_loop. Qed.
Lemma same_gossip : same (gossip rnd).
Proof. unfold gossip. same_auto; apply same_feed_loop. Qed.
Lemma same_announce_to_down n : same (announce_to_down rnd n).
Proof. unfold announce_to_down. same_auto; apply same_feed_loop. Qed.
Lemma same_hsum sm u b : same (@handle_apply_summary Id Addr IO CO HO sm u b).
Proof. unfold handle_apply_summary, add_update. same_auto. Qed.
Lemma same_apply_update u b : same (apply_update rnd u b).
Proof. unfold apply_update. same_auto. Qed.
Lemma same_adjust : same (@adjust_connection_state Id Addr HO).
Proof. unfold adjust_connection_state, become_connected, become_disconnected, submit_periodic. same_auto. Qed.
Lemma same_become_undead : same (@become_undead Id Addr HO).
Proof. unfold become_undead. same_auto. Qed.
Lemma same_custom_loop sender fuel : forall data, same (@custom_loop Id Addr HO fuel data sender).
Proof.
  induction fuel as [|fuel IH]; intros data; cbn [custom_loop]; unfold add_custom; same_auto. apply IH.
Qed.
Lemma same_handle_custom_broadcasts data sender : same (@handle_custom_broadcasts Id Addr HO data sender).
Proof. unfold handle_custom_broadcasts. same_auto; apply same_custom_loop. Qed.
Lemma same_broadcast_loop l : same (broadcast_loop rnd l).
Proof. induction l as [|m t IH]; cbn [broadcast_loop]; same_auto; first [apply same_feed_loop|apply IH]. Qed.
Lemma same_indirect_loop probed l : same (indirect_loop rnd probed l).
Proof. unfold indirect_loop. same_auto; apply same_feed_loop. Qed.
Lemma same_probe_random_member : same (probe_random_member rnd).
Proof. unfold probe_random_member. same_auto; apply same_feed_loop. Qed.

(* ---- the relation ---- *)
Definition newer (y x : Id) : Prop := addr_of y = addr_of x /\ wins y x = true.
Definition Rinc (s s' : rs) : Prop :=
  (identity (st s') = identity (st s) /\ incarnation (st s) <= incarnation (st s'))
  \/ newer (identity (st s')) (identity (st s)).

Lemma Rinc_refl s : Rinc s s. Proof. left. split; [reflexivity|lia]. Qed.
Lemma Rinc_trans s1 s2 s3 : Rinc s1 s2 -> Rinc s2 s3 -> Rinc s1 s3.
Proof.
  intros [[A1 B1]|[A1 B1]] [[A2 B2]|[A2 B2]].
  - left. split; [congruence|lia].
  - right. rewrite <- A1. split; assumption.
  - right. rewrite A2. split; assumption.
  - right. split; [congruence|]. eapply wins_trans; eauto.
Qed.

Definition inc_ok (s : rs) : Prop := incarnation (st s) <= u16_max.
Definition im {A} (m : M A) : Prop := forall s, inc_ok s -> inc_ok (fst (m s)) /\ Rinc s (fst (m s)).
Lemma same_im {A} (m : M A) : same m -> im m.
Proof.
  intros H s K. destruct (H s) as [E1 E2]. split; [unfold inc_ok; rewrite E2; exact K|].
  left. split; [exact E1|rewrite E2; lia].
Qed.
Lemma im_bind {A B} (m : M A) (f : A -> M B) : im m -> (forall a, im (f a)) -> im (bind m f).
Proof.
  intros Hm Hf s K. destruct (Hm s K) as [K1 R1]. unfold bind. destruct (m s) as [s1 [a|e|p]]; cbn [fst] in *; auto.
  destruct (Hf a s1 K1) as [K2 R2]. split; [exact K2|eapply Rinc_trans; eauto].
Qed.
Lemma im_get_bind {B} (body : foca -> M B) : (forall f, im (body f)) -> im (f <- get ;; body f).
Proof. intros H. apply im_bind; [apply same_im, same_get|exact H]. Qed.
Lemma im_when b (m : M unit) : im m -> im (when b m).
Proof. destruct b; cbn; auto. intros _. apply same_im, same_ret. Qed.
Lemma im_forM {A} (l : list A) (f : A -> M unit) : (forall x, im (f x)) -> im (forM_ l f).
Proof. intros H. induction l as [|x t IH]; cbn [forM_]; [apply same_im, same_ret|]. apply im_bind; auto. Qed.

Definition imP {A} (m : M A) (s : rs) : Prop := inc_ok s -> inc_ok (fst (m s)) /\ Rinc s (fst (m s)).
Lemma imP_get {B} (body : foca -> M B) s : imP (body (st s)) s -> imP (f <- get ;; body f) s.
Proof. unfold imP, bind, get. cbn. auto. Qed.
Lemma im_at {A} (m : M A) s : im m -> imP m s.
Proof. intros H. exact (H s). Qed.

Lemma im_attempt_rejoin : im (attempt_rejoin rnd).
Proof.
  intros s. unfold attempt_rejoin. refine (imP_get _ s _).
  destruct (renew (identity (st s))) as [new_id|] eqn:RN; [|apply im_at, same_im, same_ret].
  destruct (id_eqb (identity (st s)) new_id) eqn:E; [apply im_at, same_im, same_ret|].
  destruct (wins new_id (identity (st s))) eqn:W; cbn [negb]; [|apply im_at, same_im, same_ret].
  intros K.
  destruct (change_identity_state rnd s new_id E) as (u0 & c0 & Es).
  assert (Hn : newer new_id (identity (st s))) by (split; [apply (renew_addr _ _ RN)|exact W]).
  unfold bind, emit, ret.
  destruct (change_identity rnd new_id s) as [s1 [[]|e|p]]; cbn [fst st] in *;
    (split; [unfold inc_ok; cbn [st]; rewrite Es; cbn; unfold u16_max; lia|right; cbn [st]; rewrite Es; cbn; exact Hn]).
Qed.

Lemma im_handle_self_update inc st0 : im (handle_self_update rnd inc st0).
Proof.
  unfold handle_self_update. destruct st0.
  - apply same_im, same_ret.
  - intros s. refine (imP_get _ s _).
    destruct (N.max inc (incarnation (st s)) =? u16_max) eqn:MX.
    + apply im_at. apply (im_bind _ _ im_attempt_rejoin). intros b. apply im_when, same_im, same_become_undead.
    + (* the ordinary refutation: the incarnation can only grow, and stays a u16 *)
      assert (T : im (f1 <- get ;; when (negb (conn_eqb (conn f1) Undead)) (gossip rnd))).
      { apply im_get_bind. intros f1. apply im_when, same_im, same_gossip. }
      intros K. unfold bind at 1 2.
      destruct (negb (inc <? incarnation (st s))) eqn:INC; cbn [when].
      * unfold modify. cbv beta iota.
        set (s1 := mkRs (set_incarnation (st s) (N.min (N.max inc (incarnation (st s)) + 1) u16_max)) (out s) (ctr s)).
        assert (K1 : inc_ok s1) by (unfold inc_ok, s1; cbn [st incarnation set_incarnation]; lia).
        destruct (T s1 K1) as [K2 R2]. split; [exact K2|].
        eapply Rinc_trans; [|exact R2]. left. unfold s1. cbn [st identity incarnation set_incarnation].
        split; [reflexivity|]. unfold inc_ok in K. lia.
      * unfold ret. cbv beta iota. apply T. exact K.
  - apply (im_bind _ _ im_attempt_rejoin). intros b. apply im_when, same_im, same_become_undead.
Qed.

Lemma im_apply_one b u : im (apply_one rnd b u).
Proof.
  unfold apply_one. apply im_get_bind. intros f.
  destruct (id_eqb (m_id u) (identity f)); [apply im_handle_self_update|].
  destruct (addr_eqb _ _); apply same_im; same_auto; apply same_apply_update.
Qed.
Lemma im_apply_many l b : im (apply_many rnd l b).
Proof.
  unfold apply_many. apply im_bind; [apply im_forM; intros; apply im_apply_one|]. intros _. apply same_im, same_adjust.
Qed.
Lemma im_react src msg : im (react rnd src msg).
Proof.
  unfold react. apply im_get_bind. intros f.
  destruct msg; try (apply same_im; solve [same_auto; apply same_feed_loop | same_auto]).
  apply im_handle_self_update.
Qed.
Lemma im_handle_data data : im (handle_data rnd data).
Proof.
  unfold handle_data. apply im_get_bind. intros f.
  destruct (_ <? len data); [apply same_im, same_fail|].
  destruct (dec_hdr data) as [[h rest]|]; [|apply same_im, same_fail].
  destruct (_ || _); [apply same_im, same_fail|].
  destruct (_ || _); [apply same_im, same_fail|].
  destruct (negb (accept_payload _ _)); [apply same_im, same_ret|].
  apply im_bind; [apply same_im; same_auto|]. intros [ul tail].
  apply im_bind; [apply same_im, same_apply_update|]. intros sia.
  destruct (negb sia).
  - apply im_get_bind. intros f1. apply im_bind; [apply im_when, im_handle_self_update|]. intros _.
    apply im_get_bind. intros f2. apply im_when, same_im, same_send_message.
  - apply im_bind; [apply im_apply_many|]. intros _.
    apply im_bind; [apply same_im, same_attempt, same_handle_custom_broadcasts|]. intros cres.
    apply im_get_bind. intros f1.
    destruct (negb (conn_eqb _ _)).
    + destruct cres; apply same_im; same_auto.
    + apply im_bind; [apply im_react|]. intros _. destruct cres; apply same_im; same_auto.
Qed.
Lemma same_handle_timer t : same (handle_timer rnd t).
Proof.
  unfold handle_timer, periodic_guard, choose_active. same_auto;
    try apply same_probe_random_member; try apply same_indirect_loop; try apply same_hsum; try apply same_adjust;
    try apply same_send_message; try apply same_choose_and_send; try apply same_announce_to_down.
Qed.

(* every call other than change_identity / reuse_down_identity *)
Theorem step_inc_mono (f : foca) (i : @input Id) :
  incarnation f <= u16_max ->
  match i with IChangeIdentity _ | IReuseDown => True | _ =>
    let f' := fst (fst (fst (step rnd f i))) in
    incarnation f' <= u16_max
    /\ ((identity f' = identity f /\ incarnation f <= incarnation f')
        \/ (addr_of (identity f') = addr_of (identity f) /\ wins (identity f') (identity f) = true))
  end.
Proof.
  intros K.
  assert (RU : forall (m : M unit), im m ->
            let f' := fst (fst (fst (run_unit m f))) in
            incarnation f' <= u16_max
            /\ ((identity f' = identity f /\ incarnation f <= incarnation f')
                \/ (addr_of (identity f') = addr_of (identity f) /\ wins (identity f') (identity f) = true))).
  { intros m H. specialize (H (mkRs f [] 0) K). unfold run_unit. destruct (m (mkRs f [] 0)) as [s' r]. exact H. }
  destruct i; cbn [step]; auto.
  - apply RU, im_handle_data.
  - apply RU, same_im, same_handle_timer.
  - apply RU, im_apply_many.
  - apply RU, same_im, same_send_message.
  - apply RU, same_im, same_gossip.
  - apply RU, same_im. unfold broadcast. same_auto; apply same_broadcast_loop.
  - apply RU, same_im. unfold leave_cluster. same_auto; apply same_feed_loop.
  - apply RU, same_im. unfold set_config. same_auto.
  - assert (S : same (@add_broadcast Id Addr HO b)) by (unfold add_broadcast; same_auto).
    specialize (S (mkRs f [] 0)). unfold run_bool. destruct (add_broadcast b (mkRs f [] 0)) as [s' r]. cbn in *.
    destruct S as [S1 S2]. split; [rewrite S2; exact K|]. left. split; [exact S1|rewrite S2; lia].
Qed.

(* the own incarnation stays a u16 along every call *)
Theorem step_inc_u16 (f : foca) (i : @input Id) :
  incarnation f <= u16_max -> incarnation (fst (fst (fst (step rnd f i)))) <= u16_max.
Proof.
  intros K. pose proof (step_inc_mono f i K) as H. destruct i; try (exact (proj1 H)); cbn [step]; unfold run_unit.
  - (* change_identity: fails, or resets to 0 *)
    destruct (id_eqb (identity f) i) eqn:E.
    + unfold change_identity, bind, get. cbn. rewrite E. cbn. exact K.
    + destruct (change_identity_state rnd (mkRs f [] 0) i E) as (u0 & c0 & Es).
      destruct (change_identity rnd i (mkRs f [] 0)) as [s' r]. cbn [fst] in *. rewrite Es. cbn. unfold u16_max. lia.
  - unfold reuse_down_identity, bind, get. cbn. destruct (negb (conn_eqb (conn f) Undead)); cbn; [exact K|unfold u16_max; lia].
Qed.

End IncMono.
