(* L_SendTx.v — C15: what one datagram costs the backlog.  The count field of a datagram that takes its
   updates from the backlog (Ping, Ack, PingReq, IndirectPing, IndirectAck, ForwardedAck, Gossip) is
   exactly the number of transmissions the backlog lost; every other datagram (Feed, Announce,
   TurnUndead, Broadcast) leaves the backlog of cluster updates alone. *)
From Foca Require Import Laws L_Lists MembersM ProbeM BcastM FocaM L_Bcast Hoare Inv L_Wire L_TxAccount.

Section SendTx.
Context {Id Addr : Type} {IO : IdOps Id Addr} {CO : CodecOps Id} {HO : HandlerOps Id} {IL : IdLaws IO} {EL : @ExtraLaws Id Addr IO CO} {CL : CodecLaws CO}.
Variable rnd : oracle.
Notation rs := (@rs Id Addr HO).
Notation M := (@M Id Addr HO).
Notation "x <- m ;; f" := (bind m (fun x => f)) (at level 61, m at next level, right associativity).
Notation "m ;;; f" := (bind m (fun _ => f)) (at level 61, right associativity).

Definition takes (msg : message Id) : bool := needs_piggyback msg && negb (piggyback_only_active msg).

(* the count field as the receiver reads it *)
Definition count_field (b : bytes) : N :=
  match dec_hdr b with
  | Some (h, rest) => if takes (h_msg h) then match get_u16 rest with Some (n, _) => n | None => 0 end else 0
  | None => 0
  end.

Lemma fill_loop_count (K : Type) extra : forall (l : @backlog K) room remaining w n kept p,
  fill_loop K extra l room remaining = (w, n, kept, p) -> n <= remaining.
Proof.
  induction l as [|e t IH]; intros room remaining w n kept p H; cbn [fill_loop] in H.
  - inversion H; subst. lia.
  - destruct ((0 <? room) && (0 <? remaining)) eqn:G.
    2:{ inversion H; subst. lia. }
    apply andb_true_iff in G. destruct G as [_ G].
    destruct (e_tx e =? 0); [inversion H; subst; lia|].
    destruct (len (e_data e) + extra <=? room).
    + destruct ((extra =? 2) && (u16_max <? len (e_data e))); [inversion H; subst; lia|].
      destruct (fill_loop K extra t (room - (len (e_data e) + extra)) (remaining - 1)) as [[[w1 n1] k1] p1] eqn:F.
      inversion H; subst. specialize (IH _ _ _ _ _ _ F). lia.
    + destruct (fill_loop K extra t room remaining) as [[[w1 n1] k1] p1] eqn:F.
      inversion H; subst. exact (IH _ _ _ _ _ _ F).
Qed.

(* updates untouched *)
Definition ku {X} (m : M X) : Prop :=
  forall s, updates (st (fst (m s))) = updates (st s) /\ out (fst (m s)) = out s /\ cfg (st (fst (m s))) = cfg (st s)
            /\ match snd (m s) with RErr _ => False | _ => True end.
Lemma ku_bind {X Y} (m : M X) (k : X -> M Y) : ku m -> (forall a, ku (k a)) -> ku (bind m k).
Proof.
  intros Hm Hk s. destruct (Hm s) as (U & O & C & E). unfold bind. destruct (m s) as [s1 [a|e|p]]; cbn [fst snd] in *; auto.
  destruct (Hk a s1) as (U2 & O2 & C2 & E2). split; [congruence|]. split; [congruence|]. split; [congruence|exact E2].
Qed.
Lemma ku_same {X} (m : M X) : (forall s, st (fst (m s)) = st s /\ out (fst (m s)) = out s /\ match snd (m s) with RErr _ => False | _ => True end) -> ku m.
Proof. intros H s. destruct (H s) as (A & B & C). rewrite A, B. auto. Qed.
Lemma ku_feed_loop l : forall room count acc0, ku (@feed_loop Id Addr CO HO l room count acc0).
Proof.
  induction l as [|m t IH]; intros room count acc0; cbn [feed_loop]; [apply ku_same; intros; cbn; auto|].
  destruct (_ <? _); [apply ku_same; intros; cbn; auto|]. destruct (_ =? _); [apply ku_same; intros; cbn; auto|apply IH].
Qed.

Theorem send_body_tx (dst : Id) (msg : message Id) (maxp room idx : N) (s : rs) :
  match send_body rnd dst msg maxp room idx s with
  | (s', ROk (body, room3)) =>
      out s' = out s /\ cfg (st s') = cfg (st s) /\ ((2 <? room) = false -> room3 = room)
      /\ (if takes msg && (2 <? room)
          then exists n w, body = u16_be n ++ w /\ n <= u16_max /\ total (updates (st s')) + n = total (updates (st s))
          else updates (st s') = updates (st s) /\ (takes msg = true -> body = []))
  | (_, RErr _) => False
  | (s', RPanic _) => out s' = out s /\ cfg (st s') = cfg (st s) /\ updates (st s') = updates (st s)
  end.
Proof.
  unfold send_body, takes. destruct (needs_piggyback msg) eqn:NP; cbn [andb].
  2:{ cbn. repeat split; auto; discriminate. }
  destruct (2 <? room) eqn:R; cbn [andb].
  2:{ rewrite andb_false_r. cbn. repeat split; auto. }
  cbv zeta. destruct (piggyback_only_active msg) eqn:PO; cbn [negb andb].
  - (* Feed *)
    match goal with |- match ?m s with _ => _ end => assert (K : ku m) end.
    { apply ku_bind.
      { unfold estimate_feed_capacity. destruct (_ =? 0); apply ku_same; intros; cbn; auto. }
      intros cap. apply ku_bind.
      { unfold choose_active. apply ku_bind; [apply ku_same; intros; cbn; auto|]. intros f.
        intros s0. unfold with_ctr. destruct (choose_active_members _ _ _ _ _). cbn. auto. }
      intros chosen. apply ku_bind; [apply ku_feed_loop|]. intros [[cnt fb] rleft]. apply ku_same. intros; cbn; auto. }
    destruct (K s) as (U & O & C & E).
    match goal with |- match ?x with _ => _ end => destruct x as [s' [[body r3]|e|p]] end; cbn [fst snd] in *; auto.
    repeat split; auto; discriminate.
  - unfold bind at 1, get at 1. cbv beta iota.
    destruct (updates (st s)) as [|e0 t0] eqn:EU.
    + cbn. split; [reflexivity|]. split; [reflexivity|]. split; [discriminate|]. exists 0, []. split; [reflexivity|]. rewrite EU. cbn. split; [unfold u16_max; lia|reflexivity].
    + unfold bind at 1, ask at 1. cbv beta iota.
      destruct (fill_gen Addr 0 (rnd (ctr s) (RTie false idx)) (e0 :: t0) (room - 2) u16_max) as [[[w n] kept] p] eqn:FG.
      destruct p as [site|]; [cbn; auto|].
      cbn. split; [reflexivity|]. split; [reflexivity|]. split; [discriminate|]. exists n, w. split; [reflexivity|]. split.
      * unfold fill_gen in FG. exact (fill_loop_count _ _ _ _ _ _ _ _ _ FG).
      * pose proof (fill_total Addr 0 _ _ _ _ _ _ _ FG) as FT. exact FT.
Qed.

(* with at most two bytes of room a length-prefixed fill writes nothing, or starts with the prefix of an
   empty item *)
Lemma fill_loop_small (K : Type) : forall (l : @backlog K) room remaining w n kept p,
  room <= 2 -> fill_loop K 2 l room remaining = (w, n, kept, p) -> w = [] \/ exists rest, w = 0 :: 0 :: rest.
Proof.
  induction l as [|e t IH]; intros room remaining w n kept p Hr H; cbn [fill_loop] in H.
  - inversion H; subst. left. reflexivity.
  - destruct ((0 <? room) && (0 <? remaining)); [|inversion H; subst; left; reflexivity].
    destruct (e_tx e =? 0); [inversion H; subst; left; reflexivity|].
    destruct (len (e_data e) + 2 <=? room) eqn:Fit.
    + destruct ((2 =? 2) && (u16_max <? len (e_data e))); [inversion H; subst; left; reflexivity|].
      destruct (fill_loop K 2 t (room - (len (e_data e) + 2)) (remaining - 1)) as [[[w1 n1] k1] p1] eqn:F.
      inversion H; subst. right.
      assert (L0 : len (e_data e) = 0) by lia.
      assert (D : e_data e = []) by (destruct (e_data e); [reflexivity|unfold len in L0; cbn in L0; lia]).
      rewrite D. cbn. eexists. reflexivity.
    + destruct (fill_loop K 2 t room remaining) as [[[w1 n1] k1] p1] eqn:F.
      inversion H; subst. exact (IH _ _ _ _ _ _ Hr F).
Qed.

(* send_customs never touches the cluster updates; with at most two bytes of room its output cannot be
   read as a non-zero count *)
Lemma send_customs_tx (dst : Id) (msg : message Id) (room3 idx : N) (s : rs) :
  match send_customs rnd dst msg room3 idx s with
  | (s', ROk cust) => updates (st s') = updates (st s) /\ out s' = out s /\ cfg (st s') = cfg (st s)
                      /\ (room3 <= 2 -> match get_u16 cust with Some (n, _) => n = 0 | None => True end)
  | (_, RErr _) => False
  | (s', RPanic _) => updates (st s') = updates (st s) /\ out s' = out s /\ cfg (st s') = cfg (st s)
  end.
Proof.
  unfold send_customs, bind at 1, get at 1. cbv beta iota.
  destruct (_ && _ && _); [|cbn; repeat split; auto].
  destruct (customs (st s)) as [|c0 cs] eqn:EC; [cbn; repeat split; auto|].
  unfold bind at 1, ask at 1. cbv beta iota.
  destruct (fill_gen hkey 2 (rnd (ctr s) (RTie true idx)) (c0 :: cs) room3 usize_max) as [[[w n] kept] p] eqn:FG.
  destruct p as [site|]; [cbn; auto|]. cbn. repeat split; auto. intros Hr.
  unfold fill_gen in FG. destruct (fill_loop_small _ _ _ _ _ _ _ _ Hr FG) as [->|[rest ->]]; cbn; auto.
Qed.

(* carried es = the count fields of the datagrams among the effects *)
Definition carried (es : list (effect Id)) : N :=
  fold_right (fun e a => match e with Send _ b => count_field b + a | _ => a end) 0 es.
Lemma carried_app a b : carried (a ++ b) = carried a + carried b.
Proof. induction a as [|x t IH]; cbn [carried fold_right app]; [reflexivity|]. fold (carried (t ++ b)) (carried t). rewrite IH. destruct x; lia. Qed.

(* ONE DATAGRAM: its count field is exactly what the backlog of cluster updates lost *)
Theorem send_message_tx (dst : Id) (msg : message Id) (s : rs) :
  let s' := fst (send_message rnd dst msg s) in
  cfg (st s') = cfg (st s)
  /\ exists new, out s' = out s ++ new
       /\ match snd (send_message rnd dst msg s) with
          | ROk _ => exists b, new = [Send dst b] /\ total (updates (st s')) + count_field b = total (updates (st s))
          | RErr _ => new = [] /\ updates (st s') = updates (st s)
          | RPanic _ => new = [] /\ total (updates (st s')) <= total (updates (st s))
          end.
Proof.
  cbv zeta. remember (send_message rnd dst msg s) as x eqn:Ex. revert Ex.
  unfold send_message. unfold bind at 1, get at 1. cbv beta iota.
  assert (NIL : forall l : list (effect Id), l = l ++ []) by (intros; symmetry; apply app_nil_r).
  destruct (negb _); [intros ->; cbn; split; [reflexivity|]; exists []; split; [apply NIL|split; [reflexivity|lia]]|]. cbv zeta.
  set (hb := enc_hdr _).
  destruct (max_packet_size (cfg (st s)) <? len hb) eqn:Fit; [intros ->; cbn; split; [reflexivity|]; exists []; split; [apply NIL|auto]|].
  unfold bind at 1, num_sends at 1. cbv beta iota.
  set (maxp := max_packet_size (cfg (st s))) in *.
  set (idx := len (filter is_send (out s))).
  pose proof (send_body_tx dst msg maxp (maxp - len hb) idx s) as TX.
  unfold bind at 1.
  destruct (send_body rnd dst msg maxp (maxp - len hb) idx s) as [s1 [[body room3]|e|p]]; [|contradiction|].
  2:{ destruct TX as (O1 & C1 & U1). intros ->. cbn [fst snd]. split; [exact C1|]. exists []. split; [rewrite O1; apply NIL|].
      split; [reflexivity|rewrite U1; lia]. }
  destruct TX as (O1 & C1 & R3 & TX).
  pose proof (send_customs_tx dst msg room3 idx s1) as SC.
  unfold bind at 1.
  destruct (send_customs rnd dst msg room3 idx s1) as [s2 [cust|e|p]]; [|contradiction|].
  2:{ destruct SC as (U2 & O2 & C2). intros ->. cbn [fst snd]. split; [congruence|]. exists []. split; [rewrite O2, O1; apply NIL|].
      split; [reflexivity|]. rewrite U2.
      destruct (takes msg && (2 <? maxp - len hb)); [destruct TX as (n & w & _ & _ & HT); lia|destruct TX as [HU _]; rewrite HU; lia]. }
  destruct SC as (U2 & O2 & C2 & Small).
  intros ->. unfold emit. cbn [fst snd st out ctr].
  split; [congruence|]. exists [Send dst (hb ++ body ++ cust)]. split; [rewrite O2, O1; reflexivity|].
  exists (hb ++ body ++ cust). split; [reflexivity|].
  rewrite U2.
  unfold count_field. subst hb. rewrite dec_enc_hdr. cbn [h_msg].
  destruct (takes msg) eqn:TK; cbn [andb] in TX.
  - destruct (2 <? maxp - len (enc_hdr (mkHeader (identity (st s)) (incarnation (st s)) dst msg))) eqn:R.
    + destruct TX as (n & w & -> & Hn & HT). rewrite <- !app_assoc. rewrite (get_u16_u16_be n _ Hn). exact HT.
    + destruct TX as [HU Hb]. rewrite (Hb eq_refl). cbn [app]. rewrite HU.
      assert (R3' : room3 <= 2) by (rewrite (R3 eq_refl); lia).
      specialize (Small R3'). destruct (get_u16 cust) as [[n r]|]; [subst n|]; apply N.add_0_r.
  - destruct TX as [HU _]. rewrite HU. lia.
Qed.

End SendTx.
