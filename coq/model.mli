
type __ = Obj.t

val negb : bool -> bool

type nat =
| O
| S of nat

val option_map : ('a1 -> 'a2) -> 'a1 option -> 'a2 option

val fst : ('a1 * 'a2) -> 'a1

val snd : ('a1 * 'a2) -> 'a2

val length : 'a1 list -> nat

val app : 'a1 list -> 'a1 list -> 'a1 list

type comparison =
| Eq
| Lt
| Gt

val add : nat -> nat -> nat

val sub : nat -> nat -> nat

val eqb : nat -> nat -> bool

val leb : nat -> nat -> bool

val ltb : nat -> nat -> bool

val eqb0 : bool -> bool -> bool

val nth_error : 'a1 list -> nat -> 'a1 option

val removelast : 'a1 list -> 'a1 list

val rev : 'a1 list -> 'a1 list

val flat_map : ('a1 -> 'a2 list) -> 'a1 list -> 'a2 list

val fold_right : ('a2 -> 'a1 -> 'a1) -> 'a1 -> 'a2 list -> 'a1

val existsb : ('a1 -> bool) -> 'a1 list -> bool

val forallb : ('a1 -> bool) -> 'a1 list -> bool

val filter : ('a1 -> bool) -> 'a1 list -> 'a1 list

val firstn : nat -> 'a1 list -> 'a1 list

val skipn : nat -> 'a1 list -> 'a1 list

val repeat : 'a1 -> nat -> 'a1 list

type positive =
| XI of positive
| XO of positive
| XH

type n =
| N0
| Npos of positive

module Pos :
 sig
  type mask =
  | IsNul
  | IsPos of positive
  | IsNeg
 end

module Coq_Pos :
 sig
  val succ : positive -> positive

  val add : positive -> positive -> positive

  val add_carry : positive -> positive -> positive

  val pred_double : positive -> positive

  val pred_N : positive -> n

  type mask = Pos.mask =
  | IsNul
  | IsPos of positive
  | IsNeg

  val succ_double_mask : mask -> mask

  val double_mask : mask -> mask

  val double_pred_mask : positive -> mask

  val sub_mask : positive -> positive -> mask

  val sub_mask_carry : positive -> positive -> mask

  val mul : positive -> positive -> positive

  val compare_cont : comparison -> positive -> positive -> comparison

  val compare : positive -> positive -> comparison

  val eqb : positive -> positive -> bool

  val testbit : positive -> n -> bool

  val iter_op : ('a1 -> 'a1 -> 'a1) -> positive -> 'a1 -> 'a1

  val to_nat : positive -> nat

  val of_succ_nat : nat -> positive
 end

module N :
 sig
  val succ_double : n -> n

  val double : n -> n

  val add : n -> n -> n

  val sub : n -> n -> n

  val mul : n -> n -> n

  val compare : n -> n -> comparison

  val eqb : n -> n -> bool

  val leb : n -> n -> bool

  val ltb : n -> n -> bool

  val min : n -> n -> n

  val max : n -> n -> n

  val pos_div_eucl : positive -> n -> n * n

  val div_eucl : n -> n -> n * n

  val div : n -> n -> n

  val modulo : n -> n -> n

  val testbit : n -> n -> bool

  val to_nat : n -> nat

  val of_nat : nat -> n
 end

type bytes = n list

val u16_max : n

val usize_max : n

val wrap8 : n -> n

val sat_add_usize : n -> n -> n

val len : 'a1 list -> n

val u16_be : n -> bytes

val get_u16 : bytes -> (n * bytes) option

val nthN : 'a1 list -> n -> 'a1 option

val set_nth : nat -> 'a1 -> 'a1 list -> 'a1 list

val swap : 'a1 list -> nat -> nat -> 'a1 list

val swap_remove : 'a1 list -> nat -> 'a1 list

val find_index : ('a1 -> bool) -> 'a1 list -> nat option

val list_eqb : ('a1 -> 'a1 -> bool) -> 'a1 list -> 'a1 list -> bool

val bytes_eqb : bytes -> bytes -> bool

val memN : n -> n list -> bool

val nodupN : n list -> bool

val is_perm : nat -> n list -> bool

val apply_perm : n list -> 'a1 list -> 'a1 list

type request =
| RShuffle of n
| RChoose of n
| RRange of n
| RTie of bool * n

type oracle = n -> request -> n list

val below : n -> n list -> n

type error =
| EDataTooBig
| ENotUndead
| ESameIdentity
| ENotConnected
| EIncompleteProbeCycle
| EDataFromOurselves
| EIndirectForOurselves
| EMalformedPacket
| EEncode
| EDecode
| ECustomBroadcast
| EInvalidConfig

type site =
| PSendBufCapacity
| PFeedCountOverflow
| PItemTooLong
| PApplySelf
| PProbeNotConnected
| PExpectIndirectIsTarget
| PDisconnectedWithMembers
| PConnectedNoMembers
| PFlopNotEmpty
| PZeroTx
| PAckCountOverflow
| PInsertIndex
| PDivZero

type 'a res =
| ROk of 'a
| RErr of error
| RPanic of site

type ('id, 'addr) idOps = { id_eqb : ('id -> 'id -> bool);
                            addr_of : ('id -> 'addr);
                            addr_eqb : ('addr -> 'addr -> bool);
                            wins : ('id -> 'id -> bool);
                            renew : ('id -> 'id option) }

type mstate =
| Alive
| Suspect
| Down

val mstate_eqb : mstate -> mstate -> bool

type 'id member = { m_id : 'id; m_inc : n; m_state : mstate }

type 'id message =
| Ping of n
| Ack of n
| PingReq of 'id * n
| IndirectPing of 'id * n
| IndirectAck of 'id * n
| ForwardedAck of 'id * n
| Announce
| Feed
| Gossip
| Broadcast
| TurnUndead

type 'id header = { h_src : 'id; h_src_inc : n; h_dst : 'id;
                    h_msg : 'id message }

type 'id timer =
| TProbeRandomMember of n
| TSendIndirectProbe of 'id * n
| TChangeSuspectToDown of 'id * n * n
| TPeriodicAnnounce of n
| TPeriodicAnnounceDown of n
| TPeriodicGossip of n
| TRemoveDown of 'id

type 'id notification =
| NMemberUp of 'id
| NMemberDown of 'id
| NRename of 'id * 'id
| NActive
| NIdle
| NDefunct
| NRejoin of 'id

type 'id effect =
| Send of 'id * bytes
| Submit of 'id timer * n
| Notify of 'id notification

type config = { probe_period : n; probe_rtt : n; num_indirect_probes : 
                n; max_transmissions : n; suspect_to_down_after : n;
                remove_down_after : n; max_packet_size : n;
                notify_down_members : bool;
                periodic_announce : (n * n) option;
                periodic_announce_down : (n * n) option;
                periodic_gossip : (n * n) option }

type 'id codecOps = { enc_hdr : ('id header -> bytes);
                      dec_hdr : (bytes -> ('id header * bytes) option);
                      enc_mem : ('id member -> bytes);
                      dec_mem : (bytes -> ('id member * bytes) option) }

type 'id handlerOps = { h_recv : (__ -> bytes -> 'id option -> __ * __ option
                                 option); h_should_add : (__ -> 'id -> bool);
                        h_inval : (__ -> __ -> bool) }

type 'id hstate = __

type 'id hkey = __

val is_active_state : mstate -> bool

val m_active : 'a1 member -> bool

val message_eqb : ('a1 -> 'a1 -> bool) -> 'a1 message -> 'a1 message -> bool

val allow_custom_broadcasts : 'a1 message -> bool

val needs_piggyback : 'a1 message -> bool

val piggyback_only_active : 'a1 message -> bool

val can_change : 'a1 member -> n -> mstate -> bool

val change_state : 'a1 member -> n -> mstate -> 'a1 member * bool

type 'id members = { inner : 'id member list; cursor : n; num_active : n }

val members_next :
  oracle -> 'a1 members -> n -> ('a1 members * 'a1 member option) * n

val choose_loop :
  oracle -> ('a1 member -> bool) -> n -> 'a1 member list -> 'a1 member list
  -> n -> n -> 'a1 member list * n

val choose_members :
  oracle -> 'a1 members -> n -> ('a1 member -> bool) -> n -> 'a1 member
  list * n

val choose_down_members :
  oracle -> 'a1 members -> n -> n -> 'a1 member list * n

val choose_active_members :
  oracle -> 'a1 members -> n -> ('a1 -> bool) -> n -> 'a1 member list * n

val remove_if_down :
  ('a1, 'a2) idOps -> 'a1 members -> 'a1 -> 'a1 members * bool

val is_active_id : ('a1, 'a2) idOps -> 'a1 members -> 'a1 -> bool

type 'id conflict =
| NoConflict
| Replaced of 'id
| Lost
| FailedCondition

type 'id summary = { is_active_now : bool; apply_successful : bool;
                     changed_active_set : bool; s_conflict : 'id conflict }

val apply_existing_if :
  ('a1, 'a2) idOps -> 'a1 members -> 'a1 member -> ('a1 member -> bool) ->
  ('a1 members * 'a1 summary) option

val members_apply :
  ('a1, 'a2) idOps -> oracle -> 'a1 members -> 'a1 member -> n -> ('a1
  members * 'a1 summary) * n

type 'id probe = { p_direct : 'id member option; p_indirect : 'id list;
                   p_number : n; p_direct_ack_ok : bool;
                   p_indirect_ack_count : n; p_reached : bool }

val probe_clear : 'a1 probe -> 'a1 probe

val probe_start : 'a1 probe -> 'a1 member -> 'a1 probe * n

val probe_mark_reached : 'a1 probe -> 'a1 probe

val probe_validate : 'a1 probe -> bool

val probe_succeeded : 'a1 probe -> bool

val probe_take_failed : 'a1 probe -> 'a1 probe * 'a1 member option

val probe_is_probing : ('a1, 'a2) idOps -> 'a1 probe -> 'a1 -> bool

val probe_receive_ack :
  ('a1, 'a2) idOps -> 'a1 probe -> 'a1 -> n -> 'a1 probe * bool

val probe_expect_indirect_ack :
  ('a1, 'a2) idOps -> 'a1 probe -> 'a1 -> 'a1 probe option

val probe_receive_indirect_ack :
  ('a1, 'a2) idOps -> 'a1 probe -> 'a1 -> n -> 'a1 probe * bool

type 'k entry = { e_tx : n; e_data : bytes; e_key : 'k }

type 'k backlog = 'k entry list

val prio_le : 'a1 entry -> 'a1 entry -> bool

val insert_desc : 'a1 entry -> 'a1 backlog -> 'a1 backlog

val sort_desc : 'a1 backlog -> 'a1 backlog

val split_items : nat -> n list -> bytes list

val take_first : bytes -> 'a1 backlog -> ('a1 entry * 'a1 backlog) option

val pull_hinted : bytes list -> 'a1 backlog -> 'a1 backlog * 'a1 backlog

val pop_order : n list -> 'a1 backlog -> 'a1 backlog

val add_or_replace :
  ('a1 -> 'a1 -> bool) -> 'a1 backlog -> 'a1 -> bytes -> n -> 'a1 backlog

val fill_loop :
  n -> 'a1 backlog -> n -> n -> ((bytes * n) * 'a1 backlog) * site option

val fill_gen :
  n -> n list -> 'a1 backlog -> n -> n -> ((bytes * n) * 'a1 backlog) * site
  option

type conn_state =
| Disconnected
| Connected
| Undead

val conn_eqb : conn_state -> conn_state -> bool

type ('id, 'addr) foca = { identity : 'id; incarnation : n; cfg : config;
                           conn : conn_state; token : n; mems : 'id members;
                           prb : 'id probe; updates : 'addr backlog;
                           customs : 'id hkey backlog; hst : 'id hstate;
                           send_cap : n }

val set_identity : 'a1 handlerOps -> ('a1, 'a2) foca -> 'a1 -> ('a1, 'a2) foca

val set_incarnation :
  'a1 handlerOps -> ('a1, 'a2) foca -> n -> ('a1, 'a2) foca

val set_cfg : 'a1 handlerOps -> ('a1, 'a2) foca -> config -> ('a1, 'a2) foca

val set_conn :
  'a1 handlerOps -> ('a1, 'a2) foca -> conn_state -> ('a1, 'a2) foca

val set_token : 'a1 handlerOps -> ('a1, 'a2) foca -> n -> ('a1, 'a2) foca

val set_mems :
  'a1 handlerOps -> ('a1, 'a2) foca -> 'a1 members -> ('a1, 'a2) foca

val set_prb :
  'a1 handlerOps -> ('a1, 'a2) foca -> 'a1 probe -> ('a1, 'a2) foca

val set_updates :
  'a1 handlerOps -> ('a1, 'a2) foca -> 'a2 backlog -> ('a1, 'a2) foca

val set_customs :
  'a1 handlerOps -> ('a1, 'a2) foca -> 'a1 hkey backlog -> ('a1, 'a2) foca

val set_hst :
  'a1 handlerOps -> ('a1, 'a2) foca -> 'a1 hstate -> ('a1, 'a2) foca

type ('id, 'addr) rs = { st : ('id, 'addr) foca; out : 'id effect list;
                         ctr : n }

type ('id, 'addr, 'a) m = ('id, 'addr) rs -> ('id, 'addr) rs * 'a res

val ret : 'a1 handlerOps -> 'a3 -> ('a1, 'a2, 'a3) m

val bind :
  'a1 handlerOps -> ('a1, 'a2, 'a3) m -> ('a3 -> ('a1, 'a2, 'a4) m) -> ('a1,
  'a2, 'a4) m

val get : 'a1 handlerOps -> ('a1, 'a2, ('a1, 'a2) foca) m

val modify :
  'a1 handlerOps -> (('a1, 'a2) foca -> ('a1, 'a2) foca) -> ('a1, 'a2, unit) m

val emit : 'a1 handlerOps -> 'a1 effect -> ('a1, 'a2, unit) m

val fail : 'a1 handlerOps -> error -> ('a1, 'a2, 'a3) m

val panic : 'a1 handlerOps -> site -> ('a1, 'a2, 'a3) m

val ask : 'a1 handlerOps -> oracle -> request -> ('a1, 'a2, n list) m

val with_ctr : 'a1 handlerOps -> (n -> 'a3 * n) -> ('a1, 'a2, 'a3) m

val attempt :
  'a1 handlerOps -> ('a1, 'a2, unit) m -> ('a1, 'a2, error option) m

val when0 : 'a1 handlerOps -> bool -> ('a1, 'a2, unit) m -> ('a1, 'a2, unit) m

val forM_ :
  'a1 handlerOps -> 'a3 list -> ('a3 -> ('a1, 'a2, unit) m) -> ('a1, 'a2,
  unit) m

val is_send : 'a1 effect -> bool

val num_sends : 'a1 handlerOps -> ('a1, 'a2, n) m

val max_tx : 'a1 handlerOps -> ('a1, 'a2) foca -> n

val add_update :
  ('a1, 'a2) idOps -> 'a1 codecOps -> 'a1 handlerOps -> 'a1 member -> ('a1,
  'a2, unit) m

val choose_active :
  'a1 handlerOps -> oracle -> n -> ('a1 -> bool) -> ('a1, 'a2, 'a1 member
  list) m

val estimate_feed_capacity : 'a1 handlerOps -> n -> n -> ('a1, 'a2, n) m

val feed_loop :
  'a1 codecOps -> 'a1 handlerOps -> 'a1 member list -> n -> n -> bytes ->
  ('a1, 'a2, n * bytes) m

val send_message :
  ('a1, 'a2) idOps -> 'a1 codecOps -> 'a1 handlerOps -> oracle -> 'a1 -> 'a1
  message -> ('a1, 'a2, unit) m

val choose_and_send :
  ('a1, 'a2) idOps -> 'a1 codecOps -> 'a1 handlerOps -> oracle -> n -> 'a1
  message -> ('a1, 'a2, unit) m

val gossip :
  ('a1, 'a2) idOps -> 'a1 codecOps -> 'a1 handlerOps -> oracle -> ('a1, 'a2,
  unit) m

val announce_to_down :
  ('a1, 'a2) idOps -> 'a1 codecOps -> 'a1 handlerOps -> oracle -> n -> ('a1,
  'a2, unit) m

val reset : 'a1 handlerOps -> ('a1, 'a2, unit) m

val become_disconnected : 'a1 handlerOps -> ('a1, 'a2, unit) m

val become_undead : 'a1 handlerOps -> ('a1, 'a2, unit) m

val submit_periodic :
  'a1 handlerOps -> (n * n) option -> 'a1 timer -> ('a1, 'a2, unit) m

val become_connected : 'a1 handlerOps -> ('a1, 'a2, unit) m

val adjust_connection_state : 'a1 handlerOps -> ('a1, 'a2, unit) m

val handle_apply_summary :
  ('a1, 'a2) idOps -> 'a1 codecOps -> 'a1 handlerOps -> 'a1 summary -> 'a1
  member -> bool -> ('a1, 'a2, unit) m

val apply_update :
  ('a1, 'a2) idOps -> 'a1 codecOps -> 'a1 handlerOps -> oracle -> 'a1 member
  -> bool -> ('a1, 'a2, bool) m

val change_identity :
  ('a1, 'a2) idOps -> 'a1 codecOps -> 'a1 handlerOps -> oracle -> 'a1 ->
  ('a1, 'a2, unit) m

val attempt_rejoin :
  ('a1, 'a2) idOps -> 'a1 codecOps -> 'a1 handlerOps -> oracle -> ('a1, 'a2,
  bool) m

val handle_self_update :
  ('a1, 'a2) idOps -> 'a1 codecOps -> 'a1 handlerOps -> oracle -> n -> mstate
  -> ('a1, 'a2, unit) m

val apply_one :
  ('a1, 'a2) idOps -> 'a1 codecOps -> 'a1 handlerOps -> oracle -> bool -> 'a1
  member -> ('a1, 'a2, unit) m

val apply_many :
  ('a1, 'a2) idOps -> 'a1 codecOps -> 'a1 handlerOps -> oracle -> 'a1 member
  list -> bool -> ('a1, 'a2, unit) m

val broadcast_loop :
  ('a1, 'a2) idOps -> 'a1 codecOps -> 'a1 handlerOps -> oracle -> 'a1 member
  list -> ('a1, 'a2, unit) m

val broadcast :
  ('a1, 'a2) idOps -> 'a1 codecOps -> 'a1 handlerOps -> oracle -> ('a1, 'a2,
  unit) m

val leave_cluster :
  ('a1, 'a2) idOps -> 'a1 codecOps -> 'a1 handlerOps -> oracle -> ('a1, 'a2,
  unit) m

val add_custom : 'a1 handlerOps -> 'a1 hkey -> bytes -> ('a1, 'a2, unit) m

val add_broadcast : 'a1 handlerOps -> bytes -> ('a1, 'a2, bool) m

val custom_loop :
  'a1 handlerOps -> nat -> bytes -> 'a1 option -> ('a1, 'a2, unit) m

val handle_custom_broadcasts :
  'a1 handlerOps -> bytes -> 'a1 option -> ('a1, 'a2, unit) m

val probe_random_member :
  ('a1, 'a2) idOps -> 'a1 codecOps -> 'a1 handlerOps -> oracle -> ('a1, 'a2,
  unit) m

val indirect_loop :
  ('a1, 'a2) idOps -> 'a1 codecOps -> 'a1 handlerOps -> oracle -> 'a1 -> 'a1
  member list -> ('a1, 'a2, unit) m

val periodic_guard : 'a1 handlerOps -> n -> ('a1, 'a2) foca -> bool

val handle_timer :
  ('a1, 'a2) idOps -> 'a1 codecOps -> 'a1 handlerOps -> oracle -> 'a1 timer
  -> ('a1, 'a2, unit) m

val is_some : 'a1 option -> bool

val set_config : 'a1 handlerOps -> config -> ('a1, 'a2, unit) m

val reuse_down_identity : 'a1 handlerOps -> ('a1, 'a2, unit) m

val dec_members :
  'a1 codecOps -> nat -> bytes -> ('a1 member list * bytes) option

val accept_payload :
  ('a1, 'a2) idOps -> 'a1 handlerOps -> ('a1, 'a2) foca -> 'a1 header -> bool

val react :
  ('a1, 'a2) idOps -> 'a1 codecOps -> 'a1 handlerOps -> oracle -> 'a1 -> 'a1
  message -> ('a1, 'a2, unit) m

val handle_data :
  ('a1, 'a2) idOps -> 'a1 codecOps -> 'a1 handlerOps -> oracle -> bytes ->
  ('a1, 'a2, unit) m

type 'id input =
| IData of bytes
| ITimer of 'id timer
| IApplyMany of 'id member list * bool
| IAnnounce of 'id
| IGossip
| IBroadcast
| ILeave
| IChangeIdentity of 'id
| IReuseDown
| ISetConfig of config
| IAddBroadcast of bytes

type result =
| Done
| DoneBool of bool
| Failed of error
| Panicked of site

val to_result : ('a1 -> result) -> 'a1 res -> result

val run_unit :
  'a1 handlerOps -> ('a1, 'a2, unit) m -> ('a1, 'a2) foca -> ((('a1, 'a2)
  foca * 'a1 effect list) * result) * n

val run_bool :
  'a1 handlerOps -> ('a1, 'a2, bool) m -> ('a1, 'a2) foca -> ((('a1, 'a2)
  foca * 'a1 effect list) * result) * n

val step :
  ('a1, 'a2) idOps -> 'a1 codecOps -> 'a1 handlerOps -> oracle -> ('a1, 'a2)
  foca -> 'a1 input -> ((('a1, 'a2) foca * 'a1 effect list) * result) * n

type cid = { ca : n; cg : n; ck : n; cpad : n }

val cid_eqb : cid -> cid -> bool

val cid_wins : cid -> cid -> bool

val cid_renew : cid -> cid option

val cid_ops : (cid, n) idOps

val enc_id : cid -> bytes

val all_238 : bytes -> bool

val dec_id : bytes -> (cid * bytes) option

val enc_state : mstate -> n

val dec_state : n -> mstate option

val c_enc_mem : cid member -> bytes

val c_dec_mem : bytes -> (cid member * bytes) option

val enc_msg : cid message -> bytes

val dec_msg : bytes -> (cid message * bytes) option

val c_enc_hdr : cid header -> bytes

val c_dec_hdr : bytes -> (cid header * bytes) option

val cid_codec : cid codecOps

type chst = { ch_mode : n; ch_mask : n; ch_seen : (n * n) list }

type ckey = (n * n) * n

val seen_lookup : n -> (n * n) list -> n option

val seen_set : n -> n -> (n * n) list -> (n * n) list

val c_recv : chst -> bytes -> cid option -> chst * ckey option option

val c_should_add : chst -> cid -> bool

val c_inval : ckey -> ckey -> bool

val cid_handler : cid handlerOps

type cfoca = (cid, n) foca

type cinput = cid input

val cstep :
  oracle -> cfoca -> cinput -> (((cid, n) foca * cid effect
  list) * result) * n

type 'a p = n list -> ('a * n list) option

val pret : 'a1 -> 'a1 p

val pbind : 'a1 p -> ('a1 -> 'a2 p) -> 'a2 p

val pN : n p

val pbool : bool p

val prep : nat -> 'a1 p -> 'a1 list p

val plist : 'a1 p -> 'a1 list p

val pbytes : bytes p

val popt : 'a1 p -> 'a1 option p

val pid : cid p

val pstate : mstate p

val pmember : cid member p

val ppair : (n * n) p

val pconfig : config p

val ptimer : cid timer p

val pconn : conn_state p

val pmembers : cid members p

val pprobe : cid probe p

val pupd : n entry p

val pcust : ckey entry p

val phst : chst p

val pfoca : cfoca p

val pinput : cinput p

val sbool : bool -> n list

val slist : ('a1 -> n list) -> 'a1 list -> n list

val sbytes : bytes -> n list

val sopt : ('a1 -> n list) -> 'a1 option -> n list

val sid : cid -> n list

val smember : cid member -> n list

val spair : (n * n) -> n list

val sconfig : config -> n list

val stimer : cid timer -> n list

val sconn : conn_state -> n list

val sfoca : cfoca -> n list

val snote : cid notification -> n list

val seffect : cid effect -> n list

val serror : error -> n

val ssite : site -> n

val sresult : result -> n list

val sout : (((cfoca * cid effect list) * result) * n) -> n list

val run_step_ser : oracle -> n list -> n list
