(* L_Footprint.v — which runtime effects each part of the model can produce (effect footprints),
   for every state and oracle.  Used for C12 (exactly one suspicion timeout per failed round). *)
From Foca Require Import Laws L_Lists MembersM ProbeM FocaM Hoare Inv.

Section Footprint.
Context {Id Addr : Type} {IO : IdOps Id Addr} {CO : CodecOps Id} {HO : HandlerOps Id}.
Variable rnd : oracle.
Notation member := (member Id).
Notation foca := (@foca Id Addr HO).
Notation rs := (@rs Id Addr HO).
Notation M := (@M Id Addr HO).
Notation effect := (effect Id).
Notation "x <- m ;; f" := (bind m (fun x => f)) (at level 61, m at next level, right associativity).
Notation "m ;;; f" := (bind m (fun _ => f)) (at level 61, right associativity).

(* everything m emits satisfies P, whatever the result *)
Definition emits {A} (P : effect -> Prop) (m : M A) : Prop :=
  forall s, exists new, out (fst (m s)) = out s ++ new /\ Forall P new.

Lemma emits_weaken {A} (P Q : effect -> Prop) (m : M A) : (forall e, P e -> Q e) -> emits P m -> emits Q m.
Proof. intros H Hm s. destruct (Hm s) as [new [Ho F]]. exists new. split; [exact Ho|]. revert F. apply Forall_impl. exact H. Qed.
Lemma emits_bind {A B} P (m : M A) (f : A -> M B) : emits P m -> (forall a, emits P (f a)) -> emits P (bind m f).
Proof.
  intros Hm Hf s. destruct (Hm s) as [n1 [Ho1 F1]]. unfold bind.
  destruct (m s) as [s1 [a|e|p]]; cbn [fst] in *; try (exists n1; split; assumption).
  destruct (Hf a s1) as [n2 [Ho2 F2]]. exists (n1 ++ n2). split.
  - rewrite Ho2, Ho1, app_assoc. reflexivity.
  - apply Forall_app. auto.
Qed.
Lemma emits_nothing_of_noemit {A} P (m : M A) : (forall s, out (fst (m s)) = out s) -> emits P m.
Proof. intros H s. exists []. split; [rewrite H, app_nil_r; reflexivity|constructor]. Qed.
Lemma emits_ret {A} P (a : A) : emits P (@ret Id Addr HO A a).
Proof. apply emits_nothing_of_noemit. reflexivity. Qed.
Lemma emits_fail {A} P e : emits P (@fail Id Addr HO A e).
Proof. apply emits_nothing_of_noemit. reflexivity. Qed.
Lemma emits_panic {A} P p : emits P (@panic Id Addr HO A p).
Proof. apply emits_nothing_of_noemit. reflexivity. Qed.
Lemma emits_get P : emits P (@get Id Addr HO).
Proof. apply emits_nothing_of_noemit. reflexivity. Qed.
Lemma emits_modify P g : emits P (@modify Id Addr HO g).
Proof. apply emits_nothing_of_noemit. reflexivity. Qed.
Lemma emits_ask P r : emits P (ask rnd r).
Proof. apply emits_nothing_of_noemit. reflexivity. Qed.
Lemma emits_num_sends P : emits P (@num_sends Id Addr HO).
Proof. apply emits_nothing_of_noemit. reflexivity. Qed.
Lemma emits_with_ctr {A} P (g : N -> A * N) : emits P (with_ctr g).
Proof. apply emits_nothing_of_noemit. intros s. unfold with_ctr. destruct (g (ctr s)). reflexivity. Qed.
Lemma emits_emit (P : effect -> Prop) e : P e -> emits P (@emit Id Addr HO e).
Proof. intros H s. exists [e]. split; [reflexivity|constructor; [exact H|constructor]]. Qed.
Lemma emits_when P b (m : M unit) : emits P m -> emits P (when b m).
Proof. destruct b; cbn; auto. intros _. apply emits_ret. Qed.
Lemma emits_forM {A} P (l : list A) (f : A -> M unit) : (forall x, emits P (f x)) -> emits P (forM_ l f).
Proof. intros H. induction l as [|x t IH]; cbn [forM_]; [apply emits_ret|]. apply emits_bind; auto. Qed.
Lemma emits_get_bind {B} P (body : foca -> M B) : (forall f, emits P (body f)) -> emits P (f <- get ;; body f).
Proof. intros H. apply emits_bind; [apply emits_get|exact H]. Qed.
Lemma emits_attempt P (m : M unit) : emits P m -> emits P (attempt m).
Proof. intros H s. destruct (H s) as (new & Ho & F). exists new. unfold attempt. destruct (m s) as [s1 [a|e|p]]; auto. Qed.

(* ---- footprints ---- *)
Definition only_send (e : effect) : Prop := match e with Send _ _ => True | _ => False end.
Definition none (e : effect) : Prop := False.

Lemma fp_add_update P m : emits P (@add_update Id Addr IO CO HO m).
Proof. apply emits_modify. Qed.
Lemma fp_add_custom P key data : emits P (@add_custom Id Addr HO key data).
Proof. apply emits_modify. Qed.
Lemma fp_choose_active P wanted picker : emits P (choose_active rnd wanted picker).
Proof. unfold choose_active. apply emits_get_bind. intros f. apply emits_with_ctr. Qed.
Lemma fp_feed_loop P l : forall room count acc0, emits P (@feed_loop Id Addr CO HO l room count acc0).
Proof.
  induction l as [|m t IH]; intros room count acc0; cbn [feed_loop]; [apply emits_ret|].
  destruct (room <? len (enc_mem m)); [apply emits_ret|].
  destruct (count =? u16_max); [apply emits_panic|apply IH].
Qed.

Lemma fp_send_message dst msg : emits only_send (send_message rnd dst msg).
Proof.
  unfold send_message. apply emits_get_bind. intros f.
  destruct (negb (send_cap f =? max_packet_size (cfg f))); [apply emits_panic|].
  destruct (max_packet_size (cfg f) <? len (enc_hdr _)); [apply emits_fail|].
  apply emits_bind; [apply emits_num_sends|]. intros idx.
  apply emits_bind.
  - unfold send_body. destruct (needs_piggyback msg && _); [|apply emits_ret].
    destruct (piggyback_only_active msg).
    + apply emits_bind.
      { unfold estimate_feed_capacity. destruct (_ =? 0); [apply emits_panic|apply emits_ret]. }
      intros cap. apply emits_bind; [apply fp_choose_active|].
      intros chosen. apply emits_bind; [apply fp_feed_loop|]. intros [[c b] l]. apply emits_ret.
    + apply emits_get_bind. intros f0.
      destruct (updates f0); [apply emits_ret|].
      apply emits_bind; [apply emits_ask|]. intros hint.
      destruct (fill_gen Addr 0 hint _ _ _) as [[[w n] kept] p].
      destruct p; [apply emits_panic|].
      apply emits_bind; [apply emits_modify|intros; apply emits_ret].
  - intros [body room3]. apply emits_bind; [|intros; apply emits_emit; exact I].
    unfold send_customs. apply emits_get_bind. intros f1.
    destruct (_ && _ && _); [|apply emits_ret].
    destruct (customs f1); [apply emits_ret|].
    apply emits_bind; [apply emits_ask|]. intros hint.
    destruct (fill_gen hkey 2 hint _ _ _) as [[[w n] kept] p].
    destruct p; [apply emits_panic|].
    apply emits_bind; [apply emits_modify|intros; apply emits_ret].
Qed.

Lemma fp_choose_and_send n msg : emits only_send (choose_and_send rnd n msg).
Proof.
  unfold choose_and_send. apply emits_bind; [apply fp_choose_active|]. intros chosen.
  apply emits_forM. intros m. apply fp_send_message.
Qed.
Lemma fp_gossip : emits only_send (gossip rnd).
Proof. unfold gossip. apply emits_get_bind. intros f. apply fp_choose_and_send. Qed.
Lemma fp_announce_to_down n : emits only_send (announce_to_down rnd n).
Proof.
  unfold announce_to_down. apply emits_get_bind. intros f.
  apply emits_bind; [apply emits_with_ctr|]. intros chosen. apply emits_forM. intros m. apply fp_send_message.
Qed.
Lemma fp_broadcast_loop l : emits only_send (broadcast_loop rnd l).
Proof.
  induction l as [|m t IH]; cbn [broadcast_loop]; [apply emits_ret|].
  apply emits_bind; [apply fp_send_message|]. intros _.
  apply emits_get_bind. intros f. destruct (customs f); [apply emits_ret|apply IH].
Qed.
Lemma fp_broadcast : emits only_send (broadcast rnd).
Proof.
  unfold broadcast. apply emits_get_bind. intros f.
  destruct (customs f); [apply emits_ret|].
  apply emits_bind; [apply fp_choose_active|]. intros chosen. apply fp_broadcast_loop.
Qed.
Lemma fp_indirect_loop probed l : emits only_send (indirect_loop rnd probed l).
Proof.
  unfold indirect_loop. apply emits_forM. intros m. apply emits_get_bind. intros f.
  destruct (probe_expect_indirect_ack (prb f) (m_id m)); [|apply emits_panic].
  apply emits_bind; [apply emits_modify|]. intros _. apply fp_send_message.
Qed.
Lemma fp_add_broadcast data : emits none (@add_broadcast Id Addr HO data).
Proof.
  unfold add_broadcast. apply emits_get_bind. intros f.
  destruct data as [|b0 bs]; [apply emits_fail|].
  destruct (_ || _); [apply emits_fail|].
  destruct (h_recv (hst f) (b0 :: bs) None) as [h' r].
  apply emits_bind; [apply emits_modify|]. intros _.
  destruct r as [[key|]|]; [|apply emits_ret|apply emits_fail].
  apply emits_bind; [apply fp_add_custom|intros; apply emits_ret].
Qed.
Lemma fp_custom_loop sender fuel : forall data, emits none (@custom_loop Id Addr HO fuel data sender).
Proof.
  induction fuel as [|fuel IH]; intros data; cbn [custom_loop].
  - destruct data; [apply emits_ret|apply emits_fail].
  - destruct (2 <? len data); [|destruct data; [apply emits_ret|apply emits_fail]].
    destruct (get_u16 data) as [[pkt_len rest]|]; [|apply emits_fail].
    destruct (_ || _); [apply emits_fail|].
    apply emits_get_bind. intros f.
    destruct (h_recv (hst f) _ sender) as [h' r].
    apply emits_bind; [apply emits_modify|]. intros _.
    apply emits_bind; [|intros; apply IH].
    destruct r as [[key|]|]; [apply fp_add_custom|apply emits_ret|apply emits_fail].
Qed.
Lemma fp_handle_custom_broadcasts data sender : emits none (@handle_custom_broadcasts Id Addr HO data sender).
Proof.
  unfold handle_custom_broadcasts. destruct data; [apply emits_ret|].
  destruct (_ <? 3); [apply emits_fail|apply fp_custom_loop].
Qed.

(* applying one update: a forget-timer and membership notifications *)
Definition member_fx (e : effect) : Prop :=
  match e with
  | Submit (TRemoveDown _) _ => True
  | Notify (NMemberUp _) | Notify (NMemberDown _) | Notify (NRename _ _) => True
  | _ => False
  end.
Lemma fp_hsum sm u b : emits member_fx (@handle_apply_summary Id Addr IO CO HO sm u b).
Proof.
  unfold handle_apply_summary.
  apply emits_bind.
  { apply emits_when. apply emits_bind; [apply emits_when, fp_add_update|]. intros _.
    apply emits_get_bind. intros f. apply emits_when, emits_emit. exact I. }
  intros _. apply emits_bind.
  { destruct (s_conflict sm); try apply emits_ret. apply emits_emit. exact I. }
  intros _. apply emits_when, emits_emit. destruct (is_active_now sm); exact I.
Qed.
Lemma fp_apply_update u b : emits member_fx (apply_update rnd u b).
Proof.
  unfold apply_update. apply emits_get_bind. intros f.
  destruct (id_eqb (identity f) (m_id u)); [apply emits_panic|].
  apply emits_bind; [apply emits_with_ctr|]. intros [ms sm].
  apply emits_bind; [apply emits_modify|]. intros _.
  apply emits_bind; [apply fp_hsum|]. intros _. apply emits_ret.
Qed.

(* connection changes: the loop timers, Active, Idle, Defunct *)
Definition loop_timer (t : timer Id) : Prop :=
  match t with
  | TProbeRandomMember _ | TPeriodicAnnounce _ | TPeriodicAnnounceDown _ | TPeriodicGossip _ => True
  | _ => False
  end.
Definition conn_fx (e : effect) : Prop :=
  match e with
  | Submit t _ => loop_timer t
  | Notify NActive | Notify NIdle | Notify NDefunct => True
  | _ => False
  end.
Lemma fp_adjust : emits conn_fx (@adjust_connection_state Id Addr HO).
Proof.
  unfold adjust_connection_state. apply emits_get_bind. intros f. destruct (conn f).
  - apply emits_when. unfold become_connected. apply emits_get_bind. intros f1.
    destruct (_ =? 0); [apply emits_panic|].
    apply emits_bind; [apply emits_modify|]. intros _. apply emits_bind; [apply emits_emit; exact I|]. intros _.
    unfold submit_periodic.
    apply emits_bind; [destruct (periodic_announce (cfg f1)) as [[? ?]|]; [apply emits_emit; exact I|apply emits_ret]|]. intros _.
    apply emits_bind; [destruct (periodic_announce_down (cfg f1)) as [[? ?]|]; [apply emits_emit; exact I|apply emits_ret]|]. intros _.
    apply emits_bind; [destruct (periodic_gossip (cfg f1)) as [[? ?]|]; [apply emits_emit; exact I|apply emits_ret]|]. intros _.
    apply emits_emit. exact I.
  - apply emits_when. unfold become_disconnected. apply emits_get_bind. intros f1.
    destruct (negb _); [apply emits_panic|]. apply emits_bind; [apply emits_modify|]. intros _. apply emits_emit. exact I.
  - apply emits_ret.
Qed.
Lemma fp_become_undead : emits conn_fx (@become_undead Id Addr HO).
Proof. unfold become_undead. apply emits_bind; [apply emits_modify|]. intros _. apply emits_emit. exact I. Qed.

(* reacting to news about oneself: datagrams, Rejoin, Defunct *)
Definition self_fx (e : effect) : Prop :=
  match e with
  | Send _ _ => True
  | Notify (NRejoin _) | Notify NDefunct => True
  | _ => False
  end.
Lemma fp_change_identity new_id : emits only_send (change_identity rnd new_id).
Proof.
  unfold change_identity. apply emits_get_bind. intros f.
  destruct (id_eqb (identity f) new_id); [apply emits_fail|].
  apply emits_bind; [apply emits_modify|]. intros _. apply emits_bind; [apply emits_modify|]. intros _.
  apply emits_bind; [apply emits_when, fp_add_update|]. intros _. apply fp_gossip.
Qed.
Lemma only_send_self e : only_send e -> self_fx e.
Proof. destruct e; cbn; auto; contradiction. Qed.
Lemma fp_attempt_rejoin : emits self_fx (attempt_rejoin rnd).
Proof.
  unfold attempt_rejoin. apply emits_get_bind. intros f.
  destruct (renew (identity f)) as [new_id|]; [|apply emits_ret].
  destruct (id_eqb (identity f) new_id); [apply emits_ret|].
  destruct (negb (wins new_id (identity f))); [apply emits_ret|].
  apply emits_bind; [apply (emits_weaken _ _ _ only_send_self), fp_change_identity|]. intros _.
  apply emits_bind; [apply emits_emit; exact I|]. intros _. apply emits_ret.
Qed.
Lemma fp_handle_self_update inc st0 : emits self_fx (handle_self_update rnd inc st0).
Proof.
  assert (U : emits self_fx (@become_undead Id Addr HO)).
  { unfold become_undead. apply emits_bind; [apply emits_modify|]. intros _. apply emits_emit. exact I. }
  unfold handle_self_update. destruct st0.
  - apply emits_ret.
  - apply emits_get_bind. intros f. destruct (_ =? u16_max).
    + apply emits_bind; [apply fp_attempt_rejoin|]. intros b. apply emits_when, U.
    + apply emits_bind; [apply emits_when, emits_modify|]. intros _.
      apply emits_get_bind. intros f1. apply emits_when, (emits_weaken _ _ _ only_send_self), fp_gossip.
  - apply emits_bind; [apply fp_attempt_rejoin|]. intros b. apply emits_when, U.
Qed.

End Footprint.
