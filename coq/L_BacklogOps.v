(* L_BacklogOps.v — C15 / C16: the two dissemination backlogs change only through
   (1) accepting an item (add_or_replace: the new item supersedes what it invalidates) and
   (2) one fill per datagram that may carry them (fill_gen: written entries lose one
       transmission and leave at zero);
   whatever the call, input and oracle. *)
From Foca Require Import Laws L_Lists MembersM ProbeM BcastM FocaM Hoare Inv.
From Coq Require Import Relations.

Section BacklogOps.
Context {Id Addr : Type} {IO : IdOps Id Addr} {CO : CodecOps Id} {HO : HandlerOps Id}.
Variable rnd : oracle.
Notation member := (member Id).
Notation foca := (@foca Id Addr HO).
Notation rs := (@rs Id Addr HO).
Notation M := (@M Id Addr HO).
Notation "x <- m ;; f" := (bind m (fun x => f)) (at level 61, m at next level, right associativity).
Notation "m ;;; f" := (bind m (fun _ => f)) (at level 61, right associativity).

(* one operation on the backlog of cluster updates *)
Inductive ustep : backlog Addr -> backlog Addr -> Prop :=
| us_accept l k d tx : ustep l (add_or_replace Addr addr_eqb l k d tx)
| us_fill l hint room w n kept :
    fill_gen Addr 0 hint l room u16_max = (w, n, kept, None) -> ustep l kept.
Definition usteps := clos_refl_trans _ ustep.

(* one operation on the backlog of custom broadcasts *)
Inductive cstep : backlog hkey -> backlog hkey -> Prop :=
| cs_accept l k d tx : cstep l (add_or_replace hkey h_inval l k d tx)
| cs_fill l hint room w n kept :
    fill_gen hkey 2 hint l room usize_max = (w, n, kept, None) -> cstep l kept.
Definition csteps := clos_refl_trans _ cstep.

Definition bl {A} (m : M A) : Prop :=
  forall s, usteps (updates (st s)) (updates (st (fst (m s)))) /\ csteps (customs (st s)) (customs (st (fst (m s)))).

Lemma bl_bind {A B} (m : M A) (f : A -> M B) : bl m -> (forall a, bl (f a)) -> bl (bind m f).
Proof.
  intros Hm Hf s. destruct (Hm s) as [U1 C1]. unfold bind. destruct (m s) as [s1 [a|e|p]]; cbn [fst] in *; auto.
  destruct (Hf a s1) as [U2 C2]. split; eapply rt_trans; eauto.
Qed.
Lemma bl_keep {A} (m : M A) :
  (forall s, updates (st (fst (m s))) = updates (st s) /\ customs (st (fst (m s))) = customs (st s)) -> bl m.
Proof. intros H s. destruct (H s) as [-> ->]. split; apply rt_refl. Qed.
Lemma bl_ret {A} (x : A) : bl (@ret Id Addr HO A x). Proof. apply bl_keep. intros s. cbn. auto. Qed.
Lemma bl_fail {A} e : bl (@fail Id Addr HO A e). Proof. apply bl_keep. intros s. cbn. auto. Qed.
Lemma bl_panic {A} p : bl (@panic Id Addr HO A p). Proof. apply bl_keep. intros s. cbn. auto. Qed.
Lemma bl_get : bl (@get Id Addr HO). Proof. apply bl_keep. intros s. cbn. auto. Qed.
Lemma bl_num_sends : bl (@num_sends Id Addr HO). Proof. apply bl_keep. intros s. cbn. auto. Qed.
Lemma bl_emit e : bl (@emit Id Addr HO e). Proof. apply bl_keep. intros s. cbn. auto. Qed.
Lemma bl_ask r : bl (ask rnd r). Proof. apply bl_keep. intros s. cbn. auto. Qed.
Lemma bl_with_ctr {A} (g : N -> A * N) : bl (with_ctr g).
Proof. apply bl_keep. intros s. unfold with_ctr. destruct (g (ctr s)). cbn. auto. Qed.
Lemma bl_modify g : (forall f, updates (g f) = updates f /\ customs (g f) = customs f) -> bl (@modify Id Addr HO g).
Proof. intros H. apply bl_keep. intros s. cbn. apply H. Qed.
Lemma bl_when b (m : M unit) : bl m -> bl (when b m).
Proof. destruct b; cbn; auto. intros _. apply bl_ret. Qed.
Lemma bl_forM {A} (l : list A) (f : A -> M unit) : (forall x, bl (f x)) -> bl (forM_ l f).
Proof. intros H. induction l as [|x t IH]; cbn [forM_]; [apply bl_ret|]. apply bl_bind; auto. Qed.
Lemma bl_attempt (m : M unit) : bl m -> bl (attempt m).
Proof. intros H s. specialize (H s). unfold attempt. destruct (m s) as [s1 [x|e|p]]; auto. Qed.

(* the two accept sites *)
Lemma bl_add_update m : bl (@add_update Id Addr IO CO HO m).
Proof.
  intros s. unfold add_update, modify. cbn. split; [|apply rt_refl]. apply rt_step. constructor.
Qed.
Lemma bl_add_custom key data : bl (@add_custom Id Addr HO key data).
Proof.
  intros s. unfold add_custom, modify. cbn. split; [apply rt_refl|]. apply rt_step. constructor.
Qed.

(* the two fill sites, inside send_message *)
Lemma bl_send_body dst msg maxp room idx : bl (send_body rnd dst msg maxp room idx).
Proof.
  unfold send_body. destruct (needs_piggyback msg && _); [|apply bl_ret].
  destruct (piggyback_only_active msg).
  - apply bl_bind.
    { unfold estimate_feed_capacity. destruct (_ =? 0); [apply bl_panic|apply bl_ret]. }
    intros cap. apply bl_bind.
    { unfold choose_active. apply bl_bind; [apply bl_get|]. intros f. apply bl_with_ctr. }
    intros chosen. apply bl_bind; [|intros [[c b] l]; apply bl_ret].
    generalize (rev chosen) (room - 2) 0 (@nil N). intros l. induction l as [|m t IH]; intros r c a; cbn [feed_loop]; [apply bl_ret|].
    destruct (r <? len (enc_mem m)); [apply bl_ret|]. destruct (c =? u16_max); [apply bl_panic|apply IH].
  - intros s.
    destruct ((f <- get ;;
               match updates f with
               | [] => ret (u16_be 0, room - 2)
               | _ :: _ =>
                   hint <- ask rnd (RTie false idx) ;;
                   (let '(w, n, kept, p) := fill_gen Addr 0 hint (updates f) (room - 2) u16_max in
                    match p with
                    | Some s0 => panic s0
                    | None => modify (fun f0 => set_updates f0 kept) ;;; ret (u16_be n ++ w, room - 2 - len w)
                    end)
               end) s) as [s' r] eqn:ES. cbn [fst]. revert ES.
    unfold bind at 1, get at 1. cbv beta iota.
    destruct (updates (st s)) as [|u0 us] eqn:EU.
    { cbn. intros ES. inversion ES; subst. rewrite EU. split; apply rt_refl. }
    cbv beta iota. unfold bind at 1, ask at 1. cbv beta iota. cbn [st].
    rewrite <- EU.
    destruct (fill_gen Addr 0 (rnd (ctr s) (RTie false idx)) (updates (st s)) (room - 2) u16_max) as [[[w n] kept] p] eqn:FG.
    destruct p as [site|].
    { cbn. intros ES. inversion ES; subst. cbn. split; apply rt_refl. }
    unfold bind, modify, ret. cbn. intros ES. inversion ES; subst. cbn. split; [|apply rt_refl].
    apply rt_step. econstructor. exact FG.
Qed.

Lemma bl_send_customs dst msg room3 idx : bl (send_customs rnd dst msg room3 idx).
Proof.
  intros s. destruct (send_customs rnd dst msg room3 idx s) as [s' r] eqn:ES. cbn [fst]. revert ES.
  unfold send_customs, bind at 1, get at 1. cbv beta iota.
  destruct ((0 <? room3) && allow_custom_broadcasts msg && h_should_add (hst (st s)) dst).
  2:{ cbn. intros ES. inversion ES; subst. split; apply rt_refl. }
  destruct (customs (st s)) as [|c0 cs] eqn:EC.
  { cbn. intros ES. inversion ES; subst. rewrite EC. split; apply rt_refl. }
  cbv beta iota. unfold bind at 1, ask at 1. cbv beta iota. cbn [st]. rewrite <- EC.
  destruct (fill_gen hkey 2 (rnd (ctr s) (RTie true idx)) (customs (st s)) room3 usize_max) as [[[w n] kept] p] eqn:FG.
  destruct p as [site|].
  { cbn. intros ES. inversion ES; subst. cbn. split; apply rt_refl. }
  unfold bind, modify, ret. cbn. intros ES. inversion ES; subst. cbn. split; [apply rt_refl|].
  apply rt_step. econstructor. exact FG.
Qed.

Lemma bl_send_message dst msg : bl (send_message rnd dst msg).
Proof.
  unfold send_message. apply bl_bind; [apply bl_get|]. intros f.
  destruct (negb (send_cap f =? max_packet_size (cfg f))); [apply bl_panic|].
  destruct (max_packet_size (cfg f) <? len (enc_hdr _)); [apply bl_fail|].
  apply bl_bind; [apply bl_num_sends|]. intros idx.
  apply bl_bind; [apply bl_send_body|]. intros [body room3].
  apply bl_bind; [apply bl_send_customs|]. intros cust. apply bl_emit.
Qed.

Ltac bl_step :=
  first
    [ apply bl_ret | apply bl_fail | apply bl_panic | apply bl_get | apply bl_num_sends
    | apply bl_emit | apply bl_ask | apply bl_with_ctr
    | apply bl_send_message | apply bl_add_update | apply bl_add_custom
    | apply bl_modify; intros ?; split; reflexivity
    | apply bl_when | apply bl_attempt
    | apply bl_forM; intros ?; cbv beta
    | apply bl_bind; [|intros ?]
    | progress cbv zeta
    | progress unfold choose_active, choose_and_send, gossip, announce_to_down, handle_apply_summary, apply_update,
        submit_periodic, become_connected, become_disconnected, become_undead, adjust_connection_state,
        indirect_loop, handle_custom_broadcasts, probe_random_member, reset, change_identity, attempt_rejoin,
        handle_self_update, apply_one, apply_many, leave_cluster, broadcast, react, set_config, reuse_down_identity,
        add_broadcast, periodic_guard
    | match goal with
      | |- bl (match ?x with _ => _ end) => destruct x
      | |- bl (if ?c then _ else _) => destruct c
      | |- bl (let '(_, _) := ?x in _) => destruct x
      end ].
Ltac bl_auto := repeat bl_step.

Lemma bl_custom_loop sender fuel : forall data, bl (@custom_loop Id Addr HO fuel data sender).
Proof. induction fuel as [|fuel IH]; intros data; cbn [custom_loop]; bl_auto. apply IH. Qed.
Lemma bl_broadcast_loop l : bl (broadcast_loop rnd l).
Proof. induction l as [|m t IH]; cbn [broadcast_loop]; bl_auto. apply IH. Qed.

Lemma bl_handle_data data : bl (handle_data rnd data).
Proof. unfold handle_data. bl_auto; apply bl_custom_loop. Qed.
Lemma bl_handle_timer t : bl (handle_timer rnd t).
Proof. unfold handle_timer. bl_auto. Qed.

Theorem step_backlogs (f : foca) (i : @input Id) :
  let f' := fst (fst (fst (step rnd f i))) in
  usteps (updates f) (updates f') /\ csteps (customs f) (customs f').
Proof.
  assert (RU : forall (m : M unit), bl m ->
            let f' := fst (fst (fst (run_unit m f))) in
            usteps (updates f) (updates f') /\ csteps (customs f) (customs f')).
  { intros m H. specialize (H (mkRs f [] 0)). unfold run_unit. destruct (m (mkRs f [] 0)) as [s' r]. exact H. }
  destruct i; cbn [step].
  - apply RU, bl_handle_data.
  - apply RU, bl_handle_timer.
  - apply RU. bl_auto.
  - apply RU, bl_send_message.
  - apply RU. bl_auto.
  - apply RU. bl_auto. apply bl_broadcast_loop.
  - apply RU. bl_auto.
  - apply RU. bl_auto.
  - apply RU. bl_auto.
  - apply RU. bl_auto.
  - assert (G : bl (@add_broadcast Id Addr HO b)) by bl_auto.
    specialize (G (mkRs f [] 0)). unfold run_bool. destruct (add_broadcast b (mkRs f [] 0)) as [s' r]. exact G.
Qed.

End BacklogOps.
