(* Props_C09.v — C09: one record per address; identities only move forward;
   own address never active; payload of superseded / Down senders discarded. *)
From Foca Require Import Laws MembersM FocaM L_Members L_MembersInv L_Join L_Forward L_Reject L_Discard Inv Reach L_Told L_Evidence L_Monotone.

Section C09.
Context {Id Addr : Type} {IO : IdOps Id Addr} {CO : CodecOps Id} {HO : HandlerOps Id}.
Context {IL : IdLaws IO} {EL : @ExtraLaws Id Addr IO CO}.

(* every reachable state: one record per address, cached count exact, every record bearing
   the instance's own address is Down (so the own address is never listed as active) *)
Theorem C09_reachable_invariant (id0 : Id) (c0 : config) (h0 : hstate) (f : @foca Id Addr HO) :
  cfg_ok c0 -> reach id0 c0 h0 f ->
  uniq (inner (mems f))
  /\ num_active (mems f) = nact (inner (mems f))
  /\ (forall m, In m (inner (mems f)) -> addr_of (m_id m) = addr_of (identity f) -> m_state m = Down).
Proof.
  intros CK R. destruct (reach_WF id0 c0 h0 f CK R) as [W _]. destruct (wf_mi f W) as [U C O].
  exact (conj U (conj C O)).
Qed.

(* a record's identity is replaced only by a same-address identity that wins the conflict *)
Theorem C09_identity_forward (rnd : oracle) (ms : @members Id) (u : member Id) (n : N) (a : Addr) (k k' : member Id) :
  uniq (inner ms) -> view ms a = Some k ->
  view (fst (fst (members_apply rnd ms u n))) a = Some k' ->
  m_id k' <> m_id k -> k' = u /\ wins (m_id k') (m_id k) = true.
Proof. exact (apply_identity_forward rnd ms u n a k k'). Qed.

(* hence no fallback to a superseded identity along any sequence of updates *)
Theorem C09_no_fallback (rnd : oracle) (l : list (member Id)) (ms : @members Id) (n : N) (a : Addr) (k k' : member Id) :
  uniq (inner ms) -> view ms a = Some k ->
  view (fst (apply_list rnd ms l n)) a = Some k' ->
  m_id k' = m_id k \/ wins (m_id k') (m_id k) = true.
Proof. exact (apply_list_identity_forward rnd l ms n a k k'). Qed.

(* data claiming our identity or address: rejected, nothing changes *)
Theorem C09_reject_own_source (rnd : oracle) (f : @foca Id Addr HO) (b : bytes) (h : header Id) (r : bytes) :
  len b <= max_packet_size (cfg f) -> dec_hdr b = Some (h, r) ->
  id_eqb (h_src h) (identity f) = true \/ addr_eqb (addr_of (h_src h)) (addr_of (identity f)) = true ->
  step rnd f (IData b) = (f, [], Failed EDataFromOurselves, 0).
Proof. exact (fun S D X => reject_noop rnd f (IData b) _ (Rj_from_self f b h r S D X)). Qed.

(* a sender that is not active once its header has been processed (Down, or superseded by
   a newer identity of its address): nothing of its payload is processed - no update is
   applied, no item reaches the handler, its message is not acted upon; the only reaction
   is the optional TurnUndead courtesy reply *)
Theorem C09_discard_inactive_sender (rnd : oracle) (data : bytes) (h : header Id) (rest : bytes)
        (ul : list (member Id)) (tail : bytes) (s s1 : @rs Id Addr HO) :
  len data <= max_packet_size (cfg (st s)) ->
  dec_hdr data = Some (h, rest) ->
  id_eqb (h_src h) (identity (st s)) = false ->
  addr_eqb (addr_of (h_src h)) (addr_of (identity (st s))) = false ->
  len rest <> 1 -> (h_msg h = Announce -> len rest = 0) ->
  accept_payload (st s) h = true ->
  parse_updates h rest = Some (ul, tail) ->
  apply_update rnd (mkMember (h_src h) (h_src_inc h) Alive) true s = (s1, ROk false) ->
  h_msg h <> TurnUndead ->
  handle_data rnd data s =
  (when (notify_down_members (cfg (st s1))) (send_message rnd (h_src h) TurnUndead)) s1.
Proof.
  exact (fun A B C D E F G H I J =>
           eq_trans (handle_data_parsed rnd data h rest ul tail s A B C D E F G H)
                    (inactive_sender_discards rnd h ul tail s s1 I J)).
Qed.

(* never more records than addresses told about: every address with a record after a call had one
   before the call or is named by the call's input - the sender of the datagram, a member update in
   its (fully decodable) member section, an update passed to apply_many; timers and every other API
   call add none.  With one record per address (C09_reachable_invariant) the number of records is
   at most the number of distinct addresses told. *)
Theorem C09_only_told_addresses (rnd : oracle) (f : @foca Id Addr HO) (i : @input Id) (a : Addr) :
  In a (map (fun m => addr_of (m_id m)) (inner (mems (fst (fst (fst (step rnd f i))))))) ->
  In a (map (fun m => addr_of (m_id m)) (inner (mems f)))
  \/ match i with
     | IData b =>
         exists h rest, dec_hdr b = Some (h, rest)
           /\ (a = addr_of (h_src h)
               \/ exists n r ul tail, get_u16 rest = Some (n, r) /\ dec_members (N.to_nat n) r = Some (ul, tail)
                                      /\ In a (map (fun m => addr_of (m_id m)) ul))
     | IApplyMany l _ => In a (map (fun m => addr_of (m_id m)) l)
     | _ => False
     end.
Proof. exact (step_told rnd f i a). Qed.

Theorem C09_history_only_told (id0 : Id) (c0 : config) (h0 : hstate) (f : @foca Id Addr HO) (T : Addr -> Prop) :
  thist id0 c0 h0 f T -> forall a, In a (map (fun m => addr_of (m_id m)) (inner (mems f))) -> T a.
Proof. exact (thist_told id0 c0 h0 f T). Qed.

(* IDENTITIES ONLY MOVE FORWARD, over whole call histories: as long as no forget-timer fires, an address
   that has a record keeps one, and the identity stored for it is the same or one that wins the address
   conflict against the earlier one - never a fallback *)
Theorem C09_identity_moves_forward_along_histories (rnd : oracle) (l : list (@input Id)) (f : @foca Id Addr HO) (a : Addr) (k : member Id) :
  no_forget l -> uniq (inner (mems f)) -> view (mems f) a = Some k ->
  exists k', view (mems (run_calls rnd f l)) a = Some k'
    /\ (m_id k' = m_id k \/ wins (m_id k') (m_id k) = true).
Proof.
  intros NF U V. destruct (history_down_final rnd l f a k NF U V) as (k' & V' & H & _). exists k'. auto.
Qed.

End C09.

Print Assumptions C09_only_told_addresses.
Print Assumptions C09_history_only_told.
Print Assumptions C09_reachable_invariant.
Print Assumptions C09_identity_forward.
Print Assumptions C09_no_fallback.
Print Assumptions C09_reject_own_source.
Print Assumptions C09_discard_inactive_sender.
Print Assumptions C09_identity_moves_forward_along_histories.
