(* Props_C09.v — C09: one record per address; identities only move forward;
   own address never active; payload of superseded / Down senders discarded. *)
From Foca Require Import Laws MembersM FocaM L_Members L_MembersInv L_Join L_Forward L_Reject L_Discard Inv Reach L_Told L_Evidence L_Monotone L_Rename Concrete.

Section C09.
Context {Id Addr : Type} {IO : IdOps Id Addr} {CO : CodecOps Id} {HO : HandlerOps Id}.
Context {IL : IdLaws IO} {EL : @ExtraLaws Id Addr IO CO}.

(* every reachable state: one record per address, cached count exact, every record bearing
   the instance's own address is Down (so the own address is never listed as active) *)
Theorem C09_reachable_invariant (id0 : Id) (c0 : config) (h0 : hstate) (f : @foca Id Addr HO) :
  cfg_ok c0 -> reach id0 c0 h0 f ->
  uniq (inner (mems f))
  /\ num_active (mems f) = nact (inner (mems f))
  /\ (forall m, In m (inner (mems f)) -> addr_of (m_id m) = addr_of (identity f) -> m_state m = Down).
Proof.
  intros CK R. destruct (reach_WF id0 c0 h0 f CK R) as [W _]. destruct (wf_mi f W) as [U C O].
  exact (conj U (conj C O)).
Qed.

(* a record's identity is replaced only by a same-address identity that wins the conflict *)
Theorem C09_identity_forward (rnd : oracle) (ms : @members Id) (u : member Id) (n : N) (a : Addr) (k k' : member Id) :
  uniq (inner ms) -> view ms a = Some k ->
  view (fst (fst (members_apply rnd ms u n))) a = Some k' ->
  m_id k' <> m_id k -> k' = u /\ wins (m_id k') (m_id k) = true.
Proof. exact (apply_identity_forward rnd ms u n a k k'). Qed.

(* hence no fallback to a superseded identity along any sequence of updates *)
Theorem C09_no_fallback (rnd : oracle) (l : list (member Id)) (ms : @members Id) (n : N) (a : Addr) (k k' : member Id) :
  uniq (inner ms) -> view ms a = Some k ->
  view (fst (apply_list rnd ms l n)) a = Some k' ->
  m_id k' = m_id k \/ wins (m_id k') (m_id k) = true.
Proof. exact (apply_list_identity_forward rnd l ms n a k k'). Qed.

(* data claiming our identity or address: rejected, nothing changes *)
Theorem C09_reject_own_source (rnd : oracle) (f : @foca Id Addr HO) (b : bytes) (h : header Id) (r : bytes) :
  len b <= max_packet_size (cfg f) -> dec_hdr b = Some (h, r) ->
  id_eqb (h_src h) (identity f) = true \/ addr_eqb (addr_of (h_src h)) (addr_of (identity f)) = true ->
  step rnd f (IData b) = (f, [], Failed EDataFromOurselves, 0).
Proof. exact (fun S D X => reject_noop rnd f (IData b) _ (Rj_from_self f b h r S D X)). Qed.

(* a sender that is not active once its header has been processed (Down, or superseded by
   a newer identity of its address): nothing of its payload is processed - no update is
   applied, no item reaches the handler, its message is not acted upon; the only reaction
   is the optional TurnUndead courtesy reply *)
Theorem C09_discard_inactive_sender (rnd : oracle) (data : bytes) (h : header Id) (rest : bytes)
        (ul : list (member Id)) (tail : bytes) (s s1 : @rs Id Addr HO) :
  len data <= max_packet_size (cfg (st s)) ->
  dec_hdr data = Some (h, rest) ->
  id_eqb (h_src h) (identity (st s)) = false ->
  addr_eqb (addr_of (h_src h)) (addr_of (identity (st s))) = false ->
  len rest <> 1 -> (h_msg h = Announce -> len rest = 0) ->
  accept_payload (st s) h = true ->
  parse_updates h rest = Some (ul, tail) ->
  apply_update rnd (mkMember (h_src h) (h_src_inc h) Alive) true s = (s1, ROk false) ->
  h_msg h <> TurnUndead ->
  handle_data rnd data s =
  (when (notify_down_members (cfg (st s1))) (send_message rnd (h_src h) TurnUndead)) s1.
Proof.
  exact (fun A B C D E F G H I J =>
           eq_trans (handle_data_parsed rnd data h rest ul tail s A B C D E F G H)
                    (inactive_sender_discards rnd h ul tail s s1 I J)).
Qed.

(* never more records than addresses told about: every address with a record after a call had one
   before the call or is named by the call's input - the sender of the datagram, a member update in
   its (fully decodable) member section, an update passed to apply_many; timers and every other API
   call add none.  With one record per address (C09_reachable_invariant) the number of records is
   at most the number of distinct addresses told. *)
Theorem C09_only_told_addresses (rnd : oracle) (f : @foca Id Addr HO) (i : @input Id) (a : Addr) :
  In a (map (fun m => addr_of (m_id m)) (inner (mems (fst (fst (fst (step rnd f i))))))) ->
  In a (map (fun m => addr_of (m_id m)) (inner (mems f)))
  \/ match i with
     | IData b =>
         exists h rest, dec_hdr b = Some (h, rest)
           /\ (a = addr_of (h_src h)
               \/ exists n r ul tail, get_u16 rest = Some (n, r) /\ dec_members (N.to_nat n) r = Some (ul, tail)
                                      /\ In a (map (fun m => addr_of (m_id m)) ul))
     | IApplyMany l _ => In a (map (fun m => addr_of (m_id m)) l)
     | _ => False
     end.
Proof. exact (step_told rnd f i a). Qed.

Theorem C09_history_only_told (id0 : Id) (c0 : config) (h0 : hstate) (f : @foca Id Addr HO) (T : Addr -> Prop) :
  thist id0 c0 h0 f T -> forall a, In a (map (fun m => addr_of (m_id m)) (inner (mems f))) -> T a.
Proof. exact (thist_told id0 c0 h0 f T). Qed.

(* IDENTITIES ONLY MOVE FORWARD, over whole call histories: as long as no forget-timer fires, an address
   that has a record keeps one, and the identity stored for it is the same or one that wins the address
   conflict against the earlier one - never a fallback *)
Theorem C09_identity_moves_forward_along_histories (rnd : oracle) (l : list (@input Id)) (f : @foca Id Addr HO) (a : Addr) (k : member Id) :
  no_forget l -> uniq (inner (mems f)) -> view (mems f) a = Some k ->
  exists k', view (mems (run_calls rnd f l)) a = Some k'
    /\ (m_id k' = m_id k \/ wins (m_id k') (m_id k) = true).
Proof.
  intros NF U V. destruct (history_down_final rnd l f a k NF U V) as (k' & V' & H & _). exists k'. auto.
Qed.

(* EVERY IDENTITY CHANGE IS REPORTED AS RENAME.  rpath es x z: among the effects es there is a chain
   Rename(x, y1), Rename(y1, y2), ..., Rename(yn, z) (the empty chain when z = x).  Along every call other
   than the forget-timer every address that has a record keeps one, and the effects of that very call contain
   such a chain from the identity recorded before to the identity recorded after - whatever the states of
   the records (a Down record superseded by a Down identity included); over any history without forget-timers
   the same holds for the concatenated effects. *)
Theorem C09_rename_terms (es : list (effect Id)) (x z : Id) (ms ms' : @members Id) :
  (rpath es x z <-> x = z \/ exists y, In (Notify (NRename x y)) es /\ rpath es y z)
  /\ (renamed ms ms' es <->
      forall a k, view ms a = Some k -> exists k', view ms' a = Some k' /\ rpath es (m_id k) (m_id k')).
Proof.
  split; [|split; auto]. split.
  - intros H. destruct H as [x|x y z Hin H]; [left; reflexivity|right; exists y; split; assumption].
  - intros [->|(y & Hin & H)]; [apply rp_refl|eapply rp_step; eauto].
Qed.

Theorem C09_every_identity_change_is_reported (rnd : oracle) (f : @foca Id Addr HO) (i : @input Id) :
  match i with ITimer (TRemoveDown _) => False | _ => True end ->
  uniq (inner (mems f)) ->
  let '(f', es, _, _) := step rnd f i in
  uniq (inner (mems f')) /\ renamed (mems f) (mems f') es.
Proof. exact (step_renames_reported rnd f i). Qed.

Theorem C09_identity_changes_reported_along_histories (rnd : oracle) (l : list (@input Id)) (f : @foca Id Addr HO) :
  no_forget l -> uniq (inner (mems f)) ->
  uniq (inner (mems (run_calls rnd f l))) /\ renamed (mems f) (mems (run_calls rnd f l)) (hist_effects rnd f l).
Proof. exact (history_renames_reported rnd l f). Qed.

Theorem C09_history_effects_meaning (rnd : oracle) (f : @foca Id Addr HO) (i : @input Id) (l : list (@input Id)) :
  hist_effects rnd f [] = []
  /\ hist_effects rnd f (i :: l) = snd (fst (fst (step rnd f i))) ++ hist_effects rnd (fst (fst (fst (step rnd f i)))) l.
Proof. split; reflexivity. Qed.

End C09.

Print Assumptions C09_only_told_addresses.
Print Assumptions C09_history_only_told.
Print Assumptions C09_reachable_invariant.
Print Assumptions C09_identity_forward.
Print Assumptions C09_no_fallback.
Print Assumptions C09_reject_own_source.
Print Assumptions C09_discard_inactive_sender.
Print Assumptions C09_identity_moves_forward_along_histories.

(* non-vacuity: a Down record superseded by a Down identity of the same address that wins - the record
   changes identity and Rename(old, new) is among the effects of the call *)
Definition ex09_cfg : config := mkConfig 1500000000 500000000 3 10 3000000000 86400000000000 1400 false None None None.
Definition ex09_o : oracle := fun _ r => match r with RShuffle _ => [0; 1; 2; 3] | RChoose _ => [0] | RRange _ => [0] | RTie _ _ => [] end.
Definition ex09_f0 : @foca cid N cid_handler := foca_init (mkCid 1 0 0 0) ex09_cfg (mkChst 0 255 []).
Definition ex09_f : @foca cid N cid_handler :=
  fst (fst (fst (step ex09_o ex09_f0 (IApplyMany [mkMember (mkCid 2 0 1 0) 0 Down; mkMember (mkCid 3 0 0 0) 0 Alive] false)))).
Example C09_rename_example :
  let '(f', es, r, _) := step ex09_o ex09_f (IApplyMany [mkMember (mkCid 2 1 1 0) 0 Down] true) in
  r = Done
  /\ option_map (fun k => (m_id k, m_state k)) (view (mems ex09_f) 2) = Some (mkCid 2 0 1 0, Down)
  /\ option_map (fun k => (m_id k, m_state k)) (view (mems f') 2) = Some (mkCid 2 1 1 0, Down)
  /\ In (Notify (NRename (mkCid 2 0 1 0) (mkCid 2 1 1 0))) es.
Proof. vm_compute. repeat split; auto. Qed.

Print Assumptions C09_rename_terms.
Print Assumptions C09_every_identity_change_is_reported.
Print Assumptions C09_identity_changes_reported_along_histories.
Print Assumptions C09_history_effects_meaning.
Print Assumptions C09_rename_example.
