(* L_Probe.v — probe evidence and indirect-probe routing (C12). *)
From Foca Require Import Laws L_Lists MembersM ProbeM BcastM FocaM WireM L_Members L_MembersInv L_Bcast L_Fill Hoare Inv L_Wire.

Section ProbeFacts.
Context {Id Addr : Type} {IO : IdOps Id Addr} {IL : IdLaws IO}.
Implicit Types (p : probe Id) (x : Id).

(* a direct ack counts only with the current probe number and from the probed member *)
Lemma receive_ack_evidence p from n :
  p_direct_ack_ok (fst (probe_receive_ack p from n)) = true ->
  p_direct_ack_ok p = true \/ (n = p_number p /\ probe_is_probing p from = true).
Proof.
  unfold probe_receive_ack. destruct ((n =? p_number p) && probe_is_probing p from) eqn:E; cbn; auto.
  apply andb_true_iff in E. destruct E as [E1 E2]. right. split; [lia|exact E2].
Qed.

Lemma receive_ack_frame p from n :
  let p' := fst (probe_receive_ack p from n) in
  p_direct p' = p_direct p /\ p_indirect p' = p_indirect p /\ p_number p' = p_number p
  /\ p_indirect_ack_count p' = p_indirect_ack_count p /\ p_reached p' = p_reached p.
Proof. unfold probe_receive_ack. destruct (_ && _); cbn; auto. Qed.

(* a forwarded ack counts only with the current number and from a member that was asked and
   has not answered yet; it is then struck off the list *)
Lemma receive_indirect_ack_evidence p from n :
  let p' := fst (probe_receive_indirect_ack p from n) in
  (p_indirect_ack_count p' = p_indirect_ack_count p /\ p_indirect p' = p_indirect p)
  \/ (n = p_number p /\ In from (p_indirect p)
      /\ p_indirect_ack_count p' = p_indirect_ack_count p + 1
      /\ (NoDup (p_indirect p) -> ~ In from (p_indirect p'))
      /\ length (p_indirect p') = (length (p_indirect p) - 1)%nat).
Proof.
  unfold probe_receive_indirect_ack. destruct (negb (p_number p =? n)) eqn:E; cbn; auto.
  apply negb_false_iff in E.
  destruct (find_index (fun i => id_eqb i from) (p_indirect p)) as [pos|] eqn:F; cbn; auto.
  right. destruct (find_index_Some _ _ _ F) as (y & Hy & Ey & _). apply id_eqb_eq in Ey. subst y.
  pose proof (swap_remove_perm _ _ _ Hy) as P.
  repeat split; auto.
  - lia.
  - eapply nth_error_In; eauto.
  - intros ND Hin. assert (ND' : NoDup (from :: swap_remove (p_indirect p) pos)).
    { eapply Permutation_NoDup; [symmetry; exact P|exact ND]. }
    inversion ND'; auto.
  - apply Permutation_length in P. cbn in P. lia.
Qed.

Lemma receive_indirect_ack_frame p from n :
  let p' := fst (probe_receive_indirect_ack p from n) in
  p_direct p' = p_direct p /\ p_number p' = p_number p
  /\ p_direct_ack_ok p' = p_direct_ack_ok p /\ p_reached p' = p_reached p.
Proof. unfold probe_receive_indirect_ack. destruct (negb _); cbn; auto. destruct (find_index _ _); cbn; auto. Qed.

(* every round start, idle, defunct and identity change resets the evidence *)
Lemma start_resets p m : probe_succeeded (fst (probe_start p m)) = false /\ p_indirect (fst (probe_start p m)) = [].
Proof. cbn. auto. Qed.
Lemma clear_resets p : probe_succeeded (probe_clear p) = false /\ p_direct (probe_clear p) = None.
Proof. cbn. auto. Qed.

(* the failed target is handed over for suspicion iff the round did not succeed *)
Lemma take_failed_iff p m :
  snd (probe_take_failed p) = Some m <-> probe_succeeded p = false /\ p_direct p = Some m.
Proof.
  unfold probe_take_failed. destruct (probe_succeeded p); cbn; split; intros H; try discriminate; auto.
  - destruct H; discriminate.
  - tauto.
Qed.

(* reservoir sampling returns at most [wanted] pairwise distinct members *)
Lemma choose_loop_len (rnd : oracle) picker wanted (l : list (member Id)) : forall out seen n,
  len out <= wanted -> len (fst (choose_loop rnd picker wanted l out seen n)) <= wanted.
Proof.
  induction l as [|m t IH]; intros out seen n H; cbn; auto.
  destruct (picker m); [|apply IH; auto].
  destruct (len out <? wanted) eqn:L.
  - apply IH. rewrite len_app. unfold len at 2. cbn. lia.
  - apply IH. match goal with |- len (if ?c then _ else _) <= _ => destruct c end; [|exact H].
    unfold len in *. rewrite set_nth_length. exact H.
Qed.

Lemma choose_members_len (rnd : oracle) (ms : @members Id) wanted picker n :
  len (fst (choose_members rnd ms wanted picker n)) <= wanted.
Proof. unfold choose_members. apply choose_loop_len. unfold len; cbn; lia. Qed.

Lemma indirect_absorbs p from n :
  n = p_number p -> In from (p_indirect p) ->
  snd (probe_take_failed (fst (probe_receive_indirect_ack p from n))) = None.
Proof.
  intros E Hin. unfold probe_receive_indirect_ack. replace (negb (p_number p =? n)) with false by lia.
  destruct (find_index (fun i => id_eqb i from) (p_indirect p)) as [pos|] eqn:F.
  - unfold probe_take_failed, probe_succeeded. cbn.
    replace (0 <? p_indirect_ack_count p + 1) with true by lia. rewrite orb_true_r. reflexivity.
  - exfalso. rewrite find_index_None in F. specialize (F from Hin). cbn in F. rewrite id_eqb_refl in F. discriminate.
Qed.

Lemma acked_round_no_suspicion p from n :
  n = p_number p -> probe_is_probing p from = true ->
  snd (probe_take_failed (fst (probe_receive_ack p from n))) = None.
Proof.
  intros E H. unfold probe_receive_ack. replace (n =? p_number p) with true by lia. rewrite H. reflexivity.
Qed.

Lemma higher_incarnation_refutes (m : member Id) (i : N) :
  m_state m = Suspect -> m_inc m < i -> change_state m i Alive = (mkMember (m_id m) i Alive, true).
Proof.
  intros S L. unfold change_state, can_change. rewrite S. replace (m_inc m <? i) with true by lia. reflexivity.
Qed.

End ProbeFacts.

Section Replies.
Context {Id Addr : Type} {IO : IdOps Id Addr} {CO : CodecOps Id} {HO : HandlerOps Id}.
Context {IL : IdLaws IO} {EL : @ExtraLaws Id Addr IO CO} {CL : CodecLaws CO}.
Variable rnd : oracle.
Notation rs := (@rs Id Addr HO).

(* the reply to each probe message: exactly one datagram, to the right member, whose header
   carries the right message (origin / target / probe number preserved) *)
Definition replies (src : Id) (msg reply : message Id) (dst : Id) : Prop :=
  forall s : rs, WF (st s) ->
    match react rnd src msg s with
    | (s', ROk _) => exists b, out s' = out s ++ [Send dst b] /\ sent_ok (st s) dst reply b
    | (s', RErr e) => e = EEncode /\ s' = s
    | (_, RPanic _) => False
    end.

Lemma react_send (src : Id) (msg : message Id) (dst : Id) (reply : message Id) (s : rs) :
  WF (st s) ->
  react rnd src msg s = send_message rnd dst reply s ->
  match react rnd src msg s with
  | (s', ROk _) => exists b, out s' = out s ++ [Send dst b] /\ sent_ok (st s) dst reply b
  | (s', RErr e) => e = EEncode /\ s' = s
  | (_, RPanic _) => False
  end.
Proof. intros W E. rewrite E. apply send_message_shape; auto. Qed.

Theorem ping_is_acked src n : replies src (Ping n) (Ack n) src.
Proof. intros s W. apply react_send; auto. Qed.

Theorem announce_is_fed src : replies src Announce Feed src.
Proof. intros s W. apply react_send; auto. Qed.

Theorem ping_req_is_relayed src target n (s : rs) :
  WF (st s) -> id_eqb target (identity (st s)) = false ->
  match react rnd src (PingReq target n) s with
  | (s', ROk _) => exists b, out s' = out s ++ [Send target b] /\ sent_ok (st s) target (IndirectPing src n) b
  | (s', RErr e) => e = EEncode /\ s' = s
  | (_, RPanic _) => False
  end.
Proof. intros W E. apply react_send; auto. unfold react, bind, get. rewrite E. reflexivity. Qed.

Theorem indirect_ping_is_acked src origin n (s : rs) :
  WF (st s) -> id_eqb origin (identity (st s)) = false ->
  match react rnd src (IndirectPing origin n) s with
  | (s', ROk _) => exists b, out s' = out s ++ [Send src b] /\ sent_ok (st s) src (IndirectAck origin n) b
  | (s', RErr e) => e = EEncode /\ s' = s
  | (_, RPanic _) => False
  end.
Proof. intros W E. apply react_send; auto. unfold react, bind, get. rewrite E. reflexivity. Qed.

Theorem indirect_ack_is_forwarded src target n (s : rs) :
  WF (st s) -> id_eqb target (identity (st s)) = false ->
  match react rnd src (IndirectAck target n) s with
  | (s', ROk _) => exists b, out s' = out s ++ [Send target b] /\ sent_ok (st s) target (ForwardedAck src n) b
  | (s', RErr e) => e = EEncode /\ s' = s
  | (_, RPanic _) => False
  end.
Proof. intros W E. apply react_send; auto. unfold react, bind, get. rewrite E. reflexivity. Qed.

(* requests naming the instance itself are rejected without sending anything *)
Theorem indirect_for_ourselves (src : Id) (msg : message Id) (s : rs) :
  (exists n, msg = PingReq (identity (st s)) n \/ msg = IndirectPing (identity (st s)) n
             \/ msg = IndirectAck (identity (st s)) n \/ msg = ForwardedAck (identity (st s)) n) ->
  react rnd src msg s = (s, RErr EIndirectForOurselves).
Proof.
  intros (n & [-> | [-> | [-> | ->]]]); unfold react, bind, get; rewrite id_eqb_refl; reflexivity.
Qed.

(* acks only update the probe bookkeeping *)
Theorem ack_only_touches_probe src n (s : rs) :
  react rnd src (Ack n) s = (mkRs (set_prb (st s) (fst (probe_receive_ack (prb (st s)) src n))) (out s) (ctr s), ROk tt).
Proof. reflexivity. Qed.

Theorem forwarded_ack_only_touches_probe src origin n (s : rs) :
  id_eqb origin (identity (st s)) = false ->
  react rnd src (ForwardedAck origin n) s =
  (mkRs (set_prb (st s) (fst (probe_receive_indirect_ack (prb (st s)) src n))) (out s) (ctr s), ROk tt).
Proof. intros E. unfold react, bind, get. rewrite E. reflexivity. Qed.

End Replies.
