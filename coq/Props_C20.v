(* Props_C20.v — C20: the bundled codecs round-trip exactly and fail cleanly.
   Wire models: SerdeM.v (bincode 2 standard(), postcard 1; Header / Member over
   struct SId {u8,u16,u32,u64}); tied to the real BincodeCodec / PostcardCodec by the codec
   differential check (harness/src/codecs.rs). *)
From Foca Require Import Laws FocaM WireM L_Members L_MembersInv Inv Reach L_Wire L_StepWire SerdeM L_Serde SerdeInst Props_C06 Props_C07.
From Coq Require Import ZArith.

(* every header / member a Rust value can hold decodes back to itself, consuming exactly the
   bytes produced whatever follows *)
Theorem C20_bincode_header_roundtrip (h : header sid) (r : bytes) :
  shdr_ok h -> s_p_hdr bincode_fmt (s_enc_hdr bincode_fmt h ++ r) = Some (h, r).
Proof. exact (fun H => hdr_rt bincode_fmt in16 in32 in64 bincode_rt in32_small h r (shdr_ok_r h H)). Qed.

Theorem C20_bincode_member_roundtrip (m : member sid) (r : bytes) :
  smem_ok m -> s_p_mem bincode_fmt (s_enc_mem bincode_fmt m ++ r) = Some (m, r).
Proof. exact (fun H => mem_rt bincode_fmt in16 in32 in64 bincode_rt in32_small m r (smem_ok_r m H)). Qed.

Theorem C20_postcard_header_roundtrip (h : header sid) (r : bytes) :
  shdr_ok h -> s_p_hdr postcard_fmt (s_enc_hdr postcard_fmt h ++ r) = Some (h, r).
Proof. exact (fun H => hdr_rt postcard_fmt in16 in32 in64 postcard_rt in32_small h r (shdr_ok_r h H)). Qed.

Theorem C20_postcard_member_roundtrip (m : member sid) (r : bytes) :
  smem_ok m -> s_p_mem postcard_fmt (s_enc_mem postcard_fmt m ++ r) = Some (m, r).
Proof. exact (fun H => mem_rt postcard_fmt in16 in32 in64 postcard_rt in32_small m r (smem_ok_r m H)). Qed.

(* decoding ANY input (not only bytes) is local: a success consumed a prefix of the input,
   returns the untouched remainder and would have produced the same value whatever followed
   that prefix — the decoders never look past what they consume *)
Theorem C20_decoders_local :
  loc (s_p_hdr bincode_fmt) /\ loc (s_p_mem bincode_fmt) /\ loc (s_p_hdr postcard_fmt) /\ loc (s_p_mem postcard_fmt).
Proof.
  exact (conj (loc_hdr _ _ _ _ bincode_rt) (conj (loc_mem _ _ _ _ bincode_rt)
        (conj (loc_hdr _ _ _ _ postcard_rt) (loc_mem _ _ _ _ postcard_rt)))).
Qed.

(* encodings are strings of bytes of bounded length (member: 6..27 bytes in both formats) *)
Theorem C20_encodings_are_bytes (h : header sid) (m : member sid) :
  shdr_ok h -> smem_ok m ->
  Forall (fun x => x < 256) (s_enc_hdr bincode_fmt h) /\ Forall (fun x => x < 256) (s_enc_hdr postcard_fmt h)
  /\ Forall (fun x => x < 256) (s_enc_mem bincode_fmt m) /\ Forall (fun x => x < 256) (s_enc_mem postcard_fmt m)
  /\ 6 <= len (s_enc_mem bincode_fmt m) <= 27 /\ 6 <= len (s_enc_mem postcard_fmt m) <= 27.
Proof.
  exact (fun H M => conj (hdr_bytes _ bincode_by h H) (conj (hdr_bytes _ postcard_by h H)
        (conj (mem_bytes _ bincode_by m M) (conj (mem_bytes _ postcard_by m M)
        (conj (mem_len _ bincode_by m M) (mem_len _ postcard_by m M)))))).
Qed.

(* encoding into a buffer with [room] bytes left: never more than [room] bytes are written;
   everything is written iff it fits; postcard leaves a prefix made of whole primitives *)
Theorem C20_short_buffer (total : bytes) (cs : list bytes) (room : N) :
  bincode_written total room <= room
  /\ (len total <= room -> bincode_written total room = len total)
  /\ postcard_written cs room <= room
  /\ (len (concat cs) <= room -> postcard_written cs room = len (concat cs))
  /\ (room < len (concat cs) -> postcard_written cs room < len (concat cs))
  /\ (exists k, postcard_written cs room = len (concat (firstn k cs))).
Proof.
  unfold bincode_written, postcard_written.
  exact (conj (N.le_min_r _ _) (conj (fun H => N.min_l _ _ H)
        (conj (chunks_fit_le cs room) (conj (chunks_fit_all cs room) (conj (chunks_fit_short cs room) (chunks_fit_prefix cs room)))))).
Qed.

Theorem C20_chunks_are_the_encoding (h : header sid) (m : member sid) :
  concat (hdr_chunks bincode_fmt h) = s_enc_hdr bincode_fmt h /\ concat (mem_chunks bincode_fmt m) = s_enc_mem bincode_fmt m
  /\ concat (hdr_chunks postcard_fmt h) = s_enc_hdr postcard_fmt h /\ concat (mem_chunks postcard_fmt m) = s_enc_mem postcard_fmt m.
Proof.
  exact (conj (hdr_chunks_concat _ h) (conj (mem_chunks_concat _ m) (conj (hdr_chunks_concat _ h) (mem_chunks_concat _ m)))).
Qed.

(* the Codec-class instances used below are the real formats on everything real: on
   representable values the encoders coincide, on strings of bytes the decoders coincide *)
Theorem C20_instances_are_the_formats (F : fmt) (h : header sid) (m : member sid) (b : bytes) :
  fmt_rt F in16 in32 in64 ->
  (shdr_ok h -> s_enc_hdr (tot_fmt F) h = s_enc_hdr F h)
  /\ (smem_ok m -> s_enc_mem (tot_fmt F) m = s_enc_mem F m)
  /\ (Forall (fun x => x < 256) b -> s_p_hdr (tot_fmt F) b = s_p_hdr F b /\ s_p_mem (tot_fmt F) b = s_p_mem F b).
Proof.
  exact (fun RT => conj (tot_enc_hdr F h) (conj (tot_enc_mem F m) (fun B => conj (tot_p_hdr F RT b B) (tot_p_mem F RT b B)))).
Qed.

(* BincodeCodec is generic in the bincode configuration.  Besides standard(): big-endian varint,
   fixed-width little endian (with_fixed_int_encoding(), legacy()) and fixed-width big endian - the same
   round trip, locality and shape statements, for headers and members *)
Theorem C20_other_bincode_configurations_roundtrip (F : fmt) (h : header sid) (m : member sid) (r : bytes) :
  F = bincode_be_fmt \/ F = bincode_fixle_fmt \/ F = bincode_fixbe_fmt ->
  (shdr_ok h -> s_p_hdr F (s_enc_hdr F h ++ r) = Some (h, r))
  /\ (smem_ok m -> s_p_mem F (s_enc_mem F m ++ r) = Some (m, r))
  /\ loc (s_p_hdr F) /\ loc (s_p_mem F)
  /\ (shdr_ok h -> Forall (fun x => x < 256) (s_enc_hdr F h))
  /\ (smem_ok m -> Forall (fun x => x < 256) (s_enc_mem F m) /\ 6 <= len (s_enc_mem F m) <= 27).
Proof.
  intros [->|[->| ->]].
  - exact (conj (fun H => hdr_rt _ in16 in32 in64 bincode_be_rt in32_small h r (shdr_ok_r h H))
          (conj (fun H => mem_rt _ in16 in32 in64 bincode_be_rt in32_small m r (smem_ok_r m H))
          (conj (loc_hdr _ _ _ _ bincode_be_rt) (conj (loc_mem _ _ _ _ bincode_be_rt)
          (conj (fun H => hdr_bytes _ bincode_be_by h H) (fun M => conj (mem_bytes _ bincode_be_by m M) (mem_len _ bincode_be_by m M))))))).
  - exact (conj (fun H => hdr_rt _ in16 in32 in64 bincode_fixle_rt in32_small h r (shdr_ok_r h H))
          (conj (fun H => mem_rt _ in16 in32 in64 bincode_fixle_rt in32_small m r (smem_ok_r m H))
          (conj (loc_hdr _ _ _ _ bincode_fixle_rt) (conj (loc_mem _ _ _ _ bincode_fixle_rt)
          (conj (fun H => hdr_bytes _ bincode_fixle_by h H) (fun M => conj (mem_bytes _ bincode_fixle_by m M) (mem_len _ bincode_fixle_by m M))))))).
  - exact (conj (fun H => hdr_rt _ in16 in32 in64 bincode_fixbe_rt in32_small h r (shdr_ok_r h H))
          (conj (fun H => mem_rt _ in16 in32 in64 bincode_fixbe_rt in32_small m r (smem_ok_r m H))
          (conj (loc_hdr _ _ _ _ bincode_fixbe_rt) (conj (loc_mem _ _ _ _ bincode_fixbe_rt)
          (conj (fun H => hdr_bytes _ bincode_fixbe_by h H) (fun M => conj (mem_bytes _ bincode_fixbe_by m M) (mem_len _ bincode_fixbe_by m M))))))).
Qed.

(* what the three formats are: the integer encodings *)
Theorem C20_other_bincode_configurations_terms (v : N) :
  bincode_be_fmt = mkFmt b_varint_be (b_p_varint_be 2) b_varint_be (b_p_varint_be 4) b_varint_be (b_p_varint_be 8)
  /\ bincode_fixle_fmt = mkFmt (le_bytes 2) (p_le 2) (le_bytes 4) (p_le 4) (le_bytes 8) (p_le 8)
  /\ bincode_fixbe_fmt = mkFmt (be_bytes 2) (p_be 2) (be_bytes 4) (p_be 4) (be_bytes 8) (p_be 8)
  /\ b_varint_be v = (if v <=? 250 then [v] else if v <? 65536 then 251 :: be_bytes 2 v
                      else if v <? 4294967296 then 252 :: be_bytes 4 v else 253 :: be_bytes 8 v)
  /\ be_bytes 2 258 = [1; 2] /\ le_bytes 2 258 = [2; 1] /\ b_varint_be 300 = [251; 1; 44] /\ be_bytes 4 65536 = [0; 1; 0; 0].
Proof. repeat split. Qed.

(* Foca running with either bundled codec: whatever a failing encode_member leaves behind
   mid-feed, every datagram it emits is well formed (C07's statement), and it never panics *)
Section WithFoca.
Context {HO : HandlerOps sid}.

Theorem C20_bincode_datagrams_wellformed (rnd : oracle) (f : @foca sid N HO) (i : @input sid) :
  @WF sid N sid_ops bincode_codec HO f -> input_ok (addr_of (identity f)) i ->
  Forall (fun e => match e with
                   | Send dst b =>
                       exists (f0 : @foca sid N HO) (msg : message sid) ms items,
                         @WF sid N sid_ops bincode_codec HO f0
                         /\ @parse_datagram sid bincode_codec b = Some (mkDatagram (mkHeader (identity f0) (incarnation f0) dst msg) ms items)
                         /\ len b <= max_packet_size (cfg f0)
                         /\ Forall item_ok items
                         /\ (msg = Feed -> forall l, ms = Some l ->
                             Forall (fun m => In m (inner (mems f0)) /\ m_active m = true /\ id_eqb (m_id m) dst = false) l)
                   | _ => True
                   end) (@step_effects sid N sid_ops bincode_codec HO rnd f i).
Proof. exact (@C07_wellformed sid N sid_ops bincode_codec HO sid_laws bincode_extra bincode_laws rnd f i). Qed.

Theorem C20_postcard_datagrams_wellformed (rnd : oracle) (f : @foca sid N HO) (i : @input sid) :
  @WF sid N sid_ops postcard_codec HO f -> input_ok (addr_of (identity f)) i ->
  Forall (fun e => match e with
                   | Send dst b =>
                       exists (f0 : @foca sid N HO) (msg : message sid) ms items,
                         @WF sid N sid_ops postcard_codec HO f0
                         /\ @parse_datagram sid postcard_codec b = Some (mkDatagram (mkHeader (identity f0) (incarnation f0) dst msg) ms items)
                         /\ len b <= max_packet_size (cfg f0)
                         /\ Forall item_ok items
                         /\ (msg = Feed -> forall l, ms = Some l ->
                             Forall (fun m => In m (inner (mems f0)) /\ m_active m = true /\ id_eqb (m_id m) dst = false) l)
                   | _ => True
                   end) (@step_effects sid N sid_ops postcard_codec HO rnd f i).
Proof. exact (@C07_wellformed sid N sid_ops postcard_codec HO sid_laws postcard_extra postcard_laws rnd f i). Qed.

Theorem C20_no_panic_with_bundled_codecs (rnd : oracle) (f : @foca sid N HO) (i : @input sid) :
  (@WF sid N sid_ops bincode_codec HO f -> input_ok (addr_of (identity f)) i ->
   not_panicked (@step_result sid N sid_ops bincode_codec HO rnd f i))
  /\ (@WF sid N sid_ops postcard_codec HO f -> input_ok (addr_of (identity f)) i ->
      not_panicked (@step_result sid N sid_ops postcard_codec HO rnd f i)).
Proof.
  exact (conj (@C06_no_panic_step sid N sid_ops bincode_codec HO sid_laws bincode_extra rnd f i)
              (@C06_no_panic_step sid N sid_ops postcard_codec HO sid_laws postcard_extra rnd f i)).
Qed.
End WithFoca.

(* non-vacuity: a concrete PingReq header and a Suspect member at the integer boundaries *)
Definition ex_sid : sid := mkSid 255 65535 4294967295 18446744073709551615.
Definition ex_hdr : header sid := mkHeader ex_sid 65535 (mkSid 0 250 251 65536) (PingReq ex_sid 255).
Definition ex_mem : member sid := mkMember ex_sid 65535 Suspect.
Example C20_example_values_ok : shdr_ok ex_hdr /\ smem_ok ex_mem.
Proof. unfold shdr_ok, smem_ok, smsg_ok, sid_ok, B16, B32, B64; cbn. lia. Qed.
Example C20_example_bincode :
  s_enc_mem bincode_fmt ex_mem = [255; 251; 255; 255; 252; 255; 255; 255; 255; 253; 255; 255; 255; 255; 255; 255; 255; 255; 251; 255; 255; 1].
Proof. vm_compute. reflexivity. Qed.
Example C20_example_postcard :
  s_enc_mem postcard_fmt ex_mem = [255; 255; 255; 3; 255; 255; 255; 255; 15; 255; 255; 255; 255; 255; 255; 255; 255; 255; 1; 255; 255; 3; 1].
Proof. vm_compute. reflexivity. Qed.

Print Assumptions C20_bincode_header_roundtrip.
Print Assumptions C20_bincode_member_roundtrip.
Print Assumptions C20_postcard_header_roundtrip.
Print Assumptions C20_postcard_member_roundtrip.
Print Assumptions C20_decoders_local.
Print Assumptions C20_encodings_are_bytes.
Print Assumptions C20_short_buffer.
Print Assumptions C20_chunks_are_the_encoding.
Print Assumptions C20_instances_are_the_formats.
Print Assumptions C20_bincode_datagrams_wellformed.
Print Assumptions C20_postcard_datagrams_wellformed.
Print Assumptions C20_no_panic_with_bundled_codecs.
Print Assumptions C20_example_values_ok.
Print Assumptions C20_example_bincode.
Print Assumptions C20_example_postcard.
Print Assumptions C20_other_bincode_configurations_roundtrip.
Print Assumptions C20_other_bincode_configurations_terms.
