(* L_Mirror.v — C08: the notification stream mirrors membership and connection state.
   An abstract machine over (set of active identities, connection state, own identity) is
   driven by the notifications; every call of the model from a state with one record per
   address and an exact active count moves the abstraction of the state exactly as the
   notifications it emitted move the machine. *)
From Foca Require Import Laws L_Lists MembersM L_Members L_MembersInv FocaM Hoare Inv L_Mech.
From Coq Require Import Permutation.

Section Ids.
Context {Id Addr : Type} {IO : IdOps Id Addr} {IL : IdLaws IO}.
Implicit Types (l : list Id) (x a b : Id).

Definition remove_id x l : list Id := filter (fun y => negb (id_eqb y x)) l.
Definition rename_id a b l : list Id := map (fun y => if id_eqb y a then b else y) l.

Lemma remove_id_notin x l : ~ In x l -> remove_id x l = l.
Proof.
  unfold remove_id. induction l as [|y l IH]; cbn; intros H; [reflexivity|].
  destruct (id_eqb y x) eqn:E; cbn.
  - apply id_eqb_eq in E. subst. exfalso. apply H. left. reflexivity.
  - rewrite IH; [reflexivity|]. intros H'. apply H. right. exact H'.
Qed.

Lemma rename_id_notin a b l : ~ In a l -> rename_id a b l = l.
Proof.
  unfold rename_id. induction l as [|y l IH]; cbn; intros H; [reflexivity|].
  destruct (id_eqb y a) eqn:E.
  - apply id_eqb_eq in E. subst. exfalso. apply H. left. reflexivity.
  - rewrite IH; [reflexivity|]. intros H'. apply H. right. exact H'.
Qed.

Lemma remove_id_app x l1 l2 : remove_id x (l1 ++ l2) = remove_id x l1 ++ remove_id x l2.
Proof. unfold remove_id. apply filter_app. Qed.
Lemma rename_id_app a b l1 l2 : rename_id a b (l1 ++ l2) = rename_id a b l1 ++ rename_id a b l2.
Proof. unfold rename_id. apply map_app. Qed.

Lemma perm_filter {A} (p : A -> bool) (l l' : list A) : Permutation l l' -> Permutation (filter p l) (filter p l').
Proof.
  induction 1 as [|x l l' _ IH|x y l|l l' l'' _ IH1 _ IH2]; cbn.
  - constructor.
  - destruct (p x); [constructor|]; exact IH.
  - destruct (p x), (p y); try reflexivity. constructor.
  - etransitivity; eauto.
Qed.

(* ---------- the machine driven by notifications ---------- *)
Definition astate : Type := (list Id * conn_state * Id)%type.

Inductive nstep : astate -> notification Id -> astate -> Prop :=
| ns_up l c i x : ~ In x l -> nstep (l, c, i) (NMemberUp x) (x :: l, c, i)
| ns_down l c i x : In x l -> nstep (l, c, i) (NMemberDown x) (remove_id x l, c, i)
| ns_rename l c i a b : ~ In b l -> nstep (l, c, i) (NRename a b) (rename_id a b l, c, i)
| ns_active l i : l <> [] -> nstep (l, Disconnected, i) NActive (l, Connected, i)
| ns_idle i : nstep ([], Connected, i) NIdle ([], Disconnected, i)
| ns_defunct l c i : nstep (l, c, i) NDefunct (l, Undead, i)
| ns_rejoin l i : nstep (l, Disconnected, i) (NRejoin i) (l, Disconnected, i).

(* moves no notification announces: the set is a set (order is immaterial); an identity
   change (change_identity, also right before Rejoin) restarts the life cycle in the idle
   state; reuse_down_identity revives a defunct instance in the idle state *)
Inductive tau : astate -> astate -> Prop :=
| tau_perm l l' c i : Permutation l l' -> tau (l, c, i) (l', c, i)
| tau_newid l c i i' : i' <> i -> tau (l, c, i) (l, Disconnected, i')
| tau_reuse l i : tau (l, Undead, i) (l, Disconnected, i).

Inductive mrun : astate -> list (notification Id) -> astate -> Prop :=
| mr_nil (s1 : astate) : mrun s1 [] s1
| mr_tau (s1 s2 s3 : astate) ns : tau s1 s2 -> mrun s2 ns s3 -> mrun s1 ns s3
| mr_note (s1 : astate) n (s2 s3 : astate) ns : nstep s1 n s2 -> mrun s2 ns s3 -> mrun s1 (n :: ns) s3.

Lemma mrun_app (s1 s2 s3 : astate) ns1 ns2 : mrun s1 ns1 s2 -> mrun s2 ns2 s3 -> mrun s1 (ns1 ++ ns2) s3.
Proof.
  induction 1 as [q|q b' c' ns T _ IH|q n b' c' ns S _ IH]; intros H2; cbn.
  - exact H2.
  - eapply mr_tau; [exact T|]. apply IH. exact H2.
  - eapply mr_note; [exact S|]. apply IH. exact H2.
Qed.

Lemma mrun_tau1 (s1 s2 : astate) : tau s1 s2 -> mrun s1 [] s2.
Proof. intros T. eapply mr_tau; [exact T|apply mr_nil]. Qed.
Lemma mrun_note1 (s1 : astate) n (s2 : astate) : nstep s1 n s2 -> mrun s1 [n] s2.
Proof. intros S. eapply mr_note; [exact S|apply mr_nil]. Qed.
Lemma mrun_perm l l' c i : Permutation l l' -> mrun (l, c, i) [] (l', c, i).
Proof. intros P. apply mrun_tau1. constructor. exact P. Qed.

(* one record changing identity a -> b and activity wa -> wb among records X ++ _ ++ Y that
   involve neither identity: exactly the notifications of handle_apply_summary *)
Definition one (w : bool) (a : Id) : list Id := if w then [a] else [].
Definition change_notes (a b : Id) (wa wb : bool) : list (notification Id) :=
  (if id_eqb a b then [] else [NRename a b]) ++
  (if Bool.eqb wb wa then [] else [if wb then NMemberUp b else NMemberDown b]).

Lemma change_run (X Y : list Id) (a b : Id) (wa wb : bool) c i :
  ~ In a (X ++ Y) -> ~ In b (X ++ Y) ->
  mrun (X ++ one wa a ++ Y, c, i) (change_notes a b wa wb) (X ++ one wb b ++ Y, c, i).
Proof.
  intros Ha Hb.
  assert (HaX : ~ In a X) by (intros H; apply Ha; apply in_or_app; auto).
  assert (HaY : ~ In a Y) by (intros H; apply Ha; apply in_or_app; auto).
  assert (HbX : ~ In b X) by (intros H; apply Hb; apply in_or_app; auto).
  assert (HbY : ~ In b Y) by (intros H; apply Hb; apply in_or_app; auto).
  (* first the rename (if any): X ++ one wa a ++ Y  ~>  X ++ one wa b ++ Y *)
  assert (R1 : mrun (X ++ one wa a ++ Y, c, i) (if id_eqb a b then [] else [NRename a b]) (X ++ one wa b ++ Y, c, i)).
  { destruct (id_eqb a b) eqn:E.
    - apply id_eqb_eq in E. subst. apply mr_nil.
    - apply id_eqb_neq in E.
      replace (X ++ one wa b ++ Y) with (rename_id a b (X ++ one wa a ++ Y)).
      + apply mrun_note1. constructor. intros H. apply in_app_or in H. destruct H as [H|H]; [auto|].
        apply in_app_or in H. destruct H as [H|H]; [|auto].
        destruct wa; cbn in H; [|contradiction]. destruct H as [H|[]]. auto.
      + rewrite !rename_id_app, (rename_id_notin a b X HaX), (rename_id_notin a b Y HaY).
        destruct wa; cbn; [rewrite id_eqb_refl|]; reflexivity. }
  assert (R2 : mrun (X ++ one wa b ++ Y, c, i) (if Bool.eqb wb wa then [] else [if wb then NMemberUp b else NMemberDown b])
                    (X ++ one wb b ++ Y, c, i)).
  { destruct wa, wb; cbn [Bool.eqb one app].
    - apply mr_nil.
    - replace (X ++ Y) with (remove_id b (X ++ b :: Y)).
      + apply mrun_note1. constructor. apply in_or_app. right. left. reflexivity.
      + rewrite remove_id_app. cbn. rewrite id_eqb_refl. cbn.
        rewrite (remove_id_notin b X HbX). fold (remove_id b Y). rewrite (remove_id_notin b Y HbY). reflexivity.
    - eapply mr_note; [apply ns_up; exact Hb|]. apply mrun_perm. apply Permutation_middle.
    - apply mr_nil. }
  unfold change_notes. eapply mrun_app; eauto.
Qed.
End Ids.

(* ---------- Members level ---------- *)
Section Members.
Context {Id Addr : Type} {IO : IdOps Id Addr} {IL : IdLaws IO}.
Notation member := (member Id).
Notation members := (@members Id).
Implicit Types (m k u : member) (l : list member) (ms : members).

Definition active_ids l : list Id := map m_id (filter m_active l).

Lemma active_ids_app l1 l2 : active_ids (l1 ++ l2) = active_ids l1 ++ active_ids l2.
Proof. unfold active_ids. rewrite filter_app, map_app. reflexivity. Qed.
Lemma active_ids_cons m l : active_ids (m :: l) = one (m_active m) (m_id m) ++ active_ids l.
Proof. unfold active_ids, one. cbn. destruct (m_active m); reflexivity. Qed.
Lemma active_ids_perm l l' : Permutation l l' -> Permutation (active_ids l) (active_ids l').
Proof. intros P. unfold active_ids. apply Permutation_map, perm_filter, P. Qed.
Lemma active_ids_len l : len (active_ids l) = nact l.
Proof. unfold active_ids, nact, len. rewrite map_length. reflexivity. Qed.

Lemma active_ids_addr l x : In x (active_ids l) -> exists m, In m l /\ m_id m = x.
Proof.
  unfold active_ids. intros H. apply in_map_iff in H. destruct H as (m & E & H).
  apply filter_In in H. exists m. tauto.
Qed.

(* what handle_apply_summary notifies *)
Definition summary_notes (sm : @summary Id) (id : Id) : list (notification Id) :=
  (match s_conflict sm with Replaced old => [NRename old id] | _ => [] end) ++
  (if changed_active_set sm then [if is_active_now sm then NMemberUp id else NMemberDown id] else []).

Definition MU ms : Prop := uniq (inner ms) /\ num_active ms = nact (inner ms).

Lemma uniq_others l1 k l2 m :
  uniq (l1 ++ k :: l2) -> In m (l1 ++ l2) -> maddr m <> maddr k.
Proof.
  unfold uniq. rewrite map_app. cbn. intros U Hin E.
  apply NoDup_remove_2 in U. apply U. rewrite <- map_app, <- E. apply in_map. exact Hin.
Qed.

Lemma apply_existing_if_mirror ms u cond ms' sm c i :
  MU ms -> apply_existing_if ms u cond = Some (ms', sm) ->
  MU ms' /\ mrun (active_ids (inner ms), c, i) (summary_notes sm (m_id u)) (active_ids (inner ms'), c, i).
Proof.
  intros [U C]. unfold apply_existing_if.
  destruct (find_index _ (inner ms)) as [p|] eqn:F; [|discriminate].
  destruct (find_index_lookup _ _ _ F) as (k & Hp & Hk). rewrite Hp.
  assert (Ek : maddr k = maddr u) by (apply lookup_Some_In in Hk; tauto).
  destruct (negb (id_eqb (m_id k) (m_id u)) && wins (m_id k) (m_id u)).
  { intros E. inversion E; subst. split; [split; auto|]. cbn. apply mr_nil. }
  destruct (negb (cond k)).
  { intros E. inversion E; subst. split; [split; auto|].
    unfold summary_notes. cbn. destruct (negb (id_eqb (m_id k) (m_id u))); cbn; apply mr_nil. }
  set (known' := if negb (id_eqb (m_id k) (m_id u)) then _ else _).
  destruct known' as [[k' ok] cf] eqn:EK.
  intros E. inversion E; subst ms' sm. clear E.
  destruct (set_nth_split p k' (inner ms) k Hp) as (l1 & l2 & EL & ES & _).
  assert (Ak : maddr k' = maddr k /\
               summary_notes (mkSummary (m_active k') ok (negb (Bool.eqb (m_active k') (m_active k))) cf) (m_id u)
               = change_notes (m_id k) (m_id k') (m_active k) (m_active k')).
  { subst known'. unfold summary_notes, change_notes. cbn [s_conflict changed_active_set is_active_now].
    destruct (negb (id_eqb (m_id k) (m_id u))) eqn:Conf.
    - inversion EK; subst. cbn [m_id]. split; [cbn; auto|].
      apply negb_true_iff in Conf. rewrite Conf.
      destruct (Bool.eqb _ _); reflexivity.
    - apply negb_false_iff in Conf. pose proof Conf as Conf'. apply id_eqb_eq in Conf'.
      unfold change_state in EK.
      destruct (can_change k (m_inc u) (m_state u)); inversion EK; subst; cbn [m_id];
        rewrite ?id_eqb_refl; (split; [reflexivity|]); rewrite <- Conf';
        destruct (Bool.eqb _ _); reflexivity. }
  destruct Ak as [Ak SN].
  split.
  - split; cbn [inner num_active].
    + unfold uniq. erewrite map_set_nth_same; eauto.
    + pose proof (nact_set_nth _ p k k' Hp) as Hn.
      assert (Ink : In k (inner ms)) by (apply lookup_Some_In in Hk; tauto).
      assert (Pos : m_active k = true -> 0 < nact (inner ms)) by (apply nact_pos_of_active; auto).
      destruct (m_active k') eqn:A', (m_active k) eqn:A; cbn; try lia.
  - cbn [inner]. rewrite SN, ES, EL. rewrite !active_ids_app, !active_ids_cons.
    rewrite EL in U.
    apply change_run.
    + intros H. rewrite <- active_ids_app in H. apply active_ids_addr in H. destruct H as (m & Hin & E).
      apply (uniq_others _ _ _ _ U Hin). unfold maddr. rewrite E. reflexivity.
    + intros H. rewrite <- active_ids_app in H. apply active_ids_addr in H. destruct H as (m & Hin & E).
      apply (uniq_others _ _ _ _ U Hin). rewrite <- Ak. unfold maddr. rewrite E. reflexivity.
Qed.

Variable rnd : oracle.

Lemma members_apply_mirror ms u n c i :
  MU ms ->
  let r := members_apply rnd ms u n in
  MU (fst (fst r)) /\
  mrun (active_ids (inner ms), c, i) (summary_notes (snd (fst r)) (m_id u)) (active_ids (inner (fst (fst r))), c, i).
Proof.
  intros H. unfold members_apply.
  destruct (apply_existing_if ms u (fun _ => true)) as [[ms' s]|] eqn:E.
  - cbn. eapply apply_existing_if_mirror; eauto.
  - cbn [fst snd]. destruct H as [U C].
    pose proof (apply_existing_if_true_spec ms u U) as S. rewrite E in S.
    set (l := inner ms ++ [u]).
    assert (P : Permutation (swap l (N.to_nat (below (len l) (rnd n (RChoose (len l))))) (length l - 1)) l)
      by apply swap_perm.
    assert (Ul : uniq l).
    { unfold uniq, l. rewrite map_app. cbn. apply NoDup_app_one; auto.
      intros Hin. apply in_map_iff in Hin. destruct Hin as (m & Em & Hin).
      eapply lookup_None in S; eauto. }
    split.
    + split; cbn [inner num_active].
      * eapply uniq_perm; [symmetry; exact P|exact Ul].
      * rewrite (nact_perm _ _ P). unfold l. rewrite nact_app, nact_cons. unfold nact at 2. cbn.
        rewrite C. unfold len. cbn [length]. destruct (m_active u); lia.
    + cbn [inner]. unfold summary_notes. cbn [s_conflict changed_active_set is_active_now app].
      assert (Q : Permutation (one (m_active u) (m_id u) ++ active_ids (inner ms))
                              (active_ids (swap l (N.to_nat (below (len l) (rnd n (RChoose (len l))))) (length l - 1)))).
      { etransitivity; [|apply active_ids_perm; symmetry; exact P].
        unfold l. rewrite active_ids_app, active_ids_cons. cbn [active_ids filter map]. rewrite app_nil_r.
        apply Permutation_app_comm. }
      destruct (m_active u) eqn:A.
      * eapply mr_note; [|apply mrun_perm; exact Q]. apply ns_up.
        intros Hin. apply active_ids_addr in Hin. destruct Hin as (m & Hin & Em).
        pose proof (proj1 (lookup_None _ _) S m Hin) as Ne. apply Ne. unfold maddr. rewrite Em. reflexivity.
      * apply mrun_perm. exact Q.
Qed.

Lemma remove_if_down_mirror ms id :
  MU ms -> MU (fst (remove_if_down ms id)) /\
           Permutation (active_ids (inner ms)) (active_ids (inner (fst (remove_if_down ms id)))).
Proof.
  intros [U C]. unfold remove_if_down.
  destruct (find_index _ (inner ms)) as [p|] eqn:F; cbn [fst]; [|split; [split; auto|reflexivity]].
  destruct (find_index_Some _ _ _ F) as (x & Hx & Px & _).
  apply andb_true_iff in Px. destruct Px as [_ Dx].
  assert (Sx : m_state x = Down) by (destruct (m_state x); cbn in Dx; congruence).
  pose proof (swap_remove_perm (inner ms) p x Hx) as P.
  assert (Ax : m_active x = false) by (unfold m_active; rewrite Sx; reflexivity).
  split.
  - split; cbn [inner num_active].
    + eapply uniq_sub. eapply uniq_perm; [symmetry; exact P|exact U].
    + rewrite C. rewrite <- (nact_perm _ _ P). rewrite nact_cons, Ax. lia.
  - cbn [inner]. etransitivity; [apply active_ids_perm; symmetry; exact P|].
    rewrite active_ids_cons, Ax. reflexivity.
Qed.

Lemma members_next_mirror ms n :
  MU ms -> MU (fst (fst (members_next rnd ms n))) /\
           Permutation (active_ids (inner ms)) (active_ids (inner (fst (fst (members_next rnd ms n))))).
Proof.
  intros [U C]. unfold members_next.
  destruct (len (inner ms) <=? cursor ms).
  - set (inn := apply_perm _ (inner ms)).
    assert (P : Permutation (inner ms) inn) by (symmetry; apply apply_perm_perm).
    destruct (match find_index m_active (skipn (N.to_nat 0) inn) with
              | Some p => Some (p + N.to_nat 0)%nat
              | None => find_index m_active (firstn (N.to_nat 0) inn) end); cbn [fst inner num_active];
      (split; [split; [eapply uniq_perm; eauto|rewrite C; apply nact_perm; exact P]|apply active_ids_perm; exact P]).
  - destruct (match find_index m_active (skipn (N.to_nat (cursor ms)) (inner ms)) with
              | Some p => Some (p + N.to_nat (cursor ms))%nat
              | None => find_index m_active (firstn (N.to_nat (cursor ms)) (inner ms)) end); cbn [fst inner num_active];
      (split; [split; auto|reflexivity]).
Qed.

End Members.

(* ---------- the pass over the model's monadic code ---------- *)
Section Pass.
Context {Id Addr : Type} {IO : IdOps Id Addr} {CO : CodecOps Id} {HO : HandlerOps Id} {IL : IdLaws IO}.
Variable rnd : oracle.
Notation member := (member Id).
Notation foca := (@foca Id Addr HO).
Notation rs := (@rs Id Addr HO).
Notation M := (@M Id Addr HO).
Notation effect := (effect Id).
Notation "x <- m ;; f" := (bind m (fun x => f)) (at level 61, m at next level, right associativity).
Notation "m ;;; f" := (bind m (fun _ => f)) (at level 61, right associativity).

Definition notes_of (es : list effect) : list (notification Id) :=
  flat_map (fun e => match e with Notify n => [n] | _ => [] end) es.
Lemma notes_of_app e1 e2 : notes_of (e1 ++ e2) = notes_of e1 ++ notes_of e2.
Proof. unfold notes_of. apply flat_map_app. Qed.

Definition abs (f : foca) : astate := (active_ids (inner (mems f)), conn f, identity f).
Definition MUs (s : rs) : Prop := MU (mems (st s)).
Definition rel (s s' : rs) : Prop :=
  exists new, out s' = out s ++ new /\ mrun (abs (st s)) (notes_of new) (abs (st s')).

Lemma rel_refl s : rel s s.
Proof. exists []. split; [symmetry; apply app_nil_r|apply mr_nil]. Qed.
Lemma rel_trans s1 s2 s3 : rel s1 s2 -> rel s2 s3 -> rel s1 s3.
Proof.
  intros (n1 & O1 & R1) (n2 & O2 & R2). exists (n1 ++ n2). split.
  - rewrite O2, O1, app_assoc. reflexivity.
  - rewrite notes_of_app. eapply mrun_app; eauto.
Qed.

Definition mirP {A} (m : M A) (s : rs) : Prop := MUs s -> MUs (fst (m s)) /\ rel s (fst (m s)).
Definition mir {A} (m : M A) : Prop := forall s, mirP m s.

Lemma mirP_ext {A} (m m' : M A) s : m s = m' s -> mirP m' s -> mirP m s.
Proof. unfold mirP. intros ->. auto. Qed.

Lemma mirP_bind {A B} (m : M A) (f : A -> M B) s :
  mirP m s -> (forall a, mirP (f a) (fst (m s))) -> mirP (bind m f) s.
Proof.
  intros Hm Hf U. destruct (Hm U) as [U1 R1]. unfold bind.
  destruct (m s) as [s1 [a|e|p]] eqn:E; cbn [fst] in *; auto.
  destruct (Hf a U1) as [U2 R2]. split; [exact U2|eapply rel_trans; eauto].
Qed.

Lemma mir_bind {A B} (m : M A) (f : A -> M B) : mir m -> (forall a, mir (f a)) -> mir (bind m f).
Proof. intros Hm Hf s. apply mirP_bind; [apply Hm|]. intros a. apply Hf. Qed.

Lemma bind_assoc {A B C} (m : M A) (f : A -> M B) (g : B -> M C) s :
  bind (bind m f) g s = bind m (fun a => bind (f a) g) s.
Proof. unfold bind. destruct (m s) as [s1 [a|e|p]]; reflexivity. Qed.

Lemma mir_ret {A} (a : A) : mir (@ret Id Addr HO A a).
Proof. intros s U. split; [exact U|apply rel_refl]. Qed.
Lemma mir_fail {A} e : mir (@fail Id Addr HO A e).
Proof. intros s U. split; [exact U|apply rel_refl]. Qed.
Lemma mir_panic {A} p : mir (@panic Id Addr HO A p).
Proof. intros s U. split; [exact U|apply rel_refl]. Qed.
Lemma mir_when b (m : M unit) : mir m -> mir (when b m).
Proof. destruct b; cbn; auto. intros _. apply mir_ret. Qed.
Lemma mir_forM {A} (l : list A) (f : A -> M unit) : (forall x, mir (f x)) -> mir (forM_ l f).
Proof. intros H. induction l as [|x t IH]; cbn [forM_]; [apply mir_ret|]. apply mir_bind; auto. Qed.
Lemma mir_attempt (m : M unit) : mir m -> mir (attempt m).
Proof.
  intros H s U. destruct (H s U) as [U1 R1]. unfold attempt.
  destruct (m s) as [s1 [a|e|p]]; cbn [fst] in *; auto.
Qed.
Lemma mir_get_bind {B} (body : foca -> M B) : (forall s, mirP (body (st s)) s) -> mir (f <- get ;; body f).
Proof. intros H s. unfold bind, get. cbn. apply H. Qed.

Lemma mirP_get {B} (body : foca -> M B) s : mirP (body (st s)) s -> mirP (f <- get ;; body f) s.
Proof. unfold mirP, bind, get. cbn. auto. Qed.
Lemma mirP_after_modify {B} g (rest : M B) s :
  (MUs s -> MUs (fst (rest (mkRs (g (st s)) (out s) (ctr s)))) /\ rel s (fst (rest (mkRs (g (st s)) (out s) (ctr s))))) ->
  mirP (modify g ;;; rest) s.
Proof. unfold mirP, bind, modify. cbn. auto. Qed.

(* computations that neither touch members / connection state / identity nor notify *)
Definition quiet {A} (m : M A) : Prop :=
  forall s, mems (st (fst (m s))) = mems (st s) /\ conn (st (fst (m s))) = conn (st s)
            /\ identity (st (fst (m s))) = identity (st s)
            /\ exists new, out (fst (m s)) = out s ++ new /\ notes_of new = [].

Lemma quiet_mir {A} (m : M A) : quiet m -> mir m.
Proof.
  intros Q s U. destruct (Q s) as (E1 & E2 & E3 & new & O & N). split.
  - unfold MUs. rewrite E1. exact U.
  - exists new. split; [exact O|]. rewrite N. unfold abs. rewrite E1, E2, E3. apply mr_nil.
Qed.

Lemma quiet_bind {A B} (m : M A) (f : A -> M B) : quiet m -> (forall a, quiet (f a)) -> quiet (bind m f).
Proof.
  intros Hm Hf s. destruct (Hm s) as (E1 & E2 & E3 & n1 & O1 & N1). unfold bind.
  destruct (m s) as [s1 [a|e|p]]; cbn [fst] in *; try (repeat split; auto; exists n1; auto).
  destruct (Hf a s1) as (F1 & F2 & F3 & n2 & O2 & N2).
  repeat split; try congruence. exists (n1 ++ n2). split.
  - rewrite O2, O1, app_assoc. reflexivity.
  - rewrite notes_of_app, N1, N2. reflexivity.
Qed.
Lemma quiet_same {A} (r : res A) : quiet (fun s => (s, r)).
Proof. intros s. cbn. repeat split; auto. exists []. split; [symmetry; apply app_nil_r|reflexivity]. Qed.
Lemma quiet_ret {A} (a : A) : quiet (@ret Id Addr HO A a). Proof. apply quiet_same. Qed.
Lemma quiet_fail {A} e : quiet (@fail Id Addr HO A e). Proof. apply quiet_same. Qed.
Lemma quiet_panic {A} p : quiet (@panic Id Addr HO A p). Proof. apply quiet_same. Qed.
Lemma quiet_get : quiet (@get Id Addr HO).
Proof. intros s. cbn. repeat split; auto. exists []. split; [symmetry; apply app_nil_r|reflexivity]. Qed.
Lemma quiet_num_sends : quiet (@num_sends Id Addr HO).
Proof. intros s. cbn. repeat split; auto. exists []. split; [symmetry; apply app_nil_r|reflexivity]. Qed.
Lemma quiet_modify g :
  (forall f, mems (g f) = mems f /\ conn (g f) = conn f /\ identity (g f) = identity f) -> quiet (@modify Id Addr HO g).
Proof.
  intros H s. cbn. destruct (H (st s)) as (A1 & A2 & A3). repeat split; auto.
  exists []. split; [symmetry; apply app_nil_r|reflexivity].
Qed.
Lemma quiet_emit e : (match e with Notify _ => False | _ => True end) -> quiet (@emit Id Addr HO e).
Proof.
  intros H s. cbn. repeat split; auto. exists [e]. split; [reflexivity|].
  destruct e; cbn; auto. contradiction.
Qed.
Lemma quiet_ask r : quiet (ask rnd r).
Proof. intros s. cbn. repeat split; auto. exists []. split; [symmetry; apply app_nil_r|reflexivity]. Qed.
Lemma quiet_with_ctr {A} (g : N -> A * N) : quiet (with_ctr g).
Proof.
  intros s. unfold with_ctr. destruct (g (ctr s)) as [a k]. cbn. repeat split; auto.
  exists []. split; [symmetry; apply app_nil_r|reflexivity].
Qed.
Lemma quiet_when b (m : M unit) : quiet m -> quiet (when b m).
Proof. destruct b; cbn; auto. intros _. apply quiet_ret. Qed.
Lemma quiet_forM {A} (l : list A) (f : A -> M unit) : (forall x, quiet (f x)) -> quiet (forM_ l f).
Proof. intros H. induction l as [|x t IH]; cbn [forM_]; [apply quiet_ret|]. apply quiet_bind; auto. Qed.

Ltac qmod := apply quiet_modify; intros ?; repeat split; reflexivity.

Lemma quiet_add_update m : quiet (@add_update Id Addr IO CO HO m).
Proof. unfold add_update. qmod. Qed.
Lemma quiet_add_custom key data : quiet (@add_custom Id Addr HO key data).
Proof. unfold add_custom. qmod. Qed.
Lemma quiet_choose_active wanted picker : quiet (choose_active rnd wanted picker).
Proof. unfold choose_active. apply quiet_bind; [apply quiet_get|]. intros f. apply quiet_with_ctr. Qed.

Lemma quiet_feed_loop l : forall room count acc, quiet (@feed_loop Id Addr CO HO l room count acc).
Proof.
  induction l as [|m t IH]; intros room count acc; cbn [feed_loop]; [apply quiet_ret|].
  destruct (room <? len (enc_mem m)); [apply quiet_ret|].
  destruct (count =? u16_max); [apply quiet_panic|apply IH].
Qed.

Lemma quiet_send_message dst msg : quiet (send_message rnd dst msg).
Proof.
  unfold send_message. apply quiet_bind; [apply quiet_get|]. intros f.
  destruct (negb (send_cap f =? max_packet_size (cfg f))); [apply quiet_panic|].
  destruct (max_packet_size (cfg f) <? len (enc_hdr _)); [apply quiet_fail|].
  apply quiet_bind; [apply quiet_num_sends|]. intros idx.
  apply quiet_bind.
  - unfold send_body. destruct (needs_piggyback msg && _); [|apply quiet_ret].
    destruct (piggyback_only_active msg).
    + apply quiet_bind.
      { unfold estimate_feed_capacity. destruct (_ =? 0); [apply quiet_panic|apply quiet_ret]. }
      intros cap. apply quiet_bind; [apply quiet_choose_active|].
      intros chosen. apply quiet_bind; [apply quiet_feed_loop|]. intros [[c b] l]. apply quiet_ret.
    + apply quiet_bind; [apply quiet_get|]. intros f0.
      destruct (updates f0); [apply quiet_ret|].
      apply quiet_bind; [apply quiet_ask|]. intros hint.
      destruct (fill_gen Addr 0 hint _ _ _) as [[[w n] kept] p].
      destruct p; [apply quiet_panic|].
      apply quiet_bind; [qmod|intros; apply quiet_ret].
  - intros [body room3]. apply quiet_bind; [|intros; apply quiet_emit; exact I].
    unfold send_customs. apply quiet_bind; [apply quiet_get|]. intros f1.
    destruct (_ && _ && _); [|apply quiet_ret].
    destruct (customs f1); [apply quiet_ret|].
    apply quiet_bind; [apply quiet_ask|]. intros hint.
    destruct (fill_gen hkey 2 hint _ _ _) as [[[w n] kept] p].
    destruct p; [apply quiet_panic|].
    apply quiet_bind; [qmod|intros; apply quiet_ret].
Qed.

Lemma quiet_choose_and_send n msg : quiet (choose_and_send rnd n msg).
Proof.
  unfold choose_and_send. apply quiet_bind; [apply quiet_choose_active|]. intros chosen.
  apply quiet_forM. intros m. apply quiet_send_message.
Qed.
Lemma quiet_gossip : quiet (gossip rnd).
Proof. unfold gossip. apply quiet_bind; [apply quiet_get|]. intros f. apply quiet_choose_and_send. Qed.
Lemma quiet_announce_to_down n : quiet (announce_to_down rnd n).
Proof.
  unfold announce_to_down. apply quiet_bind; [apply quiet_get|]. intros f.
  apply quiet_bind; [apply quiet_with_ctr|]. intros chosen. apply quiet_forM. intros m. apply quiet_send_message.
Qed.
Lemma quiet_submit_periodic p t : quiet (@submit_periodic Id Addr HO p t).
Proof. unfold submit_periodic. destruct p as [[freq n]|]; [apply quiet_emit; exact I|apply quiet_ret]. Qed.

Lemma quiet_broadcast_loop l : quiet (broadcast_loop rnd l).
Proof.
  induction l as [|m t IH]; cbn [broadcast_loop]; [apply quiet_ret|].
  apply quiet_bind; [apply quiet_send_message|]. intros _.
  apply quiet_bind; [apply quiet_get|]. intros f. destruct (customs f); [apply quiet_ret|apply IH].
Qed.
Lemma quiet_broadcast : quiet (broadcast rnd).
Proof.
  unfold broadcast. apply quiet_bind; [apply quiet_get|]. intros f.
  destruct (customs f); [apply quiet_ret|].
  apply quiet_bind; [apply quiet_choose_active|]. intros chosen. apply quiet_broadcast_loop.
Qed.

Lemma quiet_add_broadcast data : quiet (@add_broadcast Id Addr HO data).
Proof.
  unfold add_broadcast. apply quiet_bind; [apply quiet_get|]. intros f.
  destruct data as [|b0 bs]; [apply quiet_fail|].
  destruct (_ || _); [apply quiet_fail|].
  destruct (h_recv (hst f) (b0 :: bs) None) as [h' r].
  apply quiet_bind; [qmod|]. intros _.
  destruct r as [[key|]|]; [|apply quiet_ret|apply quiet_fail].
  apply quiet_bind; [apply quiet_add_custom|intros; apply quiet_ret].
Qed.

Lemma quiet_custom_loop sender fuel : forall data, quiet (@custom_loop Id Addr HO fuel data sender).
Proof.
  induction fuel as [|fuel IH]; intros data; cbn [custom_loop].
  - destruct data; [apply quiet_ret|apply quiet_fail].
  - destruct (2 <? len data); [|destruct data; [apply quiet_ret|apply quiet_fail]].
    destruct (get_u16 data) as [[pkt_len rest]|]; [|apply quiet_fail].
    destruct (_ || _); [apply quiet_fail|].
    apply quiet_bind; [apply quiet_get|]. intros f.
    destruct (h_recv (hst f) _ sender) as [h' r].
    apply quiet_bind; [qmod|]. intros _.
    apply quiet_bind; [|intros; apply IH].
    destruct r as [[key|]|]; [apply quiet_add_custom|apply quiet_ret|apply quiet_fail].
Qed.
Lemma quiet_handle_custom_broadcasts data sender : quiet (@handle_custom_broadcasts Id Addr HO data sender).
Proof.
  unfold handle_custom_broadcasts. destruct data; [apply quiet_ret|].
  destruct (_ <? 3); [apply quiet_fail|apply quiet_custom_loop].
Qed.

Lemma quiet_indirect_loop probed l : quiet (indirect_loop rnd probed l).
Proof.
  unfold indirect_loop. apply quiet_forM. intros m. apply quiet_bind; [apply quiet_get|]. intros f.
  destruct (probe_expect_indirect_ack (prb f) (m_id m)); [|apply quiet_panic].
  apply quiet_bind; [qmod|]. intros _. apply quiet_send_message.
Qed.

Lemma quiet_set_config c : quiet (@set_config Id Addr HO c).
Proof.
  unfold set_config. apply quiet_bind; [apply quiet_get|]. intros f.
  destruct (_ || _ || _ || _ || _); [apply quiet_fail|].
  apply quiet_bind; [apply quiet_when; qmod|]. intros _. qmod.
Qed.

(* ---- connection state ---- *)
Lemma MU_count_pos (s : rs) : MUs s -> 0 < num_active (mems (st s)) -> active_ids (inner (mems (st s))) <> [].
Proof.
  intros [_ C] H E. rewrite C, <- active_ids_len, E in H. unfold len in H. cbn [length] in H. lia.
Qed.
Lemma MU_count_zero (s : rs) : MUs s -> num_active (mems (st s)) = 0 -> active_ids (inner (mems (st s))) = [].
Proof.
  intros [_ C] H. rewrite C, <- active_ids_len in H. destruct (active_ids _); [reflexivity|].
  unfold len in H. cbn [length] in H. lia.
Qed.

Lemma mirP_become_connected s : conn (st s) = Disconnected -> mirP (@become_connected Id Addr HO) s.
Proof.
  intros Cn. unfold become_connected. apply mirP_get.
  destruct (num_active (mems (st s)) =? 0) eqn:Z; [apply mir_panic|].
  apply mirP_after_modify. intros U.
  assert (NE : active_ids (inner (mems (st s))) <> []) by (apply MU_count_pos; [exact U|lia]).
  unfold bind, emit, submit_periodic, ret.
  destruct (periodic_announce (cfg (st s))) as [[? ?]|], (periodic_announce_down (cfg (st s))) as [[? ?]|],
           (periodic_gossip (cfg (st s))) as [[? ?]|]; unfold emit; cbn [fst st out ctr];
    (split; [exact U|]; eexists; split; [cbn [out]; rewrite <- !app_assoc; reflexivity|];
     unfold abs; cbn; rewrite Cn; apply mrun_note1; constructor; exact NE).
Qed.

Lemma mirP_become_disconnected s : conn (st s) = Connected -> mirP (@become_disconnected Id Addr HO) s.
Proof.
  intros Cn. unfold become_disconnected. apply mirP_get.
  destruct (negb (num_active (mems (st s)) =? 0)) eqn:Z; [apply mir_panic|].
  apply mirP_after_modify. intros U.
  assert (EM : active_ids (inner (mems (st s))) = []) by (apply MU_count_zero; [exact U|lia]).
  unfold emit. cbn [fst st out]. split; [exact U|].
  exists [Notify NIdle]. split; [reflexivity|]. unfold abs. cbn. rewrite Cn, EM.
  apply mrun_note1. constructor.
Qed.

Lemma mir_adjust : mir (@adjust_connection_state Id Addr HO).
Proof.
  unfold adjust_connection_state. apply mir_get_bind. intros s.
  destruct (conn (st s)) eqn:Cn.
  - destruct (0 <? _); cbn [when]; [apply mirP_become_connected; exact Cn|apply mir_ret].
  - destruct (_ =? 0); cbn [when]; [apply mirP_become_disconnected; exact Cn|apply mir_ret].
  - apply mir_ret.
Qed.

Lemma mir_become_undead : mir (@become_undead Id Addr HO).
Proof.
  intros s. unfold become_undead. apply mirP_after_modify. intros U.
  unfold emit. cbn [fst st out]. split; [exact U|].
  exists [Notify NDefunct]. split; [reflexivity|]. unfold abs. cbn. apply mrun_note1. constructor.
Qed.

(* ---- one application of an update ---- *)
Definition hsum_state (sm : @summary Id) (u : member) (b : bool) (f : foca) : foca :=
  if apply_successful sm && b
  then set_updates f (add_or_replace Addr addr_eqb (updates f) (addr_of (m_id u)) (enc_mem u) (max_tx f))
  else f.
Definition hsum_out (sm : @summary Id) (u : member) (f : foca) : list effect :=
  (if apply_successful sm && negb (is_active_now sm) then [Submit (TRemoveDown (m_id u)) (remove_down_after (cfg f))] else [])
  ++ (match s_conflict sm with Replaced old => [Notify (NRename old (m_id u))] | _ => [] end)
  ++ (if changed_active_set sm then [Notify (if is_active_now sm then NMemberUp (m_id u) else NMemberDown (m_id u))] else []).

Lemma hsum_eq sm u b (s : rs) :
  handle_apply_summary sm u b s = (mkRs (hsum_state sm u b (st s)) (out s ++ hsum_out sm u (st s)) (ctr s), ROk tt).
Proof.
  destruct s as [f o k]. destruct sm as [now ok ch cf].
  unfold handle_apply_summary, hsum_state, hsum_out, add_update, when, bind, get, modify, emit, ret.
  cbn [apply_successful is_active_now changed_active_set s_conflict st out ctr].
  destruct ok, b, now, cf, ch; cbn [andb negb app cfg set_updates st out ctr]; rewrite <- ?app_assoc, ?app_nil_r; reflexivity.
Qed.

Lemma hsum_notes sm u f : notes_of (hsum_out sm u f) = summary_notes sm (m_id u).
Proof.
  unfold hsum_out, summary_notes. rewrite !notes_of_app.
  destruct (apply_successful sm && negb (is_active_now sm)), (s_conflict sm), (changed_active_set sm); reflexivity.
Qed.

(* storing the new membership and handling its summary, as one unit *)
Lemma mirP_store ms sm u b (s : rs) :
  (MU ms /\ mrun (active_ids (inner (mems (st s))), conn (st s), identity (st s)) (summary_notes sm (m_id u))
                 (active_ids (inner ms), conn (st s), identity (st s))) ->
  mirP (modify (fun f => set_mems f ms) ;;; handle_apply_summary sm u b) s.
Proof.
  intros [Um R]. apply mirP_after_modify. intros U. rewrite hsum_eq. cbn [fst st out ctr].
  assert (E : mems (hsum_state sm u b (set_mems (st s) ms)) = ms /\
              conn (hsum_state sm u b (set_mems (st s) ms)) = conn (st s) /\
              identity (hsum_state sm u b (set_mems (st s) ms)) = identity (st s)).
  { unfold hsum_state. destruct (apply_successful sm && b); repeat split; reflexivity. }
  destruct E as (E1 & E2 & E3). split.
  - unfold MUs. cbn [st]. rewrite E1. exact Um.
  - exists (hsum_out sm u (set_mems (st s) ms)). split; [reflexivity|].
    rewrite hsum_notes. unfold abs. cbn [st]. rewrite E1, E2, E3. exact R.
Qed.

Lemma mirP_chain {A} (m m' : M A) s s1 :
  (MUs s -> MUs s1 /\ rel s s1) -> m s = m' s1 -> mirP m' s1 -> mirP m s.
Proof.
  intros H E G U. destruct (H U) as [U1 R1]. rewrite E. destruct (G U1) as [U2 R2]. split; [exact U2|eapply rel_trans; eauto].
Qed.

Lemma mir_apply_update u b : mir (apply_update rnd u b).
Proof.
  unfold apply_update. apply mir_get_bind. intros s.
  destruct (id_eqb (identity (st s)) (m_id u)); [apply mir_panic|].
  intros U.
  pose proof (members_apply_mirror rnd (mems (st s)) u (ctr s) (conn (st s)) (identity (st s)) U) as HM. cbv zeta in HM.
  revert U. change (mirP (r <- with_ctr (fun k => let '(ms, s0, k') := members_apply rnd (mems (st s)) u k in ((ms, s0), k')) ;;
                          let '(ms, s0) := r in
                          modify (fun f => set_mems f ms) ;;; handle_apply_summary s0 u b ;;;
                          ret (match s_conflict s0 with Lost | FailedCondition => false | _ => is_active_now s0 end)) s).
  destruct (members_apply rnd (mems (st s)) u (ctr s)) as [[ms sm] k'] eqn:EX. cbn [fst snd] in HM.
  eapply (mirP_chain _ ((modify (fun f => set_mems f ms) ;;; handle_apply_summary sm u b) ;;;
                         ret (match s_conflict sm with Lost | FailedCondition => false | _ => is_active_now sm end))
                     s (mkRs (st s) (out s) k')).
  - intros U. split; [exact U|]. exists []. split; [symmetry; apply app_nil_r|apply mr_nil].
  - unfold bind at 1, with_ctr at 1. rewrite EX. cbn [fst snd]. rewrite bind_assoc. reflexivity.
  - apply mirP_bind; [apply mirP_store; exact HM|]. intros _. apply mir_ret.
Qed.

(* ---- identity changes ---- *)
Lemma id_neq_of_eqb (x y : Id) : id_eqb x y = false -> y <> x.
Proof. intros H E. subst. rewrite id_eqb_refl in H. discriminate. Qed.

Lemma mir_change_identity new_id : mir (change_identity rnd new_id).
Proof.
  unfold change_identity. apply mir_get_bind. intros s.
  destruct (id_eqb (identity (st s)) new_id) eqn:E; [apply mir_fail|].
  apply mirP_after_modify. intros U.
  (* modify set_identity ; reset : one silent move of the machine *)
  set (s2 := mkRs (set_prb (set_token (set_incarnation (set_conn (set_identity (st s) new_id) Disconnected) 0)
                                      (wrap8 (token (set_identity (st s) new_id) + 1)))
                           (probe_clear (prb (set_identity (st s) new_id)))) (out s) (ctr s)).
  set (rest := when (negb (conn_eqb (conn (st s)) Undead)) (add_update (mkMember (identity (st s)) 0 Down)) ;;; gossip rnd).
  assert (Hrest : mir rest).
  { subst rest. apply mir_bind; [apply mir_when, quiet_mir, quiet_add_update|]. intros _. apply quiet_mir, quiet_gossip. }
  assert (U2 : MUs s2) by exact U.
  assert (R02 : rel s s2).
  { exists []. split; [symmetry; apply app_nil_r|]. unfold abs. cbn.
    apply mrun_tau1. apply tau_newid. apply id_neq_of_eqb. exact E. }
  match goal with |- MUs (fst (?m ?x)) /\ _ => assert (EQ : m x = rest s2) by reflexivity end.
  rewrite EQ. destruct (Hrest s2 U2) as [U3 R3]. split; [exact U3|eapply rel_trans; eauto].
Qed.

Lemma mirP_rejoin_tail new_id (s : rs) :
  id_eqb (identity (st s)) new_id = false ->
  mirP (change_identity rnd new_id ;;; emit (Notify (NRejoin new_id)) ;;; ret true) s.
Proof.
  intros E. apply mirP_bind; [apply mir_change_identity|]. intros _.
  destruct (change_identity_state rnd s new_id E) as (u0 & c0 & Es).
  set (s1 := fst (change_identity rnd new_id s)) in *.
  assert (C1 : conn (st s1) = Disconnected) by (rewrite Es; reflexivity).
  assert (I1 : identity (st s1) = new_id) by (rewrite Es; reflexivity).
  intros U1. unfold bind, emit, ret. cbn [fst st out]. split; [exact U1|].
  exists [Notify (NRejoin new_id)]. split; [reflexivity|]. unfold abs. cbn [st]. rewrite C1, I1.
  apply mrun_note1. constructor.
Qed.

Lemma mir_attempt_rejoin : mir (attempt_rejoin rnd).
Proof.
  unfold attempt_rejoin. apply mir_get_bind. intros s.
  destruct (renew (identity (st s))) as [new_id|]; [|apply mir_ret].
  destruct (id_eqb (identity (st s)) new_id) eqn:E; [apply mir_ret|].
  destruct (negb (wins new_id (identity (st s)))); [apply mir_ret|].
  apply mirP_rejoin_tail. exact E.
Qed.

Lemma mir_handle_self_update inc st0 : mir (handle_self_update rnd inc st0).
Proof.
  unfold handle_self_update. destruct st0.
  - apply mir_ret.
  - apply mir_get_bind. intros s. destruct (_ =? u16_max).
    + apply mir_bind; [apply mir_attempt_rejoin|]. intros b. apply mir_when, mir_become_undead.
    + apply mir_bind; [apply mir_when, quiet_mir; qmod|]. intros _.
      apply mir_get_bind. intros s1. apply mir_when, quiet_mir, quiet_gossip.
  - apply mir_bind; [apply mir_attempt_rejoin|]. intros b. apply mir_when, mir_become_undead.
Qed.

Lemma mir_apply_one b u : mir (apply_one rnd b u).
Proof.
  unfold apply_one. apply mir_get_bind. intros s.
  destruct (id_eqb (m_id u) (identity (st s))); [apply mir_handle_self_update|].
  destruct (addr_eqb _ _); (apply mir_bind; [apply mir_apply_update|intros; apply mir_ret]).
Qed.

Lemma mir_apply_many l b : mir (apply_many rnd l b).
Proof.
  unfold apply_many. apply mir_bind; [apply mir_forM; intros; apply mir_apply_one|]. intros _. apply mir_adjust.
Qed.

Lemma mir_leave_cluster : mir (leave_cluster rnd).
Proof.
  unfold leave_cluster. apply mir_get_bind. intros s.
  apply mir_bind; [apply quiet_mir, quiet_add_update|]. intros _.
  apply mir_bind; [apply quiet_mir, quiet_gossip|]. intros _. apply mir_become_undead.
Qed.

Lemma mir_reuse : mir (@reuse_down_identity Id Addr HO).
Proof.
  unfold reuse_down_identity. apply mir_get_bind. intros s.
  destruct (conn (st s)) eqn:Cn; cbn [conn_eqb negb]; try apply mir_fail.
  intros U. unfold reset, modify. cbn [fst st out]. split; [exact U|].
  exists []. split; [symmetry; apply app_nil_r|]. unfold abs. cbn. rewrite Cn. apply mrun_tau1. apply tau_reuse.
Qed.

(* ---- timers ---- *)
Lemma mirP_existing ms sm u b cond (s : rs) (rest : M unit) :
  apply_existing_if (mems (st s)) u cond = Some (ms, sm) -> mir rest ->
  mirP (modify (fun f => set_mems f ms) ;;; handle_apply_summary sm u b ;;; rest) s.
Proof.
  intros E Hr U.
  pose proof (apply_existing_if_mirror (mems (st s)) u cond ms sm (conn (st s)) (identity (st s)) U E) as HM.
  revert U. eapply mirP_ext; [symmetry; apply bind_assoc|].
  apply mirP_bind; [apply mirP_store; exact HM|]. intros _. apply Hr.
Qed.

Lemma mirP_next (rest : option member -> M unit) (s : rs) :
  (forall c, mir (rest c)) ->
  mirP (r <- with_ctr (fun k => let '(ms, m, k') := members_next rnd (mems (st s)) k in ((ms, m), k')) ;;
        let '(ms, chosen) := r in modify (fun f => set_mems f ms) ;;; rest chosen) s.
Proof.
  intros Hr U. pose proof (members_next_mirror rnd (mems (st s)) (ctr s) U) as [Un Pn]. revert U.
  destruct (members_next rnd (mems (st s)) (ctr s)) as [[ms m] k'] eqn:EN. cbn [fst snd] in Un, Pn.
  eapply (mirP_chain _ (rest m) s (mkRs (set_mems (st s) ms) (out s) k')).
  - intros U. split; [exact Un|]. exists []. split; [symmetry; apply app_nil_r|].
    unfold abs. cbn. apply mrun_perm. exact Pn.
  - unfold bind at 1, with_ctr at 1. rewrite EN. reflexivity.
  - apply Hr.
Qed.

Lemma mir_probe_random_member : mir (probe_random_member rnd).
Proof.
  unfold probe_random_member. apply mir_get_bind. intros s.
  destruct (negb (conn_eqb (conn (st s)) Connected)); [apply mir_panic|].
  apply mirP_bind; [apply mir_when, quiet_mir; qmod|]. intros _.
  apply mir_get_bind. intros s1.
  destruct (probe_take_failed (prb (st s1))) as [p' failed].
  apply mirP_bind; [apply quiet_mir; qmod|]. intros _.
  apply mirP_bind.
  { destruct failed as [fm|]; [|apply mir_ret].
    apply mirP_get.
    destruct (apply_existing_if _ _ _) as [[ms sm]|] eqn:E; [|apply mir_ret].
    eapply mirP_existing; [exact E|].
    apply mir_get_bind. intros s3. apply mir_when, quiet_mir, quiet_emit. exact I. }
  intros _. apply mir_get_bind. intros s2.
  apply (mirP_next (fun chosen =>
    match chosen with
    | Some m =>
        f <- get ;;
        let '(p'0, n) := probe_start (prb f) m in
        modify (fun f0 => set_prb f0 p'0) ;;;
        send_message rnd (m_id m) (Ping n) ;;;
        f0 <- get ;;
        emit (Submit (TSendIndirectProbe (m_id m) (token f0)) (probe_rtt (cfg f0)))
    | None => ret tt
    end ;;;
    f <- get ;;
    emit (Submit (TProbeRandomMember (token f)) (probe_period (cfg f))) ;;;
    (if negb (probe_validate (prb (st s))) then fail EIncompleteProbeCycle else ret tt))).
  intros chosen. apply mir_bind.
  - destruct chosen as [m|]; [|apply mir_ret]. apply mir_get_bind. intros s3.
    destruct (probe_start (prb (st s3)) m) as [p'0 n].
    apply mirP_bind; [apply quiet_mir; qmod|]. intros _.
    apply mirP_bind; [apply quiet_mir, quiet_send_message|]. intros _.
    apply mir_get_bind. intros s4. apply quiet_mir, quiet_emit. exact I.
  - intros _. apply mir_get_bind. intros s3.
    apply mirP_bind; [apply quiet_mir, quiet_emit; exact I|]. intros _.
    destruct (negb _); [apply mir_fail|apply mir_ret].
Qed.

Lemma mir_handle_timer t : mir (handle_timer rnd t).
Proof.
  unfold handle_timer. apply mir_get_bind. intros s. destruct t as [tok|probed tok|mid inc tok|tok|tok|tok|down].
  - destruct (tok =? token (st s)); [|apply mir_ret].
    destruct (negb (conn_eqb _ _)); [apply mir_fail|apply mir_probe_random_member].
  - destruct (negb (tok =? token (st s))); [apply mir_ret|].
    apply mirP_bind; [apply quiet_mir; qmod|]. intros _.
    destruct (negb (probe_is_probing _ _)); [apply mir_ret|].
    destruct (probe_succeeded _); [apply mir_ret|].
    destruct (negb (is_active_id _ _)); [apply mir_ret|].
    apply mirP_bind; [apply quiet_mir, quiet_choose_active|]. intros chosen. apply quiet_mir, quiet_indirect_loop.
  - destruct (negb (token (st s) =? tok)); [apply mir_ret|].
    destruct (apply_existing_if _ _ _) as [[ms sm]|] eqn:E; [|apply mir_ret].
    eapply mirP_existing; [exact E|].
    apply mir_bind; [apply mir_adjust|]. intros _. apply mir_when, quiet_mir, quiet_send_message.
  - destruct (periodic_guard _ _); [|apply mir_ret].
    destruct (periodic_announce _) as [[freq n]|]; [|apply mir_ret].
    apply mirP_bind; [apply quiet_mir, quiet_emit; exact I|]. intros _. apply quiet_mir, quiet_choose_and_send.
  - destruct (periodic_guard _ _); [|apply mir_ret].
    destruct (periodic_announce_down _) as [[freq n]|]; [|apply mir_ret].
    apply mirP_bind; [apply quiet_mir, quiet_emit; exact I|]. intros _. apply quiet_mir, quiet_announce_to_down.
  - destruct (periodic_guard _ _); [|apply mir_ret].
    destruct (periodic_gossip _) as [[freq n]|]; [|apply mir_ret].
    apply mirP_bind; [apply quiet_mir, quiet_emit; exact I|]. intros _.
    destruct (updates (st s)), (customs (st s)); try apply mir_ret; apply quiet_mir, quiet_choose_and_send.
  - intros U. unfold modify. cbn [fst st out].
    destruct (remove_if_down_mirror (mems (st s)) down U) as [U1 P1]. split; [exact U1|].
    exists []. split; [symmetry; apply app_nil_r|]. unfold abs. cbn. apply mrun_perm. exact P1.
Qed.

Lemma mir_react src msg : mir (react rnd src msg).
Proof.
  unfold react. apply mir_get_bind. intros s.
  destruct msg; try (apply quiet_mir, quiet_send_message); try (apply quiet_mir; qmod); try apply mir_ret;
    try (destruct (id_eqb _ _); [apply mir_fail|]; first [apply quiet_mir, quiet_send_message|apply quiet_mir; qmod]).
  apply mir_handle_self_update.
Qed.

Lemma mir_handle_data data : mir (handle_data rnd data).
Proof.
  unfold handle_data. apply mir_get_bind. intros s.
  destruct (_ <? len data); [apply mir_fail|].
  destruct (dec_hdr data) as [[h rest]|]; [|apply mir_fail].
  destruct (_ || _); [apply mir_fail|].
  destruct (_ || _); [apply mir_fail|].
  destruct (negb (accept_payload _ _)); [apply mir_ret|].
  apply mirP_bind.
  { destruct (_ && _); [|apply mir_ret].
    destruct (get_u16 rest) as [[n r]|]; [|apply mir_fail].
    destruct (dec_members _ _); [apply mir_ret|apply mir_fail]. }
  intros [ul tail].
  apply mirP_bind; [apply mir_apply_update|]. intros sender_is_active.
  destruct (negb sender_is_active).
  - apply mir_get_bind. intros s0.
    apply mirP_bind; [apply mir_when, mir_handle_self_update|]. intros _.
    apply mir_get_bind. intros s1. apply mir_when, quiet_mir, quiet_send_message.
  - apply mirP_bind; [apply mir_apply_many|]. intros _.
    apply mirP_bind; [apply mir_attempt, quiet_mir, quiet_handle_custom_broadcasts|]. intros cres.
    apply mir_get_bind. intros s1.
    destruct (negb (conn_eqb _ _)).
    + destruct cres; [apply mir_fail|apply mir_ret].
    + apply mirP_bind; [apply mir_react|]. intros _. destruct cres; [apply mir_fail|apply mir_ret].
Qed.

(* ---------- every call ---------- *)
Lemma run_unit_mirror (m : M unit) (f : foca) :
  mir m -> MU (mems f) ->
  let '(f', es, _, _) := run_unit m f in MU (mems f') /\ mrun (abs f) (notes_of es) (abs f').
Proof.
  intros H U. unfold run_unit. specialize (H (mkRs f [] 0) U).
  destruct (m (mkRs f [] 0)) as [s' r]. cbn [fst] in H. destruct H as [U' (new & O & R)].
  cbn [out app] in O. rewrite O. split; [exact U'|exact R].
Qed.

Theorem step_mirror (f : foca) (i : @input Id) :
  MU (mems f) ->
  let '(f', es, _, _) := step rnd f i in MU (mems f') /\ mrun (abs f) (notes_of es) (abs f').
Proof.
  intros U. destruct i; cbn [step].
  - apply run_unit_mirror; [apply mir_handle_data|exact U].
  - apply run_unit_mirror; [apply mir_handle_timer|exact U].
  - apply run_unit_mirror; [apply mir_apply_many|exact U].
  - apply run_unit_mirror; [apply quiet_mir, quiet_send_message|exact U].
  - apply run_unit_mirror; [apply quiet_mir, quiet_gossip|exact U].
  - apply run_unit_mirror; [apply quiet_mir, quiet_broadcast|exact U].
  - apply run_unit_mirror; [apply mir_leave_cluster|exact U].
  - apply run_unit_mirror; [apply mir_change_identity|exact U].
  - apply run_unit_mirror; [apply mir_reuse|exact U].
  - apply run_unit_mirror; [apply quiet_mir, quiet_set_config|exact U].
  - unfold run_bool. pose proof (quiet_mir _ (quiet_add_broadcast b) (mkRs f [] 0) U) as H.
    destruct (add_broadcast b (mkRs f [] 0)) as [s' r]. cbn [fst] in H. destruct H as [U' (new & O & R)].
    cbn [out app] in O. rewrite O. split; [exact U'|exact R].
Qed.

End Pass.

(* ---------- the literal "replay" reading of the property, and whole histories ---------- *)
Section Replay.
Context {Id Addr : Type} {IO : IdOps Id Addr} {CO : CodecOps Id} {HO : HandlerOps Id} {IL : IdLaws IO}.
Notation foca := (@foca Id Addr HO).

Definition memb (x : Id) (l : list Id) : bool := existsb (id_eqb x) l.

Lemma memb_In x l : memb x l = true <-> In x l.
Proof.
  unfold memb. rewrite existsb_exists. split.
  - intros (y & Hy & E). apply id_eqb_eq in E. subst. exact Hy.
  - intros H. exists x. split; [exact H|apply id_eqb_refl].
Qed.

(* what a user tracking the cluster from notifications alone does *)
Definition note_set (n : notification Id) (l : list Id) : option (list Id) :=
  match n with
  | NMemberUp x => if memb x l then None else Some (x :: l)       (* never for a member already up *)
  | NMemberDown x => if memb x l then Some (remove_id x l) else None  (* never for one that is not *)
  | NRename a b => Some (rename_id a b l)
  | _ => Some l
  end.
Fixpoint replay (ns : list (notification Id)) (l : list Id) : option (list Id) :=
  match ns with
  | [] => Some l
  | n :: t => match note_set n l with Some l' => replay t l' | None => None end
  end.

Lemma memb_perm x l l' : Permutation l l' -> memb x l = memb x l'.
Proof.
  intros P. destruct (memb x l) eqn:E1, (memb x l') eqn:E2; try reflexivity.
  - apply memb_In in E1. assert (In x l') by (eapply Permutation_in; eauto). apply memb_In in H. congruence.
  - apply memb_In in E2. assert (In x l) by (eapply Permutation_in; [symmetry|]; eauto). apply memb_In in H. congruence.
Qed.

Definition ids_of (a : @astate Id) : list Id := fst (fst a).

Lemma tau_ids (a b : @astate Id) : tau a b -> Permutation (ids_of a) (ids_of b).
Proof. intros T. destruct T; cbn; auto. Qed.

Lemma nstep_note_set (a : @astate Id) n (b : @astate Id) l0 :
  nstep a n b -> Permutation l0 (ids_of a) ->
  exists r, note_set n l0 = Some r /\ Permutation r (ids_of b).
Proof.
  intros S P. destruct S; cbn [ids_of fst note_set] in *; try (eexists; split; [reflexivity|exact P]).
  - rewrite (memb_perm x _ _ P). destruct (memb x l) eqn:E; [apply memb_In in E; contradiction|].
    eexists. split; [reflexivity|]. constructor. exact P.
  - rewrite (memb_perm x _ _ P). destruct (memb x l) eqn:E.
    + eexists. split; [reflexivity|]. unfold remove_id. apply perm_filter. exact P.
    + exfalso. apply memb_In in H. congruence.
  - eexists. split; [reflexivity|]. unfold rename_id. apply Permutation_map. exact P.
Qed.

Lemma mrun_replay (a : @astate Id) ns (b : @astate Id) :
  mrun a ns b -> forall l0, Permutation l0 (ids_of a) -> exists r, replay ns l0 = Some r /\ Permutation r (ids_of b).
Proof.
  induction 1 as [q|q q2 q3 ns T _ IH|q n q2 q3 ns S _ IH]; intros l0 P.
  - exists l0. split; [reflexivity|exact P].
  - apply IH. etransitivity; [exact P|apply tau_ids; exact T].
  - destruct (nstep_note_set _ _ _ l0 S P) as (r1 & E1 & P1).
    destruct (IH r1 P1) as (r & E & Pr). exists r. split; [|exact Pr]. cbn [replay]. rewrite E1. exact E.
Qed.

Lemma uniq_active_NoDup (l : list (member Id)) : uniq l -> NoDup (active_ids l).
Proof.
  unfold uniq, active_ids. induction l as [|m l IH]; cbn; intros U; [constructor|].
  inversion U as [|? ? Hn U']; subst. destruct (m_active m); cbn; [constructor|]; auto.
  intros Hin. apply Hn. apply in_map_iff in Hin. destruct Hin as (m' & E & Hin).
  apply filter_In in Hin. apply in_map_iff. exists m'. split; [unfold maddr; rewrite E; reflexivity|tauto].
Qed.

(* histories: any inputs (legal or not), any oracle at every step *)
Inductive hist (id0 : Id) (c0 : config) (h0 : hstate) : foca -> list (notification Id) -> Prop :=
| H_init : hist id0 c0 h0 (foca_init id0 c0 h0) []
| H_step f ns i rnd :
    hist id0 c0 h0 f ns ->
    hist id0 c0 h0 (fst (fst (fst (step rnd f i)))) (ns ++ notes_of (snd (fst (fst (step rnd f i))))).

Theorem hist_mirror id0 c0 h0 f ns :
  hist id0 c0 h0 f ns ->
  MU (mems f) /\ mrun ([], Disconnected, id0) ns (abs f).
Proof.
  induction 1 as [|f ns i rnd _ [U R]].
  - split; [split; [constructor|reflexivity]|apply mr_nil].
  - pose proof (step_mirror rnd f i U) as H. destruct (step rnd f i) as [[[f' es] r] k]. cbn [fst snd].
    destruct H as [U' R']. split; [exact U'|eapply mrun_app; eauto].
Qed.


(* adjust_connection_state, exactly *)
Lemma adjust_idle (s : @rs Id Addr HO) :
  conn (st s) = Connected -> num_active (mems (st s)) = 0 ->
  adjust_connection_state s =
  (mkRs (set_prb (set_token (set_conn (st s) Disconnected) (wrap8 (token (st s) + 1))) (probe_clear (prb (st s))))
        (out s ++ [Notify NIdle]) (ctr s), ROk tt).
Proof.
  intros C Z. unfold adjust_connection_state, bind at 1, get at 1. cbv beta iota. rewrite C, Z. rewrite N.eqb_refl. cbn [when].
  unfold become_disconnected, bind at 1, get at 1. cbv beta iota. rewrite Z. rewrite N.eqb_refl. reflexivity.
Qed.

Lemma adjust_stays_connected (s : @rs Id Addr HO) :
  conn (st s) = Connected -> 0 < num_active (mems (st s)) -> adjust_connection_state s = (s, ROk tt).
Proof.
  intros C Z. unfold adjust_connection_state, bind at 1, get at 1. cbv beta iota. rewrite C.
  destruct (num_active (mems (st s)) =? 0) eqn:E; [lia|reflexivity].
Qed.

Lemma adjust_stays_idle (s : @rs Id Addr HO) :
  conn (st s) = Disconnected -> num_active (mems (st s)) = 0 -> adjust_connection_state s = (s, ROk tt).
Proof. intros C Z. unfold adjust_connection_state, bind at 1, get at 1. cbv beta iota. rewrite C, Z. change (0 <? 0) with false. reflexivity. Qed.

Lemma adjust_undead (s : @rs Id Addr HO) :
  conn (st s) = Undead -> adjust_connection_state s = (s, ROk tt).
Proof. intros C. unfold adjust_connection_state, bind at 1, get at 1. cbv beta iota. rewrite C. reflexivity. Qed.

Lemma adjust_active (s : @rs Id Addr HO) :
  conn (st s) = Disconnected -> 0 < num_active (mems (st s)) ->
  exists timers,
    adjust_connection_state s = (mkRs (set_conn (st s) Connected) (out s ++ timers ++ [Notify NActive]) (ctr s), ROk tt)
    /\ notes_of timers = [].
Proof.
  intros C Z. unfold adjust_connection_state, bind at 1, get at 1. cbv beta iota. rewrite C.
  destruct (0 <? num_active (mems (st s))) eqn:E; [|lia]. cbn [when].
  unfold become_connected, bind at 1, get at 1. cbv beta iota.
  destruct (num_active (mems (st s)) =? 0) eqn:E0; [lia|].
  exists ([Submit (TProbeRandomMember (token (st s))) (probe_period (cfg (st s)))]
          ++ (match periodic_announce (cfg (st s)) with Some (fr, _) => [Submit (TPeriodicAnnounce (token (st s))) fr] | None => [] end)
          ++ (match periodic_announce_down (cfg (st s)) with Some (fr, _) => [Submit (TPeriodicAnnounceDown (token (st s))) fr] | None => [] end)
          ++ (match periodic_gossip (cfg (st s)) with Some (fr, _) => [Submit (TPeriodicGossip (token (st s))) fr] | None => [] end)).
  unfold bind, modify, emit, submit_periodic, ret.
  destruct (periodic_announce (cfg (st s))) as [[? ?]|], (periodic_announce_down (cfg (st s))) as [[? ?]|],
           (periodic_gossip (cfg (st s))) as [[? ?]|]; unfold emit; cbn [fst st out ctr app];
    (split; [rewrite <- ?app_assoc; reflexivity|reflexivity]).
Qed.

End Replay.
