(* Inv.v — the master invariant WF of a Foca instance, and its preservation
   (together with: the own address never changes, no debug assertion / overflow
   is ever hit, every destination chosen by Foca has a foreign address) by
   every public call.  Used by C06, C09, C15, C16, C19. *)
From Foca Require Import Laws L_Lists MembersM ProbeM BcastM FocaM L_Members L_MembersInv L_Bcast L_Fill Hoare.

Section Inv.
Context {Id Addr : Type} {IO : IdOps Id Addr} {CO : CodecOps Id} {HO : HandlerOps Id}.
Context {IL : IdLaws IO}.
Variable rnd : oracle.

Notation member := (member Id).
Notation foca := (@foca Id Addr HO).
Notation rs := (@rs Id Addr HO).
Notation M := (@M Id Addr HO).
Notation effect := (effect Id).
Notation "x <- m ;; f" := (bind m (fun x => f)) (at level 61, m at next level, right associativity).
Notation "m ;;; f" := (bind m (fun _ => f)) (at level 61, right associativity).

(* extra laws on user-supplied parts used below *)
Class ExtraLaws : Prop := {
  renew_addr : forall x y : Id, renew x = Some y -> addr_of y = addr_of x;
  enc_mem_nonempty' : forall m : member, 1 <= len (enc_mem m);
  (* decoders never invent input: what they leave is still a string of bytes *)
  dec_hdr_rest : forall b h r, Forall (fun x => x < 256) b -> dec_hdr b = Some (h, r) -> Forall (fun x => x < 256) r;
  dec_mem_rest : forall b m r, Forall (fun x => x < 256) b -> dec_mem b = Some (m, r) -> Forall (fun x => x < 256) r
  (* the handler is unconstrained *)
}.
Context {EL : ExtraLaws}.

Definition periodic_ok (p : option (N * N)) : Prop :=
  match p with Some (_, n) => 1 <= n | None => True end.

(* legal configurations (NonZero* types) + B6 (packet fits a u16 count) *)
Record cfg_ok (c : config) : Prop := {
  c_tx : 1 <= max_transmissions c <= 255;
  c_ind : 1 <= num_indirect_probes c;
  c_pkt : 1 <= max_packet_size c <= u16_max;
  c_pa : periodic_ok (periodic_announce c);
  c_pd : periodic_ok (periodic_announce_down c);
  c_pg : periodic_ok (periodic_gossip c)
}.

Definition upd_ok (e : @entry Addr) : Prop := 1 <= e_tx e /\ exists m : member, e_data e = enc_mem m.
Definition cus_ok (e : @entry hkey) : Prop := 1 <= e_tx e /\ 1 <= len (e_data e) <= u16_max.

Definition probe_ok (a0 : Addr) (p : probe Id) : Prop :=
  match p_direct p with
  | Some m => maddr m <> a0
  | None => True
  end.

Record WF (f : foca) : Prop := {
  wf_mi : MI (addr_of (identity f)) (mems f);
  wf_cap : send_cap f = max_packet_size (cfg f);
  wf_cfg : cfg_ok (cfg f);
  wf_upd : Forall upd_ok (updates f);
  wf_updk : NoDup (map e_key (updates f));   (* at most one pending update per address *)
  wf_cus : Forall cus_ok (customs f);
  wf_probe : probe_ok (addr_of (identity f)) (prb f)
}.

(* An arbitrary property of emitted effects carried through the whole pass: it must hold
   of everything that is not a datagram, and of the datagram a successful send_message
   from a well-formed state emits (instantiated later: wire format, C07). *)
Variable Qe : effect -> Prop.
Hypothesis Qe_nonsend : forall e : effect, is_send e = false -> Qe e.

(* destinations Foca may use: foreign addresses, or identities named by the caller / a peer *)
Definition dst_ok (a0 : Addr) (al : Id -> Prop) (e : effect) : Prop :=
  match e with
  | Send d _ => addr_of d <> a0 \/ al d
  | _ => True
  end /\ Qe e.

Definition RI (a0 : Addr) (al : Id -> Prop) (s : rs) : Prop :=
  WF (st s) /\ addr_of (identity (st s)) = a0 /\ Forall (dst_ok a0 al) (out s).

Definition keeps {A} (P : rs -> Prop) (m : M A) : Prop := triple False P m (fun _ => P) P.

Lemma keeps_bind {A B} P (m : M A) (f : A -> M B) :
  keeps P m -> (forall a, keeps P (f a)) -> keeps P (bind m f).
Proof. intros Hm Hf. eapply t_bind; [exact Hm|]. intros a. apply Hf. Qed.

Lemma keeps_ret {A} P (a : A) : keeps P (ret a).
Proof. intros s Ps. exact Ps. Qed.

Lemma keeps_fail {A} P e : keeps P (@fail Id Addr HO A e).
Proof. intros s Ps. exact Ps. Qed.

Lemma keeps_when P b (m : M unit) : keeps P m -> keeps P (when b m).
Proof. intros H. destruct b; cbn; [exact H|apply keeps_ret]. Qed.

Lemma keeps_forM {A} P (l : list A) (f : A -> M unit) :
  (forall x, In x l -> keeps P (f x)) -> keeps P (forM_ l f).
Proof. intros H. apply t_forM. exact H. Qed.

Lemma keeps_get_bind {B} (P : rs -> Prop) (f : foca -> M B) :
  (forall s0, P s0 -> triple False (fun s => s = s0) (f (st s0)) (fun _ => P) P) ->
  keeps P (bind get f).
Proof.
  intros H s Ps. unfold bind, get. specialize (H s Ps s eq_refl). exact H.
Qed.

Lemma keeps_attempt P (m : M unit) : keeps P m -> keeps P (attempt m).
Proof.
  intros H s Ps. unfold attempt. specialize (H s Ps). destruct (m s) as [s' [[]|e|p]]; auto.
Qed.

Lemma keeps_if {A} P (b : bool) (m1 m2 : M A) : keeps P m1 -> keeps P m2 -> keeps P (if b then m1 else m2).
Proof. destruct b; auto. Qed.

(* ctr-blindness of RI *)
Lemma RI_ctr a0 al f o c c' : RI a0 al (mkRs f o c) -> RI a0 al (mkRs f o c').
Proof. intros H. exact H. Qed.

Lemma keeps_ask a0 al r : keeps (RI a0 al) (ask rnd r).
Proof. intros s H. cbn. exact H. Qed.

Lemma keeps_with_ctr {A} a0 al (g : N -> A * N) : keeps (RI a0 al) (with_ctr g).
Proof. intros s H. unfold with_ctr. destruct (g (ctr s)). cbn. exact H. Qed.

Lemma keeps_emit a0 al e : dst_ok a0 al e -> keeps (RI a0 al) (emit e).
Proof.
  intros He s (W & A & O). cbn. (split; [|split]; auto).
  apply Forall_app. split; auto.
Qed.

Lemma keeps_modify a0 al (g : foca -> foca) :
  (forall f, WF f -> addr_of (identity f) = a0 -> WF (g f) /\ addr_of (identity (g f)) = a0) ->
  keeps (RI a0 al) (modify g).
Proof.
  intros Hg s (W & A & O). cbn. destruct (Hg _ W A) as [W' A']. (split; [|split]; auto).
Qed.

Lemma keeps_emit_ns a0 al e : is_send e = false -> keeps (RI a0 al) (emit e).
Proof.
  intros Hn. apply keeps_emit. split; [destruct e; cbn in *; auto; discriminate|apply Qe_nonsend; exact Hn].
Qed.

(* ---- field-wise preservation of WF ---- *)
Lemma WF_set_updates f u : WF f -> Forall upd_ok u -> NoDup (map e_key u) -> WF (set_updates f u).
Proof. intros [] H H2. constructor; auto. Qed.

Lemma WF_set_customs f u : WF f -> Forall cus_ok u -> WF (set_customs f u).
Proof. intros [] H. constructor; auto. Qed.

Lemma WF_set_hst f h : WF f -> WF (set_hst f h).
Proof. intros []. constructor; auto. Qed.

Lemma WF_set_incarnation f i : WF f -> WF (set_incarnation f i).
Proof. intros []. constructor; auto. Qed.

Lemma upd_ok_dec (e : @entry Addr) :
  upd_ok e -> 1 < e_tx e -> upd_ok (mkEntry (e_tx e - 1) (e_data e) (e_key e)).
Proof. unfold upd_ok. cbn. intros [H1 H2] H3. split; [lia|exact H2]. Qed.

Lemma cus_ok_dec (e : @entry hkey) :
  cus_ok e -> 1 < e_tx e -> cus_ok (mkEntry (e_tx e - 1) (e_data e) (e_key e)).
Proof. unfold cus_ok. cbn. lia. Qed.

Lemma add_or_replace_keys (l : backlog Addr) (k : Addr) data tx :
  NoDup (map e_key l) -> NoDup (map e_key (add_or_replace Addr addr_eqb l k data tx)).
Proof.
  intros ND. unfold add_or_replace. rewrite map_app. cbn [map e_key].
  assert (NDf : NoDup (map e_key (filter (fun e => negb (addr_eqb k (e_key e))) l))).
  { clear -ND. induction l as [|a t IH]; cbn; [constructor|].
    cbn in ND. inversion ND as [|? ? Hn Nt]; subst.
    destruct (negb (addr_eqb k (e_key a))); cbn; [|apply IH; exact Nt].
    constructor; [|apply IH; exact Nt].
    intros Hin. apply Hn. apply in_map_iff in Hin. destruct Hin as (x & Ex & Hx).
    apply filter_In in Hx. apply in_map_iff. exists x. tauto. }
  apply NoDup_app_one; auto.
  intros Hin. apply in_map_iff in Hin. destruct Hin as (x & Ex & Hx).
  apply filter_In in Hx. destruct Hx as [_ Hx]. apply negb_true_iff, addr_eqb_neq in Hx. congruence.
Qed.

(* ---- add_update ---- *)
Lemma keeps_add_update a0 al m : keeps (RI a0 al) (add_update m).
Proof.
  apply keeps_modify. intros f W A. split; auto.
  apply WF_set_updates; auto.
  - apply add_or_replace_Forall; [apply wf_upd; auto|].
    unfold upd_ok, max_tx. cbn. destruct (wf_cfg f W). split; [lia|exists m; reflexivity].
  - apply add_or_replace_keys. apply (wf_updk _ W).
Qed.

(* ---- feed_loop: count is bounded by the room consumed ---- *)
Lemma feed_loop_ok a0 al l : forall room count acc,
  count + room < u16_max ->
  keeps (RI a0 al) (feed_loop l room count acc).
Proof.
  induction l as [|m t IH]; intros room count acc B; cbn [feed_loop].
  - apply keeps_ret.
  - destruct (room <? len (enc_mem m)) eqn:R; [apply keeps_ret|].
    destruct (count =? u16_max) eqn:C; [lia|].
    apply IH. pose proof (enc_mem_nonempty' m). lia.
Qed.

(* ---- send_message ---- *)
Lemma keeps_send_body a0 al dst msg maxp room idx :
  room <= u16_max -> (2 < room -> 2 <= maxp - (room - 2)) ->
  keeps (RI a0 al) (send_body rnd dst msg maxp room idx).
Proof.
  intros Hr Hm. unfold send_body.
  destruct (needs_piggyback msg && (2 <? room)) eqn:NP; [|apply keeps_ret].
  apply andb_true_iff in NP. destruct NP as [_ NP].
  assert (Hm' : 2 <= maxp - (room - 2)) by (apply Hm; lia).
  destruct (piggyback_only_active msg).
  - unfold estimate_feed_capacity.
    destruct ((maxp - (room - 2)) / 2 =? 0) eqn:DZ.
    { exfalso. assert (1 <= (maxp - (room - 2)) / 2) by (apply N.div_le_lower_bound; lia). lia. }
    apply keeps_bind; [apply keeps_ret|]. intros cap.
    apply keeps_bind.
    { unfold choose_active. apply keeps_bind; [intros s Hs; exact Hs|]. intros f. apply keeps_with_ctr. }
    intros chosen.
    apply keeps_bind; [apply feed_loop_ok; lia|].
    intros [[cnt fb] rleft]. apply keeps_ret.
  - apply keeps_get_bind. intros s0 (W & A & O).
    assert (KP : forall s, s = s0 -> RI a0 al s) by (intros s ->; split; [|split]; auto).
    eapply t_conseq with (P' := RI a0 al) (R' := fun _ => RI a0 al) (E' := RI a0 al); auto.
    destruct (updates (st s0)) as [|u0 us] eqn:EU; [apply keeps_ret|].
    apply keeps_bind; [apply keeps_ask|]. intros hint.
    assert (NoP : snd (fill_gen Addr 0 hint (u0 :: us) (room - 2) u16_max) = None).
    { apply fill_gen_no_panic. rewrite <- EU. eapply Forall_impl; [|apply (wf_upd _ W)].
      intros e [He _]. split; [exact He|discriminate]. }
    destruct (fill_gen Addr 0 hint (u0 :: us) (room - 2) u16_max) as [[[w n] kept] p] eqn:FG.
    cbn in NoP. subst p.
    apply keeps_bind; [|intros; apply keeps_ret].
    apply keeps_modify. intros f Wf Af. split; auto. apply WF_set_updates; auto.
    + eapply fill_gen_kept; [apply upd_ok_dec| |exact FG]. rewrite <- EU. apply (wf_upd _ W).
    + eapply (fill_gen_keys Addr); [|exact FG]. rewrite <- EU. apply (wf_updk _ W).
Qed.

Lemma keeps_send_customs a0 al dst msg room3 idx :
  keeps (RI a0 al) (send_customs rnd dst msg room3 idx).
Proof.
  unfold send_customs. apply keeps_get_bind. intros s1 (W1 & A1 & O1).
  assert (KP : forall s, s = s1 -> RI a0 al s) by (intros s ->; split; [|split]; auto).
  eapply t_conseq with (P' := RI a0 al) (R' := fun _ => RI a0 al) (E' := RI a0 al); auto.
  destruct ((0 <? room3) && allow_custom_broadcasts msg && h_should_add (hst (st s1)) dst);
    [|apply keeps_ret].
  destruct (customs (st s1)) as [|c0 cs] eqn:EC; [apply keeps_ret|].
  apply keeps_bind; [apply keeps_ask|]. intros hint.
  assert (NoP : snd (fill_gen hkey 2 hint (c0 :: cs) room3 usize_max) = None).
  { apply fill_gen_no_panic. rewrite <- EC. eapply Forall_impl; [|apply (wf_cus _ W1)].
    intros e [He1 He2]. split; [exact He1|lia]. }
  destruct (fill_gen hkey 2 hint (c0 :: cs) room3 usize_max) as [[[w n] kept] p] eqn:FG.
  cbn in NoP. rewrite NoP.
  apply keeps_bind; [|intros; apply keeps_ret].
  apply keeps_modify. intros f Wf Af. split; auto. apply WF_set_customs; auto.
  eapply fill_gen_kept; [apply cus_ok_dec| |exact FG]. rewrite <- EC. apply (wf_cus _ W1).
Qed.

(* send_body / send_customs emit nothing *)
Definition noemit {A} (m : M A) : Prop := forall s, out (fst (m s)) = out s.
Lemma noemit_bind {A B} (m : M A) (f : A -> M B) : noemit m -> (forall a, noemit (f a)) -> noemit (bind m f).
Proof.
  intros Hm Hf s. unfold bind. specialize (Hm s). destruct (m s) as [s' [a|e|p]]; cbn in *; auto.
  rewrite Hf. exact Hm.
Qed.
Lemma noemit_ret {A} (a : A) : noemit (ret a). Proof. intros s. reflexivity. Qed.
Lemma noemit_fail {A} e : noemit (@fail Id Addr HO A e). Proof. intros s. reflexivity. Qed.
Lemma noemit_panic {A} p : noemit (@panic Id Addr HO A p). Proof. intros s. reflexivity. Qed.
Lemma noemit_get : noemit (@get Id Addr HO). Proof. intros s. reflexivity. Qed.
Lemma noemit_modify g : noemit (@modify Id Addr HO g). Proof. intros s. reflexivity. Qed.
Lemma noemit_ask r : noemit (ask rnd r). Proof. intros s. reflexivity. Qed.
Lemma noemit_with_ctr {A} (g : N -> A * N) : noemit (with_ctr g).
Proof. intros s. unfold with_ctr. destruct (g (ctr s)). reflexivity. Qed.
Lemma noemit_feed_loop l : forall room count acc, noemit (feed_loop l room count acc).
Proof.
  induction l as [|m t IH]; intros room count acc; cbn [feed_loop]; [apply noemit_ret|].
  destruct (room <? len (enc_mem m)); [apply noemit_ret|].
  destruct (count =? u16_max); [apply noemit_panic|apply IH].
Qed.

Lemma noemit_send_body dst msg maxp room idx : noemit (send_body rnd dst msg maxp room idx).
Proof.
  unfold send_body. destruct (needs_piggyback msg && _); [|apply noemit_ret].
  destruct (piggyback_only_active msg).
  - apply noemit_bind.
    { unfold estimate_feed_capacity. destruct (_ =? 0); [apply noemit_panic|apply noemit_ret]. }
    intros cap. apply noemit_bind.
    { unfold choose_active. apply noemit_bind; [apply noemit_get|]. intros f1. apply noemit_with_ctr. }
    intros chosen. apply noemit_bind; [apply noemit_feed_loop|]. intros [[c b] l]. apply noemit_ret.
  - apply noemit_bind; [apply noemit_get|]. intros f0.
    destruct (updates f0); [apply noemit_ret|].
    apply noemit_bind; [apply noemit_ask|]. intros hint.
    destruct (fill_gen Addr 0 hint _ _ _) as [[[w n] kept] p].
    destruct p; [apply noemit_panic|].
    apply noemit_bind; [apply noemit_modify|intros; apply noemit_ret].
Qed.

Lemma noemit_send_customs dst msg room3 idx : noemit (send_customs rnd dst msg room3 idx).
Proof.
  unfold send_customs. apply noemit_bind; [apply noemit_get|]. intros f1.
  destruct (_ && _ && _); [|apply noemit_ret].
  destruct (customs f1); [apply noemit_ret|].
  apply noemit_bind; [apply noemit_ask|]. intros hint.
  destruct (fill_gen hkey 2 hint _ _ _) as [[[w n] kept] p].
  destruct p; [apply noemit_panic|].
  apply noemit_bind; [apply noemit_modify|intros; apply noemit_ret].
Qed.

(* the shape of send_message once the header fits *)
Lemma send_message_unfold dst msg (s : rs) :
  send_cap (st s) = max_packet_size (cfg (st s)) ->
  len (enc_hdr (mkHeader (identity (st s)) (incarnation (st s)) dst msg)) <= max_packet_size (cfg (st s)) ->
  send_message rnd dst msg s =
  match send_body rnd dst msg (max_packet_size (cfg (st s)))
                  (max_packet_size (cfg (st s)) - len (enc_hdr (mkHeader (identity (st s)) (incarnation (st s)) dst msg)))
                  (len (filter is_send (out s))) s with
  | (s1, ROk (body, room3)) =>
      match send_customs rnd dst msg room3 (len (filter is_send (out s))) s1 with
      | (s2, ROk cust) =>
          (mkRs (st s2)
                (out s2 ++ [Send dst (enc_hdr (mkHeader (identity (st s)) (incarnation (st s)) dst msg) ++ body ++ cust)])
                (ctr s2), ROk tt)
      | (s2, RErr e) => (s2, RErr e)
      | (s2, RPanic p) => (s2, RPanic p)
      end
  | (s1, RErr e) => (s1, RErr e)
  | (s1, RPanic p) => (s1, RPanic p)
  end.
Proof.
  intros Cap Fit. unfold send_message, bind at 1, get at 1. rewrite Cap, N.eqb_refl. cbn [negb].
  replace (max_packet_size (cfg (st s)) <? len (enc_hdr _)) with false by lia.
  unfold bind at 1, num_sends at 1. unfold bind at 1.
  destruct (send_body rnd dst msg _ _ _ s) as [s1 [[body room3]|e|p]]; reflexivity.
Qed.

(* the datagram emitted by a successful send_message from a well-formed state has property Qe *)
Hypothesis Qe_send : forall dst msg (s : rs),
  WF (st s) ->
  match send_message rnd dst msg s with
  | (s', ROk _) => forall b, out s' = out s ++ [Send dst b] -> Qe (Send dst b)
  | _ => True
  end.

Lemma keeps_send_message a0 al dst msg :
  (addr_of dst <> a0 \/ al dst) -> keeps (RI a0 al) (send_message rnd dst msg).
Proof.
  intros Hd. intros s H. pose proof H as (W & A & O).
  pose proof (Qe_send dst msg s W) as HQ.
  set (hb := enc_hdr (mkHeader (identity (st s)) (incarnation (st s)) dst msg)) in *.
  destruct (max_packet_size (cfg (st s)) <? len hb) eqn:Fit.
  { unfold send_message, bind at 1, get at 1. rewrite (wf_cap _ W), N.eqb_refl. cbn [negb].
    fold hb. rewrite Fit. exact H. }
  assert (Fit' : len hb <= max_packet_size (cfg (st s))) by lia.
  rewrite (send_message_unfold dst msg s (wf_cap _ W) Fit') in HQ |- *. fold hb in HQ |- *.
  pose proof (wf_cfg _ W) as CF. destruct CF as [_ _ [P1 P2] _ _ _].
  pose proof (keeps_send_body a0 al dst msg (max_packet_size (cfg (st s)))
                (max_packet_size (cfg (st s)) - len hb) (len (filter is_send (out s)))
                ltac:(lia) ltac:(lia) s H) as K1.
  pose proof (noemit_send_body dst msg (max_packet_size (cfg (st s)))
                (max_packet_size (cfg (st s)) - len hb) (len (filter is_send (out s))) s) as N1.
  destruct (send_body rnd dst msg _ _ _ s) as [s1 [[body room3]|e|p]]; cbn [fst] in N1; cbv beta iota in K1 |- *; auto.
  pose proof (keeps_send_customs a0 al dst msg room3 (len (filter is_send (out s))) s1 K1) as K2.
  pose proof (noemit_send_customs dst msg room3 (len (filter is_send (out s))) s1) as N2.
  destruct (send_customs rnd dst msg room3 _ s1) as [s2 [cust|e|p]]; cbn [fst] in N2; cbv beta iota in K2 |- *; auto.
  destruct K2 as (W2 & A2 & O2).
  split; [exact W2|split; [exact A2|]].
  apply Forall_app. split; [exact O2|]. constructor; [|constructor].
  split; [exact Hd|]. apply HQ. cbn. rewrite N2, N1. reflexivity.
Qed.

Lemma WF_same f f' :
  WF f ->
  addr_of (identity f') = addr_of (identity f) -> mems f' = mems f -> send_cap f' = send_cap f ->
  cfg f' = cfg f -> updates f' = updates f -> customs f' = customs f ->
  probe_ok (addr_of (identity f)) (prb f') ->
  WF f'.
Proof.
  intros [] E1 E2 E3 E4 E5 E6 P. constructor; rewrite ?E1, ?E2, ?E3, ?E4, ?E5, ?E6; auto.
Qed.

Lemma probe_ok_clear a0 p : probe_ok a0 (probe_clear p).
Proof. exact I. Qed.

Lemma active_foreign a0 ms m :
  MI a0 ms -> In m (inner ms) -> m_active m = true -> addr_of (m_id m) <> a0.
Proof.
  intros [_ _ O] Hin A E. specialize (O m Hin E). unfold m_active in A. rewrite O in A. discriminate.
Qed.

Lemma RI_out a0 al f o c extra :
  WF f -> addr_of (identity f) = a0 -> Forall (dst_ok a0 al) o -> Forall (dst_ok a0 al) extra ->
  RI a0 al (mkRs f (o ++ extra) c).
Proof. intros W A O X. split; [|split]; auto. apply Forall_app. auto. Qed.

(* ---- choose_active: every chosen member is an active record satisfying the picker ---- *)
Lemma choose_active_spec a0 al wanted picker :
  triple False (RI a0 al) (choose_active rnd wanted picker)
         (fun chosen s => RI a0 al s /\
                          forall m, In m chosen -> In m (inner (mems (st s))) /\ m_active m = true /\ picker (m_id m) = true)
         (RI a0 al).
Proof.
  intros s H. unfold choose_active, bind, get, with_ctr.
  destruct (choose_active_members rnd (mems (st s)) wanted picker (ctr s)) as [chosen k] eqn:E. cbn.
  split; [exact H|]. intros m Hm.
  assert (Hm' : In m (fst (choose_active_members rnd (mems (st s)) wanted picker (ctr s)))) by (rewrite E; exact Hm).
  apply choose_members_spec in Hm'. destruct Hm' as [Hin Hp]. apply andb_true_iff in Hp. tauto.
Qed.

Lemma keeps_choose_and_send a0 al n msg : keeps (RI a0 al) (choose_and_send rnd n msg).
Proof.
  unfold choose_and_send. eapply t_bind; [apply choose_active_spec|].
  intros chosen.
  (* the loop invariant must remember that chosen members are foreign: addresses are
     fixed properties of the chosen records, so establish it before the loop *)
  intros s [H Hc].
  assert (F : forall m, In m (rev chosen) -> addr_of (m_id m) <> a0).
  { intros m Hm. apply in_rev in Hm. destruct (Hc m Hm) as (Hin & A & _).
    destruct H as (W & Ad & _). rewrite <- Ad. eapply active_foreign; eauto. apply (wf_mi _ W). }
  apply (keeps_forM (RI a0 al) (rev chosen)); [|exact H].
  intros m Hm. apply keeps_send_message. left. apply F. exact Hm.
Qed.

Lemma keeps_gossip a0 al : keeps (RI a0 al) (gossip rnd).
Proof.
  unfold gossip. apply keeps_bind; [intros s H; exact H|]. intros f. apply keeps_choose_and_send.
Qed.

Lemma keeps_announce_to_down a0 al n : keeps (RI a0 al) (announce_to_down rnd n).
Proof.
  unfold announce_to_down. intros s H. unfold bind at 1. unfold get at 1.
  unfold bind at 1. unfold with_ctr.
  destruct (choose_down_members_if rnd (mems (st s)) n _ (ctr s)) as [chosen k] eqn:E.
  assert (F : forall m, In m (rev chosen) -> addr_of (m_id m) <> a0).
  { intros m Hm. apply in_rev in Hm.
    assert (Hm' : In m (fst (choose_down_members_if rnd (mems (st s)) n
                      (fun c => negb (addr_eqb (addr_of c) (addr_of (identity (st s))))) (ctr s))))
      by (rewrite E; exact Hm).
    apply choose_members_spec in Hm'. destruct Hm' as [_ Hp].
    apply andb_true_iff in Hp. destruct Hp as [_ Hp]. apply negb_true_iff, addr_eqb_neq in Hp.
    destruct H as (_ & Ad & _). congruence. }
  apply (keeps_forM (RI a0 al) (rev chosen)).
  - intros m Hm. apply keeps_send_message. left. apply F. exact Hm.
  - exact H.
Qed.

(* ---- connection state ---- *)
Lemma keeps_reset a0 al : keeps (RI a0 al) reset.
Proof.
  apply keeps_modify. intros f W A. split; auto.
  eapply WF_same; eauto. apply probe_ok_clear.
Qed.

Lemma keeps_become_undead a0 al : keeps (RI a0 al) become_undead.
Proof.
  unfold become_undead. apply keeps_bind.
  - apply keeps_modify. intros f W A. split; auto. eapply WF_same; eauto. apply probe_ok_clear.
  - intros _. apply keeps_emit_ns; reflexivity.
Qed.

Lemma keeps_submit_periodic a0 al p t : keeps (RI a0 al) (submit_periodic p t).
Proof. unfold submit_periodic. destruct p as [[fq n]|]; [apply keeps_emit_ns; reflexivity|apply keeps_ret]. Qed.

Ltac run_keeps H :=
  match type of H with
  | RI ?a ?l ?s =>
      match goal with
      | |- match ?m s with _ => _ end =>
          let K := fresh "K" in
          assert (K : keeps (RI a l) m); [|exact (K s H)]
      end
  end.

Lemma become_connected_ok a0 al s :
  RI a0 al s -> 0 < num_active (mems (st s)) ->
  match become_connected s with
  | (s', ROk _) => RI a0 al s' | (s', RErr _) => RI a0 al s' | (_, RPanic _) => False end.
Proof.
  intros H N. unfold become_connected. unfold bind at 1. unfold get at 1.
  destruct (num_active (mems (st s)) =? 0) eqn:Z; [lia|].
  run_keeps H.
  apply keeps_bind. { apply keeps_modify. intros f W A. split; auto. eapply WF_same; eauto. apply (wf_probe _ W). }
  intros _. apply keeps_bind; [apply keeps_emit_ns; reflexivity|]. intros _.
  apply keeps_bind; [apply keeps_submit_periodic|]. intros _.
  apply keeps_bind; [apply keeps_submit_periodic|]. intros _.
  apply keeps_bind; [apply keeps_submit_periodic|]. intros _.
  apply keeps_emit_ns; reflexivity.
Qed.

Lemma become_disconnected_ok a0 al s :
  RI a0 al s -> num_active (mems (st s)) = 0 ->
  match become_disconnected s with
  | (s', ROk _) => RI a0 al s' | (s', RErr _) => RI a0 al s' | (_, RPanic _) => False end.
Proof.
  intros H N. unfold become_disconnected. unfold bind at 1. unfold get at 1.
  rewrite N. cbn [N.eqb negb]. rewrite N.eqb_refl. cbn [negb].
  run_keeps H.
  apply keeps_bind. { apply keeps_modify. intros f W A. split; auto. eapply WF_same; eauto. apply probe_ok_clear. }
  intros _. apply keeps_emit_ns; reflexivity.
Qed.

Lemma keeps_adjust a0 al : keeps (RI a0 al) adjust_connection_state.
Proof.
  intros s H. unfold adjust_connection_state. unfold bind, get.
  destruct (conn (st s)).
  - destruct (0 <? num_active (mems (st s))) eqn:N; cbn [when].
    + apply become_connected_ok; auto. lia.
    + exact H.
  - destruct (num_active (mems (st s)) =? 0) eqn:N; cbn [when].
    + apply become_disconnected_ok; auto. lia.
    + exact H.
  - exact H.
Qed.

Definition okres {A} (P : rs -> Prop) (x : rs * res A) : Prop :=
  match x with
  | (s', ROk _) => P s'
  | (s', RErr _) => P s'
  | (_, RPanic _) => False
  end.

Lemma keeps_okres {A} P (m : M A) : keeps P m <-> forall s, P s -> okres P (m s).
Proof.
  unfold keeps, triple, okres. split; intros H s Ps; specialize (H s Ps);
    destruct (m s) as [s' [a|e|p]]; auto.
Qed.

Lemma okres_bind {A B} P (m : M A) (f : A -> M B) s :
  okres P (m s) ->
  (forall a s', m s = (s', ROk a) -> P s' -> okres P (f a s')) ->
  okres P (bind m f s).
Proof.
  intros H1 H2. unfold bind. destruct (m s) as [s' [a|e|p]] eqn:E; cbn in *; auto.
Qed.

Lemma okres_keeps {A} P (m : M A) s : keeps P m -> P s -> okres P (m s).
Proof. intros K Ps. apply keeps_okres; auto. Qed.

Lemma keeps_get_ri {B} a0 al (body : foca -> M B) :
  (forall f0, WF f0 -> addr_of (identity f0) = a0 -> keeps (RI a0 al) (body f0)) ->
  keeps (RI a0 al) (bind get body).
Proof.
  intros H s Hs. unfold bind, get. destruct Hs as (W & A & O).
  apply (H (st s) W A s). split; [|split]; auto.
Qed.

(* ---- handle_apply_summary / apply_update ---- *)
Lemma keeps_handle_apply_summary a0 al sm u b :
  keeps (RI a0 al) (handle_apply_summary sm u b).
Proof.
  unfold handle_apply_summary.
  apply keeps_bind.
  { apply keeps_when. apply keeps_bind; [apply keeps_when; apply keeps_add_update|].
    intros _. apply keeps_get_ri. intros f0 _ _. apply keeps_when. apply keeps_emit_ns; reflexivity. }
  intros _. apply keeps_bind.
  { destruct (s_conflict sm); try apply keeps_ret. apply keeps_emit_ns; reflexivity. }
  intros _. apply keeps_when. apply keeps_emit_ns; reflexivity.
Qed.

Lemma WF_set_mems f ms :
  WF f -> MI (addr_of (identity f)) ms -> WF (set_mems f ms).
Proof. intros [] H. constructor; auto. Qed.

Lemma apply_update_ok a0 al u b s :
  RI a0 al s ->
  id_eqb (identity (st s)) (m_id u) = false ->
  (maddr u = a0 -> m_state u = Down) ->
  okres (RI a0 al) (apply_update rnd u b s).
Proof.
  intros H Hid Hu. unfold apply_update. unfold bind at 1. unfold get at 1. rewrite Hid.
  unfold bind at 1. unfold with_ctr.
  destruct (members_apply rnd (mems (st s)) u (ctr s)) as [[ms sm] k'] eqn:E.
  unfold bind at 1. unfold modify at 1. cbn [st out ctr].
  destruct H as (W & A & O).
  assert (MIms : MI a0 ms).
  { pose proof (members_apply_MI rnd a0 (mems (st s)) u (ctr s)) as X. rewrite E in X. cbn in X.
    apply X; auto. rewrite <- A. apply (wf_mi _ W). }
  assert (H2 : RI a0 al (mkRs (set_mems (st s) ms) (out s) k')).
  { split; [|split]; auto. apply WF_set_mems; auto. rewrite A. exact MIms. }
  apply okres_keeps; [|exact H2].
  apply keeps_bind; [apply keeps_handle_apply_summary|]. intros _. apply keeps_ret.
Qed.

(* ---- identity changes ---- *)
Lemma WF_set_identity f i :
  WF f -> addr_of i = addr_of (identity f) -> WF (set_identity f i).
Proof. intros [] E. constructor; cbn; rewrite ?E; auto. Qed.

Lemma keeps_change_identity a0 al new_id :
  addr_of new_id = a0 -> keeps (RI a0 al) (change_identity rnd new_id).
Proof.
  intros Hn. unfold change_identity. apply keeps_get_ri. intros f0 W0 A0.
  destruct (id_eqb (identity f0) new_id); [apply keeps_fail|].
  apply keeps_bind.
  { apply keeps_modify. intros f W A. split; auto. apply WF_set_identity; auto. congruence. }
  intros _. apply keeps_bind; [apply keeps_reset|]. intros _.
  apply keeps_bind; [apply keeps_when; apply keeps_add_update|]. intros _.
  apply keeps_gossip.
Qed.

Lemma keeps_attempt_rejoin a0 al : keeps (RI a0 al) (attempt_rejoin rnd).
Proof.
  unfold attempt_rejoin. apply keeps_get_ri. intros f0 W0 A0.
  destruct (renew (identity f0)) as [new_id|] eqn:R; [|apply keeps_ret].
  destruct (id_eqb (identity f0) new_id); [apply keeps_ret|].
  destruct (negb (wins new_id (identity f0))); [apply keeps_ret|].
  apply keeps_bind.
  { apply keeps_change_identity. rewrite (renew_addr _ _ R). exact A0. }
  intros _. apply keeps_bind; [apply keeps_emit_ns; reflexivity|]. intros _. apply keeps_ret.
Qed.

Lemma keeps_handle_self_update a0 al inc st0 : keeps (RI a0 al) (handle_self_update rnd inc st0).
Proof.
  unfold handle_self_update. destruct st0.
  - apply keeps_ret.
  - apply keeps_get_ri. intros f0 W0 A0.
    destruct (N.max inc (incarnation f0) =? u16_max).
    + apply keeps_bind; [apply keeps_attempt_rejoin|]. intros b. apply keeps_when. apply keeps_become_undead.
    + apply keeps_bind.
      { apply keeps_when. apply keeps_modify. intros f W A. split; auto. apply WF_set_incarnation; auto. }
      intros _. apply keeps_get_ri. intros f1 _ _. apply keeps_when. apply keeps_gossip.
  - apply keeps_bind; [apply keeps_attempt_rejoin|]. intros b. apply keeps_when. apply keeps_become_undead.
Qed.

(* ---- apply_many ---- *)
Lemma keeps_apply_one a0 al b u : keeps (RI a0 al) (apply_one rnd b u).
Proof.
  apply keeps_okres. intros s H. unfold apply_one. unfold bind at 1. unfold get at 1.
  destruct (id_eqb (m_id u) (identity (st s))) eqn:E1.
  { apply okres_keeps; auto. apply keeps_handle_self_update. }
  assert (E1' : id_eqb (identity (st s)) (m_id u) = false) by (rewrite id_eqb_sym; exact E1).
  destruct (addr_eqb (addr_of (identity (st s))) (addr_of (m_id u))) eqn:E2.
  - apply okres_bind.
    + apply apply_update_ok; auto.
    + intros a s' _ Hs'. exact Hs'.
  - apply okres_bind.
    + apply apply_update_ok; auto. intros Hu. exfalso. apply addr_eqb_neq in E2.
      destruct H as (_ & A & _). unfold maddr in Hu. congruence.
    + intros a s' _ Hs'. exact Hs'.
Qed.

Lemma keeps_apply_many a0 al l b : keeps (RI a0 al) (apply_many rnd l b).
Proof.
  unfold apply_many. apply keeps_bind.
  - apply keeps_forM. intros x _. apply keeps_apply_one.
  - intros _. apply keeps_adjust.
Qed.

(* ---- broadcast / leave / add_broadcast ---- *)
Lemma keeps_broadcast_loop a0 al l :
  (forall m, In m l -> addr_of (m_id m) <> a0) -> keeps (RI a0 al) (broadcast_loop rnd l).
Proof.
  induction l as [|m t IH]; intros F; cbn [broadcast_loop]; [apply keeps_ret|].
  apply keeps_bind; [apply keeps_send_message; left; apply F; left; reflexivity|]. intros _.
  apply keeps_get_ri. intros f0 _ _. destruct (customs f0); [apply keeps_ret|].
  apply IH. intros x Hx. apply F. right. exact Hx.
Qed.

Lemma keeps_broadcast a0 al : keeps (RI a0 al) (broadcast rnd).
Proof.
  unfold broadcast. apply keeps_get_ri. intros f0 _ _. destruct (customs f0); [apply keeps_ret|].
  eapply t_bind; [apply choose_active_spec|]. intros chosen s [H Hc].
  assert (F : forall m, In m (rev chosen) -> addr_of (m_id m) <> a0).
  { intros m Hm. apply in_rev in Hm. destruct (Hc m Hm) as (Hin & A & _).
    destruct H as (W & Ad & _). rewrite <- Ad. eapply active_foreign; eauto. apply (wf_mi _ W). }
  exact (keeps_broadcast_loop a0 al (rev chosen) F s H).
Qed.

Lemma keeps_leave_cluster a0 al : keeps (RI a0 al) (leave_cluster rnd).
Proof.
  unfold leave_cluster. apply keeps_get_ri. intros f0 _ _.
  apply keeps_bind; [apply keeps_add_update|]. intros _.
  apply keeps_bind; [apply keeps_gossip|]. intros _. apply keeps_become_undead.
Qed.

Lemma keeps_add_custom a0 al key data :
  1 <= len data <= u16_max -> keeps (RI a0 al) (add_custom key data).
Proof.
  intros L. apply keeps_modify. intros f W A. split; auto. apply WF_set_customs; auto.
  apply add_or_replace_Forall; [apply (wf_cus _ W)|]. unfold cus_ok, max_tx. cbn.
  destruct (wf_cfg _ W). lia.
Qed.

Lemma len_pos_cons {A} (x : A) l : 1 <= len (x :: l).
Proof. rewrite len_cons. lia. Qed.

Lemma keeps_add_broadcast a0 al data : keeps (RI a0 al) (add_broadcast data).
Proof.
  unfold add_broadcast. apply keeps_get_ri. intros f0 W0 _.
  destruct data as [|b0 bs]; [apply keeps_fail|].
  destruct ((max_packet_size (cfg f0) <? len (b0 :: bs)) || (u16_max <? len (b0 :: bs))) eqn:Big;
    [apply keeps_fail|].
  destruct (h_recv (hst f0) (b0 :: bs) None) as [h' r].
  apply keeps_bind.
  { apply keeps_modify. intros f W A. split; auto. apply WF_set_hst; auto. }
  intros _. destruct r as [[key|]|]; [|apply keeps_ret|apply keeps_fail].
  apply keeps_bind; [|intros; apply keeps_ret].
  apply keeps_add_custom. pose proof (len_pos_cons b0 bs). lia.
Qed.

(* received bytes are bytes *)
Definition bytes_ok (b : bytes) : Prop := Forall (fun x => x < 256) b.

Lemma bytes_ok_skipn n b : bytes_ok b -> bytes_ok (skipn n b).
Proof.
  unfold bytes_ok. revert b. induction n as [|n IH]; intros b H; cbn; auto.
  destruct b; auto. inversion H; auto.
Qed.

Lemma get_u16_bound b n r : bytes_ok b -> get_u16 b = Some (n, r) -> n <= u16_max /\ bytes_ok r.
Proof.
  unfold get_u16, bytes_ok. destruct b as [|hi [|lo r0]]; try discriminate.
  intros H E. inversion E; subst. inversion H as [|? ? Hhi H1]; subst.
  inversion H1 as [|? ? Hlo H2]; subst. split; auto. unfold u16_max. lia.
Qed.

Lemma len_firstn {A} (n : N) (l : list A) : n <= len l -> len (firstn (N.to_nat n) l) = n.
Proof. unfold len. intros H. rewrite firstn_length. lia. Qed.

Lemma keeps_custom_loop a0 al sender fuel : forall data,
  bytes_ok data -> keeps (RI a0 al) (custom_loop fuel data sender).
Proof.
  induction fuel as [|fuel IH]; intros data B; cbn [custom_loop].
  - destruct data; [apply keeps_ret|apply keeps_fail].
  - destruct (2 <? len data); [|destruct data; [apply keeps_ret|apply keeps_fail]].
    destruct (get_u16 data) as [[pkt_len rest]|] eqn:G; [|apply keeps_fail].
    destruct (get_u16_bound _ _ _ B G) as [Hb Br].
    destruct ((pkt_len =? 0) || (len rest <? pkt_len)) eqn:C; [apply keeps_fail|].
    apply keeps_get_ri. intros f0 _ _.
    destruct (h_recv (hst f0) (firstn (N.to_nat pkt_len) rest) sender) as [h' r].
    apply keeps_bind.
    { apply keeps_modify. intros f W A. split; auto. apply WF_set_hst; auto. }
    intros _. apply keeps_bind.
    { destruct r as [[key|]|]; [|apply keeps_ret|apply keeps_fail].
      apply keeps_add_custom. rewrite len_firstn by lia. lia. }
    intros _. apply IH. apply bytes_ok_skipn. exact Br.
Qed.

Lemma keeps_handle_custom_broadcasts a0 al data sender :
  bytes_ok data -> keeps (RI a0 al) (handle_custom_broadcasts data sender).
Proof.
  intros B. unfold handle_custom_broadcasts. destruct data as [|b0 bs]; [apply keeps_ret|].
  destruct (len (b0 :: bs) <? 3); [apply keeps_fail|]. apply keeps_custom_loop. exact B.
Qed.

(* ---- probing ---- *)
Lemma WF_set_prb f p : WF f -> probe_ok (addr_of (identity f)) p -> WF (set_prb f p).
Proof. intros [] H. constructor; auto. Qed.

Lemma probe_random_member_ok a0 al s :
  RI a0 al s -> conn (st s) = Connected ->
  okres (RI a0 al) (probe_random_member rnd s).
Proof.
  intros H C. unfold probe_random_member. unfold bind at 1. unfold get at 1. rewrite C. cbn [conn_eqb negb].
  set (incomplete := negb (probe_validate (prb (st s)))).
  apply okres_bind.
  { apply okres_keeps; auto. apply keeps_when. apply keeps_modify. intros f W A. split; auto.
    apply WF_set_prb; auto. apply probe_ok_clear. }
  intros _ s1 _ H1. clear H C.
  (* take_failed *)
  unfold bind at 1. unfold get at 1.
  destruct (probe_take_failed (prb (st s1))) as [p' failed] eqn:TF.
  assert (PF : probe_ok a0 p' /\ forall fm, failed = Some fm -> maddr fm <> a0).
  { destruct H1 as (W & A & _). pose proof (wf_probe _ W) as PO. rewrite A in PO.
    unfold probe_take_failed in TF. destruct (negb (probe_succeeded (prb (st s1)))); inversion TF; subst.
    - split; [exact I|]. intros fm Hfm. unfold probe_ok in PO. rewrite Hfm in PO. exact PO.
    - split; [exact PO|]. discriminate. }
  destruct PF as [PO' PFm].
  unfold bind at 1. unfold modify at 1. cbn [st out ctr].
  assert (H2 : RI a0 al (mkRs (set_prb (st s1) p') (out s1) (ctr s1))).
  { destruct H1 as (W & A & O). split; [|split]; auto. apply WF_set_prb; auto. rewrite A. exact PO'. }
  clear H1 TF. revert H2. generalize (mkRs (set_prb (st s1) p') (out s1) (ctr s1)). clear s1. intros s2 H2.
  apply okres_bind.
  { (* the failed-probe branch *)
    destruct failed as [fm|]; [|exact H2].
    specialize (PFm fm eq_refl).
    unfold bind at 1. unfold get at 1.
    destruct (apply_existing_if (mems (st s2)) (mkMember (m_id fm) (m_inc fm) Suspect) (fun _ => true))
      as [[ms sm]|] eqn:AE; [|exact H2].
    unfold bind at 1. unfold modify at 1. cbn [st out ctr].
    assert (H3 : RI a0 al (mkRs (set_mems (st s2) ms) (out s2) (ctr s2))).
    { destruct H2 as (W & A & O). split; [|split]; auto. apply WF_set_mems; auto. rewrite A.
      eapply apply_existing_if_MI; [| |exact AE].
      - rewrite <- A. apply (wf_mi _ W).
      - intros E. exfalso. apply PFm. exact E. }
    apply okres_keeps; [|exact H3].
    apply keeps_bind; [apply keeps_handle_apply_summary|]. intros _.
    apply keeps_get_ri. intros f0 _ _. apply keeps_when. apply keeps_emit_ns; reflexivity. }
  intros _ s3 _ H3. clear H2 s2.
  (* members.next *)
  unfold bind at 1. unfold get at 1. unfold bind at 1. unfold with_ctr.
  destruct (members_next rnd (mems (st s3)) (ctr s3)) as [[ms chosen] k'] eqn:NX.
  unfold bind at 1. unfold modify at 1. cbn [st out ctr].
  assert (MIms : MI a0 ms).
  { destruct H3 as (W & A & _). pose proof (members_next_MI rnd a0 (mems (st s3)) (ctr s3)) as X.
    rewrite NX in X. apply X. rewrite <- A. apply (wf_mi _ W). }
  assert (Hch : forall m, chosen = Some m -> In m (inner ms) /\ m_active m = true).
  { intros m ->. pose proof (members_next_result rnd (mems (st s3)) (ctr s3) m) as X.
    rewrite NX in X. apply X. reflexivity. }
  assert (H4 : RI a0 al (mkRs (set_mems (st s3) ms) (out s3) k')).
  { destruct H3 as (W & A & O). split; [|split]; auto. apply WF_set_mems; auto. rewrite A. exact MIms. }
  clear H3. revert H4. generalize (mkRs (set_mems (st s3) ms) (out s3) k'). intros s4 H4.
  apply okres_bind.
  { destruct chosen as [m|]; [|exact H4].
    destruct (Hch m eq_refl) as [Hin Act].
    assert (Fm : addr_of (m_id m) <> a0) by (eapply active_foreign; eauto).
    unfold bind at 1. unfold get at 1.
    destruct (probe_start (prb (st s4)) m) as [pp n] eqn:PS.
    unfold bind at 1. unfold modify at 1. cbn [st out ctr].
    assert (H5 : RI a0 al (mkRs (set_prb (st s4) pp) (out s4) (ctr s4))).
    { destruct H4 as (W & A & O). split; [|split]; auto. apply WF_set_prb; auto.
      unfold probe_start in PS. inversion PS as [[Epp En]]. unfold probe_ok. cbn. rewrite A. exact Fm. }
    apply okres_keeps; [|exact H5].
    apply keeps_bind; [apply keeps_send_message; left; exact Fm|]. intros _.
    apply keeps_get_ri. intros f0 _ _. apply keeps_emit_ns; reflexivity. }
  intros _ s5 _ H5.
  apply okres_keeps; [|exact H5].
  apply keeps_get_ri. intros f0 _ _. apply keeps_bind; [apply keeps_emit_ns; reflexivity|]. intros _.
  destruct incomplete; [apply keeps_fail|apply keeps_ret].
Qed.

(* ---- frame: send_message touches only the two backlogs ---- *)
Definition FR (f0 f : foca) : Prop := exists u c, f = set_customs (set_updates f0 u) c.

Lemma FR_refl f : FR f f.
Proof. exists (updates f), (customs f). destruct f; reflexivity. Qed.

Lemma FR_trans f0 f1 f2 : FR f0 f1 -> FR f1 f2 -> FR f0 f2.
Proof. intros (u1 & c1 & ->) (u2 & c2 & ->). exists u2, c2. reflexivity. Qed.

Lemma FR_upd f0 f u : FR f0 f -> FR f0 (set_updates f u).
Proof. intros (u1 & c1 & ->). exists u, c1. reflexivity. Qed.

Lemma FR_cus f0 f c : FR f0 f -> FR f0 (set_customs f c).
Proof. intros (u1 & c1 & ->). exists u1, c. reflexivity. Qed.

Definition frames {A} (m : M A) : Prop := forall s, FR (st s) (st (fst (m s))).

Lemma frames_bind {A B} (m : M A) (f : A -> M B) : frames m -> (forall a, frames (f a)) -> frames (bind m f).
Proof.
  intros Hm Hf s. unfold bind. specialize (Hm s). destruct (m s) as [s' [a|e|p]]; cbn in *; auto.
  eapply FR_trans; [exact Hm|]. apply Hf.
Qed.

Lemma frames_ret {A} (a : A) : frames (ret a).
Proof. intros s. apply FR_refl. Qed.
Lemma frames_fail {A} e : frames (@fail Id Addr HO A e).
Proof. intros s. apply FR_refl. Qed.
Lemma frames_panic {A} p : frames (@panic Id Addr HO A p).
Proof. intros s. apply FR_refl. Qed.
Lemma frames_get : frames (@get Id Addr HO).
Proof. intros s. apply FR_refl. Qed.
Lemma frames_emit e : frames (@emit Id Addr HO e).
Proof. intros s. apply FR_refl. Qed.
Lemma frames_ask r : frames (ask rnd r).
Proof. intros s. apply FR_refl. Qed.
Lemma frames_with_ctr {A} (g : N -> A * N) : frames (with_ctr g).
Proof. intros s. unfold with_ctr. destruct (g (ctr s)). apply FR_refl. Qed.
Lemma frames_num_sends : frames (@num_sends Id Addr HO).
Proof. intros s. apply FR_refl. Qed.

Lemma frames_feed_loop l : forall room count acc, frames (feed_loop l room count acc).
Proof.
  induction l as [|m t IH]; intros room count acc; cbn [feed_loop]; [apply frames_ret|].
  destruct (room <? len (enc_mem m)); [apply frames_ret|].
  destruct (count =? u16_max); [apply frames_panic|apply IH].
Qed.

Lemma frames_send_message dst msg : frames (send_message rnd dst msg).
Proof.
  unfold send_message. apply frames_bind; [apply frames_get|]. intros f.
  destruct (negb (send_cap f =? max_packet_size (cfg f))); [apply frames_panic|].
  destruct (max_packet_size (cfg f) <? len (enc_hdr _)); [apply frames_fail|].
  apply frames_bind; [apply frames_num_sends|]. intros idx.
  apply frames_bind.
  - unfold send_body. destruct (needs_piggyback msg && _); [|apply frames_ret].
    destruct (piggyback_only_active msg).
    + apply frames_bind.
      { unfold estimate_feed_capacity. destruct (_ =? 0); [apply frames_panic|apply frames_ret]. }
      intros cap. apply frames_bind.
      { unfold choose_active. apply frames_bind; [apply frames_get|]. intros f1. apply frames_with_ctr. }
      intros chosen. apply frames_bind; [apply frames_feed_loop|]. intros [[c b] l]. apply frames_ret.
    + apply frames_bind; [apply frames_get|]. intros f0.
      destruct (updates f0); [apply frames_ret|].
      apply frames_bind; [apply frames_ask|]. intros hint.
      destruct (fill_gen Addr 0 hint _ _ _) as [[[w n] kept] p].
      destruct p; [apply frames_panic|].
      apply frames_bind; [|intros; apply frames_ret].
      intros s. cbn. apply FR_upd. apply FR_refl.
  - intros [body room3]. apply frames_bind; [|intros; apply frames_emit].
    unfold send_customs. apply frames_bind; [apply frames_get|]. intros f1.
    destruct (_ && _ && _); [|apply frames_ret].
    destruct (customs f1); [apply frames_ret|].
    apply frames_bind; [apply frames_ask|]. intros hint.
    destruct (fill_gen hkey 2 hint _ _ _) as [[[w n] kept] p].
    destruct p; [apply frames_panic|].
    apply frames_bind; [|intros; apply frames_ret].
    intros s. cbn. apply FR_cus. apply FR_refl.
Qed.

Lemma FR_prb f0 f : FR f0 f -> prb f = prb f0.
Proof. intros (u & c & ->). reflexivity. Qed.

(* ---- indirect probes ---- *)
Lemma indirect_loop_ok a0 al probed l : forall s,
  RI a0 al s -> probe_is_probing (prb (st s)) probed = true ->
  (forall m, In m l -> addr_of (m_id m) <> a0 /\ id_eqb (m_id m) probed = false) ->
  okres (RI a0 al) (indirect_loop rnd probed l s).
Proof.
  unfold indirect_loop.
  induction l as [|m t IH]; intros s H P F; cbn [forM_]; [exact H|].
  destruct (F m (or_introl eq_refl)) as [Fm Nm].
  unfold bind at 1. unfold bind at 1. unfold get at 1.
  unfold probe_is_probing in P.
  unfold probe_expect_indirect_ack.
  destruct (p_direct (prb (st s))) as [d|] eqn:D; [|discriminate].
  apply id_eqb_eq in P.
  assert (Ne : id_eqb (m_id d) (m_id m) = false).
  { rewrite P. rewrite id_eqb_sym. exact Nm. }
  rewrite Ne.
  set (p' := mkProbe _ _ _ _ _ _).
  unfold bind at 1. unfold modify at 1. cbn [st out ctr].
  assert (H2 : RI a0 al (mkRs (set_prb (st s) p') (out s) (ctr s))).
  { destruct H as (W & A & O). split; [|split]; auto. apply WF_set_prb; auto.
    pose proof (wf_probe _ W) as PO. unfold probe_ok in PO. rewrite D in PO. unfold probe_ok. cbn. exact PO. }
  pose proof (keeps_send_message a0 al (m_id m) (PingReq probed (p_number p')) (or_introl Fm) _ H2) as K.
  pose proof (frames_send_message (m_id m) (PingReq probed (p_number p')) (mkRs (set_prb (st s) p') (out s) (ctr s))) as FRm.
  destruct (send_message rnd (m_id m) (PingReq probed (p_number p')) _) as [s' [[]|e|pn]] eqn:SM; cbn in *; auto.
  apply IH; auto.
  apply FR_prb in FRm. rewrite FRm. cbn. unfold probe_is_probing. cbn. apply id_eqb_eq. exact P.
Qed.

(* identities an input names explicitly: Foca may be told to talk to them *)
Definition named_by (i : @input Id) : Id -> Prop :=
  fun d =>
    match i with
    | IAnnounce x => d = x
    | ITimer (TChangeSuspectToDown x _ _) => d = x
    | IData b =>
        match dec_hdr b with
        | Some (h, _) =>
            match h_msg h with
            | PingReq t _ | IndirectAck t _ => d = t
            | _ => False
            end
        | None => False
        end
    | _ => False
    end.

Lemma keeps_handle_timer a0 al t :
  (forall x i k, t = TChangeSuspectToDown x i k -> addr_of x <> a0 \/ al x) ->
  keeps (RI a0 al) (handle_timer rnd t).
Proof.
  intros Hal. apply keeps_okres. intros s H. unfold handle_timer. unfold bind at 1. unfold get at 1.
  destruct t as [tok|probed tok|mid inc tok|tok|tok|tok|down].
  - (* probe *)
    destruct (tok =? token (st s)); [|exact H].
    destruct (conn (st s)) eqn:C; cbn [conn_eqb negb]; try exact H.
    apply probe_random_member_ok; auto.
  - (* indirect *)
    destruct (negb (tok =? token (st s))); [exact H|].
    unfold bind at 1. unfold modify at 1. cbn [st out ctr].
    assert (H2 : RI a0 al (mkRs (set_prb (st s) (probe_mark_reached (prb (st s)))) (out s) (ctr s))).
    { destruct H as (W & A & O). split; [|split]; auto. apply WF_set_prb; auto. exact (wf_probe _ W). }
    destruct (negb (probe_is_probing (prb (st s)) probed)) eqn:IP; [exact H2|].
    destruct (probe_succeeded (prb (st s))); [exact H2|].
    destruct (negb (is_active_id (mems (st s)) probed)); [exact H2|].
    apply negb_false_iff in IP.
    unfold bind at 1.
    pose proof (choose_active_spec a0 al (num_indirect_probes (cfg (st s)))
                  (fun c => negb (id_eqb c probed)) _ H2) as CS.
    destruct (choose_active rnd _ _ _) as [s' [chosen|e|p]] eqn:CA; cbn in CS; auto.
    destruct CS as [H3 Hc].
    assert (Eprb : prb (st s') = probe_mark_reached (prb (st s))).
    { unfold choose_active, bind, get, with_ctr in CA. cbn in CA.
      destruct (choose_active_members rnd _ _ _ _) in CA. inversion CA. reflexivity. }
    apply indirect_loop_ok; auto.
    + rewrite Eprb. unfold probe_is_probing in *. cbn. exact IP.
    + intros m Hm. apply in_rev in Hm. destruct (Hc m Hm) as (Hin & Act & Pk).
      split.
      * destruct H3 as (W & A & _). rewrite <- A. eapply active_foreign; eauto. apply (wf_mi _ W).
      * apply negb_true_iff in Pk. exact Pk.
  - (* suspect -> down *)
    destruct (negb (token (st s) =? tok)); [exact H|].
    destruct (apply_existing_if (mems (st s)) (mkMember mid inc Down) (fun m => m_inc m =? inc))
      as [[ms sm]|] eqn:AE; [|exact H].
    unfold bind at 1. unfold modify at 1. cbn [st out ctr].
    assert (H2 : RI a0 al (mkRs (set_mems (st s) ms) (out s) (ctr s))).
    { destruct H as (W & A & O). split; [|split]; auto. apply WF_set_mems; auto. rewrite A.
      eapply apply_existing_if_MI; [| |exact AE]; auto. rewrite <- A. apply (wf_mi _ W). }
    apply okres_keeps; [|exact H2].
    apply keeps_bind; [apply keeps_handle_apply_summary|]. intros _.
    apply keeps_bind; [apply keeps_adjust|]. intros _.
    apply keeps_when. apply keeps_send_message. eapply Hal. reflexivity.
  - destruct (periodic_guard tok (st s)); [|exact H].
    destruct (periodic_announce (cfg (st s))) as [[fq n]|]; [|exact H].
    apply okres_keeps; [|exact H].
    apply keeps_bind; [apply keeps_emit_ns; reflexivity|]. intros _. apply keeps_choose_and_send.
  - destruct (periodic_guard tok (st s)); [|exact H].
    destruct (periodic_announce_down (cfg (st s))) as [[fq n]|]; [|exact H].
    apply okres_keeps; [|exact H].
    apply keeps_bind; [apply keeps_emit_ns; reflexivity|]. intros _. apply keeps_announce_to_down.
  - destruct (periodic_guard tok (st s)); [|exact H].
    destruct (periodic_gossip (cfg (st s))) as [[fq n]|]; [|exact H].
    apply okres_keeps; [|exact H].
    apply keeps_bind; [apply keeps_emit_ns; reflexivity|]. intros _.
    destruct (updates (st s)), (customs (st s)); try apply keeps_ret; apply keeps_choose_and_send.
  - (* remove down *)
    unfold modify. cbn.
    destruct H as (W & A & O). split; [|split]; auto. apply WF_set_mems; auto.
    apply remove_if_down_MI. apply (wf_mi _ W).
Qed.

(* ---- handle_data ---- *)
Lemma keeps_react a0 al src msg :
  addr_of src <> a0 ->
  (forall t n, msg = PingReq t n \/ msg = IndirectAck t n -> addr_of t <> a0 \/ al t) ->
  keeps (RI a0 al) (react rnd src msg).
Proof.
  intros Hs Hal. unfold react. apply keeps_get_ri. intros f0 W0 A0.
  destruct msg as [n|n|t n|o n|t n|o n| | | | | ].
  - apply keeps_send_message. left. exact Hs.
  - apply keeps_modify. intros f W A. split; auto. apply WF_set_prb; auto.
    pose proof (wf_probe _ W) as PO. unfold probe_receive_ack.
    destruct (_ && _); cbn; [|exact PO]. unfold probe_ok in *. cbn. exact PO.
  - destruct (id_eqb t (identity f0)); [apply keeps_fail|].
    apply keeps_send_message. eapply Hal. left. reflexivity.
  - destruct (id_eqb o (identity f0)); [apply keeps_fail|].
    apply keeps_send_message. left. exact Hs.
  - destruct (id_eqb t (identity f0)); [apply keeps_fail|].
    apply keeps_send_message. eapply Hal. right. reflexivity.
  - destruct (id_eqb o (identity f0)); [apply keeps_fail|].
    apply keeps_modify. intros f W A. split; auto. apply WF_set_prb; auto.
    pose proof (wf_probe _ W) as PO. unfold probe_receive_indirect_ack.
    destruct (negb _); cbn; [exact PO|].
    destruct (find_index _ _); cbn; [|exact PO]. unfold probe_ok in *. cbn. exact PO.
  - apply keeps_send_message. left. exact Hs.
  - apply keeps_ret.
  - apply keeps_ret.
  - apply keeps_ret.
  - apply keeps_handle_self_update.
Qed.

Lemma dec_members_rest n : forall b l r,
  bytes_ok b -> dec_members n b = Some (l, r) -> bytes_ok r.
Proof.
  induction n as [|n IH]; intros b l r B H; cbn in H.
  - inversion H; subst. exact B.
  - destruct (dec_mem b) as [[m r0]|] eqn:D; [|discriminate].
    destruct (dec_members n r0) as [[l0 r1]|] eqn:D2; [|discriminate].
    inversion H; subst. eapply IH; [|exact D2]. eapply dec_mem_rest; eauto.
Qed.

Lemma keeps_handle_data a0 data :
  bytes_ok data -> keeps (RI a0 (named_by (IData data))) (handle_data rnd data).
Proof.
  intros B. set (al := named_by (IData data)).
  apply keeps_okres. intros s H. unfold handle_data. unfold bind at 1. unfold get at 1.
  destruct (max_packet_size (cfg (st s)) <? len data); [exact H|].
  destruct (dec_hdr data) as [[h rest]|] eqn:DH; [|exact H].
  destruct (id_eqb (h_src h) (identity (st s)) || addr_eqb (addr_of (h_src h)) (addr_of (identity (st s)))) eqn:Self;
    [exact H|].
  apply orb_false_iff in Self. destruct Self as [S1 S2].
  assert (Hsrc : addr_of (h_src h) <> a0).
  { apply addr_eqb_neq in S2. destruct H as (_ & A & _). congruence. }
  assert (S1' : id_eqb (identity (st s)) (h_src h) = false) by (rewrite id_eqb_sym; exact S1).
  destruct ((len rest =? 1) || (message_eqb id_eqb (h_msg h) Announce && (0 <? len rest))); [exact H|].
  destruct (negb (accept_payload (st s) h)); [exact H|].
  assert (Brest : bytes_ok rest) by (eapply dec_hdr_rest; eauto).
  apply okres_bind.
  { destruct ((2 <=? len rest) && negb (message_eqb id_eqb (h_msg h) Broadcast)); [|exact H].
    destruct (get_u16 rest) as [[n r]|]; [|exact H].
    destruct (dec_members (N.to_nat n) r); exact H. }
  intros [ul tail] s1 Eups H1.
  assert (Btail : bytes_ok tail).
  { destruct ((2 <=? len rest) && negb (message_eqb id_eqb (h_msg h) Broadcast)).
    - destruct (get_u16 rest) as [[n r]|] eqn:G; [|discriminate].
      destruct (get_u16_bound _ _ _ Brest G) as [_ Br].
      destruct (dec_members (N.to_nat n) r) as [[l0 r0]|] eqn:DM; [|discriminate].
      inversion Eups; subst. eapply dec_members_rest; eauto.
    - inversion Eups; subst. exact Brest. }
  assert (Es1 : s1 = s).
  { destruct ((2 <=? len rest) && negb (message_eqb id_eqb (h_msg h) Broadcast)).
    - destruct (get_u16 rest) as [[n r]|]; [|discriminate].
      destruct (dec_members (N.to_nat n) r) as [[l0 r0]|]; inversion Eups; reflexivity.
    - inversion Eups; reflexivity. }
  subst s1.
  apply okres_bind.
  { apply apply_update_ok; auto. intros E. exfalso. apply Hsrc. exact E. }
  intros active s2 _ H2.
  destruct (negb active).
  - apply okres_keeps; [|exact H2].
    apply keeps_get_ri. intros f00 _ _.
    apply keeps_bind; [apply keeps_when; apply keeps_handle_self_update|]. intros _.
    apply keeps_get_ri. intros f0 _ _. apply keeps_when. apply keeps_send_message. left. exact Hsrc.
  - apply okres_keeps; [|exact H2].
    apply keeps_bind; [apply keeps_apply_many|]. intros _.
    apply keeps_bind; [apply keeps_attempt; apply keeps_handle_custom_broadcasts; exact Btail|]. intros cres.
    apply keeps_get_ri. intros f0 _ _.
    assert (KR : keeps (RI a0 al) (react rnd (h_src h) (h_msg h))).
    { apply keeps_react; auto. intros t n Hm. right. unfold al, named_by. rewrite DH.
      destruct Hm as [-> | ->]; reflexivity. }
    destruct (negb (conn_eqb (conn f0) Connected)).
    + destruct cres; [apply keeps_fail|apply keeps_ret].
    + apply keeps_bind; [exact KR|]. intros _. destruct cres; [apply keeps_fail|apply keeps_ret].
Qed.

(* ---- configuration / reuse ---- *)
Lemma keeps_set_config a0 al c : cfg_ok c -> keeps (RI a0 al) (set_config c).
Proof.
  intros CK. apply keeps_okres. intros s H. unfold set_config. unfold bind at 1. unfold get at 1.
  destruct (_ || _ || _ || _ || _); [exact H|].
  unfold bind, when, modify, ret. destruct H as (W & A & O).
  destruct (negb (max_packet_size (cfg (st s)) =? max_packet_size c)) eqn:Ch; cbn.
  - split; [|split]; auto. destruct W. constructor; cbn; auto.
  - split; [|split]; auto. apply negb_false_iff, N.eqb_eq in Ch.
    destruct W. constructor; cbn; auto. congruence.
Qed.

Lemma keeps_reuse a0 al : keeps (RI a0 al) reuse_down_identity.
Proof.
  unfold reuse_down_identity. apply keeps_get_ri. intros f0 _ _.
  destruct (negb _); [apply keeps_fail|apply keeps_reset].
Qed.

(* ---- the whole API ---- *)
Definition input_ok (a0 : Addr) (i : @input Id) : Prop :=
  match i with
  | IData b => bytes_ok b
  | ISetConfig c => cfg_ok c
  | IChangeIdentity x => addr_of x = a0      (* B3 *)
  | _ => True
  end.

Definition not_panicked (r : result) : Prop := match r with Panicked _ => False | _ => True end.

Lemma run_unit_ok a0 al (m : M unit) f :
  keeps (RI a0 al) m -> WF f -> addr_of (identity f) = a0 ->
  let '(f', effs, r, _) := run_unit m f in
  WF f' /\ addr_of (identity f') = a0 /\ Forall (dst_ok a0 al) effs /\ not_panicked r.
Proof.
  intros K W A. unfold run_unit.
  assert (H : RI a0 al (mkRs f [] 0)) by (split; [|split]; cbn; auto).
  specialize (K _ H). destruct (m (mkRs f [] 0)) as [s' [[]|e|p]]; cbn in *;
    try (destruct K as (W' & A' & O'); split; [exact W'|split; [exact A'|split; [exact O'|exact I]]]). contradiction.
Qed.

Theorem step_preserves (f : foca) (i : @input Id) :
  WF f -> input_ok (addr_of (identity f)) i ->
  let '(f', effs, r, _) := step rnd f i in
  WF f' /\ addr_of (identity f') = addr_of (identity f)
  /\ Forall (dst_ok (addr_of (identity f)) (named_by i)) effs
  /\ not_panicked r.
Proof.
  intros W IO'. set (a0 := addr_of (identity f)). unfold step.
  destruct i; cbn in IO'.
  - apply run_unit_ok; auto. apply keeps_handle_data. exact IO'.
  - apply run_unit_ok; auto. apply keeps_handle_timer. intros x n k ->. right. reflexivity.
  - apply run_unit_ok; auto. apply keeps_apply_many.
  - apply run_unit_ok; auto. apply keeps_send_message. right. reflexivity.
  - apply run_unit_ok; auto. apply keeps_gossip.
  - apply run_unit_ok; auto. apply keeps_broadcast.
  - apply run_unit_ok; auto. apply keeps_leave_cluster.
  - apply run_unit_ok; auto. apply keeps_change_identity. exact IO'.
  - apply run_unit_ok; auto. apply keeps_reuse.
  - apply run_unit_ok; auto. apply keeps_set_config. exact IO'.
  - unfold run_bool.
    assert (H : RI a0 (named_by (IAddBroadcast b)) (mkRs f [] 0)) by (split; [|split]; cbn; auto).
    pose proof (keeps_add_broadcast a0 (named_by (IAddBroadcast b)) b _ H) as K.
    destruct (add_broadcast b (mkRs f [] 0)) as [s' [x|e|p]]; cbn in *;
      try (destruct K as (W' & A' & O'); split; [exact W'|split; [exact A'|split; [exact O'|exact I]]]). contradiction.
Qed.

Lemma WF_init (id : Id) (c : config) (h : hstate) : cfg_ok c -> WF (foca_init id c h).
Proof.
  intros CK. constructor.
  - constructor.
    + unfold uniq. cbn. constructor.
    + reflexivity.
    + intros m [].
  - reflexivity.
  - exact CK.
  - constructor.
  - constructor.
  - constructor.
  - exact I.
Qed.

End Inv.

(* ---- the pass instantiated with the trivial effect property ---- *)
Section Plain.
Context {Id Addr : Type} {IO : IdOps Id Addr} {CO : CodecOps Id} {HO : HandlerOps Id}.
Context {IL : IdLaws IO} {EL : @ExtraLaws Id Addr IO CO}.

Definition dest_ok (a0 : Addr) (al : Id -> Prop) (e : effect Id) : Prop :=
  match e with
  | Send d _ => addr_of d <> a0 \/ al d
  | _ => True
  end.

Lemma trivial_Qe_send (rnd : oracle) : forall dst msg (s : @rs Id Addr HO),
  WF (st s) ->
  match send_message rnd dst msg s with
  | (s', ROk _) => forall b, out s' = out s ++ [Send dst b] -> True
  | _ => True
  end.
Proof. intros dst msg s _. destruct (send_message rnd dst msg s) as [s' [a|e|p]]; auto. Qed.

Theorem step_preserves_plain (rnd : oracle) (f : @foca Id Addr HO) (i : @input Id) :
  WF f -> input_ok (addr_of (identity f)) i ->
  let '(f', effs, r, _) := step rnd f i in
  WF f' /\ addr_of (identity f') = addr_of (identity f)
  /\ Forall (dest_ok (addr_of (identity f)) (named_by i)) effs
  /\ not_panicked r.
Proof.
  intros W I0.
  pose proof (step_preserves rnd (fun _ => True) (fun _ _ => I) (trivial_Qe_send rnd) f i W I0) as H.
  destruct (step rnd f i) as [[[f' effs] r] k]. destruct H as (W' & A' & O' & P').
  split; [exact W'|split; [exact A'|split; [|exact P']]].
  eapply Forall_impl; [|exact O']. intros e [He _]. exact He.
Qed.

End Plain.
