(* L_Rename.v — C09 "(reported as Rename)": along every call other than the forget-timer, every address
   that has a record keeps one, and if the identity recorded for it changed, the notifications emitted
   during that very call contain a chain Rename(x, y1), Rename(y1, y2), ..., Rename(yn, z) from the old
   identity to the new one - whatever the states of the records (active or Down). *)
From Coq Require Import Permutation.
From Foca Require Import Laws L_Lists MembersM ProbeM BcastM FocaM L_Members L_MembersInv Hoare Inv L_RoundRobin L_Mech L_Mirror L_Evidence L_Monotone.

Section Rename.
Context {Id Addr : Type} {IO : IdOps Id Addr} {CO : CodecOps Id} {HO : HandlerOps Id} {IL : IdLaws IO}.
Variable rnd : oracle.
Notation member := (member Id).
Notation foca := (@foca Id Addr HO).
Notation rs := (@rs Id Addr HO).
Notation M := (@M Id Addr HO).
Notation effect := (effect Id).
Notation "x <- m ;; f" := (bind m (fun x => f)) (at level 61, m at next level, right associativity).
Notation "m ;;; f" := (bind m (fun _ => f)) (at level 61, right associativity).

(* a chain of Rename notifications among the effects leading from x to z *)
Inductive rpath (es : list effect) : Id -> Id -> Prop :=
| rp_refl x : rpath es x x
| rp_step x y z : In (Notify (NRename x y)) es -> rpath es y z -> rpath es x z.

Lemma rpath_incl es es' x z : incl es es' -> rpath es x z -> rpath es' x z.
Proof. intros I H. induction H as [x|x y z Hin _ IH]; [apply rp_refl|]. eapply rp_step; [apply I; exact Hin|exact IH]. Qed.
Lemma rpath_trans es x y z : rpath es x y -> rpath es y z -> rpath es x z.
Proof. intros H1 H2. induction H1 as [x|x y0 y Hin _ IH]; [exact H2|]. eapply rp_step; [exact Hin|apply IH; exact H2]. Qed.

Definition renamed (ms ms' : @members Id) (es : list effect) : Prop :=
  forall a k, view ms a = Some k -> exists k', view ms' a = Some k' /\ rpath es (m_id k) (m_id k').

Lemma renamed_refl ms es : renamed ms ms es.
Proof. intros a k V. exists k. split; [exact V|apply rp_refl]. Qed.
Lemma renamed_trans m1 m2 m3 e1 e2 : renamed m1 m2 e1 -> renamed m2 m3 e2 -> renamed m1 m3 (e1 ++ e2).
Proof.
  intros H1 H2 a k V. destruct (H1 a k V) as (k1 & V1 & P1). destruct (H2 a k1 V1) as (k2 & V2 & P2).
  exists k2. split; [exact V2|]. eapply rpath_trans.
  - eapply rpath_incl; [|exact P1]. apply incl_appl, incl_refl.
  - eapply rpath_incl; [|exact P2]. apply incl_appr, incl_refl.
Qed.
Lemma renamed_perm ms ms' es : uniq (inner ms) -> Permutation (inner ms') (inner ms) -> renamed ms ms' es.
Proof.
  intros U P a k V. exists k. split; [|apply rp_refl]. unfold view in *.
  rewrite <- V. symmetry. apply lookup_perm; [exact U|symmetry; exact P].
Qed.

Definition rnP {X} (m : M X) (s : rs) : Prop :=
  UQ s -> UQ (fst (m s)) /\ exists new, out (fst (m s)) = out s ++ new /\ renamed (mems (st s)) (mems (st (fst (m s)))) new.
Definition rn {X} (m : M X) : Prop := forall s, rnP m s.

Lemma rnP_bind {X Y} (m : M X) (k : X -> M Y) (s : rs) : rnP m s -> (forall a, rn (k a)) -> rnP (bind m k) s.
Proof.
  intros Hm Hk U. destruct (Hm U) as (U1 & n1 & O1 & R1). unfold bind.
  destruct (m s) as [s1 [a|e|p]]; cbn [fst] in *; try (split; [exact U1|exists n1; split; assumption]).
  destruct (Hk a s1 U1) as (U2 & n2 & O2 & R2). split; [exact U2|]. exists (n1 ++ n2). split.
  - rewrite O2, O1, app_assoc. reflexivity.
  - eapply renamed_trans; eauto.
Qed.
Lemma rn_bind {X Y} (m : M X) (k : X -> M Y) : rn m -> (forall a, rn (k a)) -> rn (bind m k).
Proof. intros Hm Hk s. apply rnP_bind; [apply Hm|exact Hk]. Qed.
Lemma rn_frame {X} (m : M X) :
  (forall s, mems (st (fst (m s))) = mems (st s) /\ exists new, out (fst (m s)) = out s ++ new) -> rn m.
Proof.
  intros H s U. destruct (H s) as (E & new & O). unfold UQ in *. rewrite E. split; [exact U|].
  exists new. split; [exact O|apply renamed_refl].
Qed.
Lemma rn_quiet {X} (m : M X) : quiet m -> rn m.
Proof. intros Q. apply rn_frame. intros s. destruct (Q s) as (E1 & _ & _ & new & O & _). split; [exact E1|exists new; exact O]. Qed.
Lemma rn_noemit {X} (m : M X) : (forall s, mems (st (fst (m s))) = mems (st s) /\ out (fst (m s)) = out s) -> rn m.
Proof. intros H. apply rn_frame. intros s. destruct (H s) as [E O]. split; [exact E|exists []; rewrite app_nil_r; exact O]. Qed.
Lemma rn_ret {X} (x : X) : rn (@ret Id Addr HO X x). Proof. apply rn_noemit. intros s; split; reflexivity. Qed.
Lemma rn_fail {X} e : rn (@fail Id Addr HO X e). Proof. apply rn_noemit. intros s; split; reflexivity. Qed.
Lemma rn_panic {X} p : rn (@panic Id Addr HO X p). Proof. apply rn_noemit. intros s; split; reflexivity. Qed.
Lemma rn_get : rn (@get Id Addr HO). Proof. apply rn_noemit. intros s; split; reflexivity. Qed.
Lemma rn_num_sends : rn (@num_sends Id Addr HO). Proof. apply rn_noemit. intros s; split; reflexivity. Qed.
Lemma rn_emit e : rn (@emit Id Addr HO e).
Proof. apply rn_frame. intros s. split; [reflexivity|exists [e]; reflexivity]. Qed.
Lemma rn_ask r : rn (ask rnd r). Proof. apply rn_noemit. intros s; split; reflexivity. Qed.
Lemma rn_with_ctr {X} (g : N -> X * N) : rn (with_ctr g).
Proof. apply rn_noemit. intros s. unfold with_ctr. destruct (g (ctr s)). split; reflexivity. Qed.
Lemma rn_modify g : (forall f, mems (g f) = mems f) -> rn (@modify Id Addr HO g).
Proof. intros H. apply rn_noemit. intros s. cbn. split; [apply H|reflexivity]. Qed.
Lemma rn_when b (m : M unit) : rn m -> rn (when b m).
Proof. destruct b; cbn; auto. intros _. apply rn_ret. Qed.
Lemma rn_forM {X} (l : list X) (k : X -> M unit) : (forall x, rn (k x)) -> rn (forM_ l k).
Proof. intros H. induction l as [|x t IH]; cbn [forM_]; [apply rn_ret|]. apply rn_bind; auto. Qed.
Lemma rn_attempt (m : M unit) : rn m -> rn (attempt m).
Proof. intros H s. specialize (H s). unfold rnP in *. unfold attempt. destruct (m s) as [s1 [x|e|p]]; auto. Qed.
Lemma rn_get_bind {X} (k : foca -> M X) : (forall s, rnP (k (st s)) s) -> rn (f <- get ;; k f).
Proof. intros H s. unfold rnP, bind, get. apply H. Qed.

(* what apply_existing_if does to the identity recorded for an address, and what its summary says *)
Definition idstep (sm : @summary Id) (u k k' : member) : Prop :=
  m_id k' = m_id k \/ (s_conflict sm = Replaced (m_id k) /\ m_id k' = m_id u).

Lemma apply_existing_if_rename (ms ms' : @members Id) u cond sm :
  uniq (inner ms) -> apply_existing_if ms u cond = Some (ms', sm) ->
  uniq (inner ms') /\ forall a k, view ms a = Some k -> exists k', view ms' a = Some k' /\ idstep sm u k k'.
Proof.
  intros U. unfold apply_existing_if.
  destruct (find_index _ (inner ms)) as [p|] eqn:F; [|discriminate].
  destruct (find_index_lookup _ _ _ F) as (k0 & Hp & Hk). fold (maddr u) in *. rewrite Hp.
  assert (Ek : maddr k0 = maddr u) by (apply lookup_Some_In in Hk; tauto).
  assert (SAME : forall sm0, uniq (inner ms) /\ forall a k, view ms a = Some k -> exists k', view ms a = Some k' /\ idstep sm0 u k k').
  { intros sm0. split; [exact U|]. intros a k V. exists k. split; [exact V|left; reflexivity]. }
  destruct (negb (id_eqb (m_id k0) (m_id u)) && wins (m_id k0) (m_id u)).
  { intros E. inversion E; subst. apply SAME. }
  destruct (negb (cond k0)).
  { intros E. inversion E; subst. apply SAME. }
  destruct (negb (id_eqb (m_id k0) (m_id u))) eqn:Conf.
  - intros E. inversion E; subst; clear E.
    assert (Em : maddr (mkMember (m_id u) (m_inc u) (m_state u)) = maddr k0) by (symmetry; exact Ek).
    split; [unfold uniq; cbn [inner]; erewrite map_set_nth_same; eauto|].
    intros a k V. unfold view in *. cbn [inner]. rewrite (lookup_set_nth _ _ _ k0 a U Hp Em).
    destruct (addr_eqb (maddr (mkMember (m_id u) (m_inc u) (m_state u))) a) eqn:Ea.
    + eexists. split; [reflexivity|]. right. cbn [s_conflict m_id]. split; [|reflexivity].
      apply addr_eqb_eq in Ea. rewrite Em in Ea. subst a. rewrite Ek, Hk in V. inversion V; subst. reflexivity.
    + exists k. split; [exact V|left; reflexivity].
  - destruct (change_state k0 (m_inc u) (m_state u)) as [k1 ok] eqn:CS.
    intros E. inversion E; subst; clear E.
    assert (I1 : m_id k1 = m_id k0).
    { unfold change_state in CS. destruct (can_change k0 (m_inc u) (m_state u)); inversion CS; reflexivity. }
    assert (Em : maddr k1 = maddr k0) by (unfold maddr; rewrite I1; reflexivity).
    split; [unfold uniq; cbn [inner]; erewrite map_set_nth_same; eauto|].
    intros a k V. unfold view in *. cbn [inner]. rewrite (lookup_set_nth _ _ _ k0 a U Hp Em).
    destruct (addr_eqb (maddr k1) a) eqn:Ea.
    + eexists. split; [reflexivity|]. left.
      apply addr_eqb_eq in Ea. rewrite Em in Ea. subst a. rewrite Ek, Hk in V. inversion V; subst. exact I1.
    + exists k. split; [exact V|left; reflexivity].
Qed.

Lemma members_apply_rename (ms : @members Id) u n :
  uniq (inner ms) ->
  let '(ms', sm, _) := members_apply rnd ms u n in
  uniq (inner ms') /\ forall a k, view ms a = Some k -> exists k', view ms' a = Some k' /\ idstep sm u k k'.
Proof.
  intros U. pose proof (members_apply_spec rnd ms u n U) as SP. unfold members_apply in *.
  pose proof (apply_existing_if_true_spec ms u U) as S0.
  destruct (apply_existing_if ms u (fun _ => true)) as [[ms' sm]|] eqn:AE.
  - exact (apply_existing_if_rename ms ms' u _ sm U AE).
  - cbn [fst] in SP. destruct SP as [U' Hv]. split; [exact U'|].
    intros a k V. exists k. split; [|left; reflexivity]. rewrite Hv.
    destruct (addr_eqb (maddr u) a) eqn:Ea; [|exact V].
    apply addr_eqb_eq in Ea. subst a. unfold view in V. rewrite S0 in V. discriminate.
Qed.

(* the member list is replaced by the result of an apply and the summary is handled: the Rename, if any,
   is among what handle_apply_summary emits *)
Lemma rnP_set_hsum (ms : @members Id) sm u b (s : rs) :
  (uniq (inner (mems (st s))) ->
   uniq (inner ms) /\ forall a k, view (mems (st s)) a = Some k -> exists k', view ms a = Some k' /\ idstep sm u k k') ->
  rnP (modify (fun f => set_mems f ms) ;;; handle_apply_summary sm u b) s.
Proof.
  intros H U. destruct (H U) as [U' R].
  assert (EQ : (modify (fun f => set_mems f ms) ;;; handle_apply_summary sm u b) s
               = (mkRs (hsum_state sm u b (set_mems (st s) ms)) (out s ++ hsum_out sm u (set_mems (st s) ms)) (ctr s), ROk tt)).
  { unfold bind, modify. cbv beta iota. rewrite hsum_eq. reflexivity. }
  rewrite EQ. cbn [fst st out ctr].
  assert (Mm : mems (hsum_state sm u b (set_mems (st s) ms)) = ms) by (unfold hsum_state; destruct (_ && _); reflexivity).
  split; [unfold UQ; cbn [st]; rewrite Mm; exact U'|].
  eexists. split; [reflexivity|]. rewrite Mm. intros a k V. destruct (R a k V) as (k' & V' & [E|[C E]]).
  - exists k'. split; [exact V'|]. rewrite E. apply rp_refl.
  - exists k'. split; [exact V'|]. eapply rp_step; [|apply rp_refl]. rewrite E.
    unfold hsum_out. rewrite C. apply in_or_app. right. apply in_or_app. left. left. reflexivity.
Qed.

Ltac rn_step :=
  first
    [ apply rn_ret | apply rn_fail | apply rn_panic | apply rn_get | apply rn_num_sends
    | apply rn_emit | apply rn_ask | apply rn_with_ctr
    | apply rn_quiet; first [apply quiet_send_message|apply quiet_gossip|apply quiet_choose_and_send|apply quiet_announce_to_down
                            |apply quiet_submit_periodic|apply quiet_broadcast|apply quiet_add_broadcast|apply quiet_add_update
                            |apply quiet_add_custom|apply quiet_handle_custom_broadcasts|apply quiet_indirect_loop|apply quiet_set_config
                            |apply quiet_choose_active|apply quiet_feed_loop|apply quiet_custom_loop|apply quiet_broadcast_loop]
    | apply rn_modify; intros ?; reflexivity
    | apply rn_when | apply rn_attempt
    | apply rn_forM; intros ?; cbv beta
    | apply rn_bind; [|intros ?]
    | progress cbv zeta
    | progress unfold handle_apply_summary, become_connected, become_disconnected, become_undead, adjust_connection_state, reset,
        change_identity, attempt_rejoin, handle_self_update, leave_cluster, reuse_down_identity, periodic_guard
    | match goal with
      | |- rn (match ?x with _ => _ end) => destruct x
      | |- rn (if ?c then _ else _) => destruct c
      | |- rn (let '(_, _) := ?x in _) => destruct x
      end ].
Ltac rn_auto := repeat rn_step.

Lemma rn_hsum sm u b : rn (@handle_apply_summary Id Addr IO CO HO sm u b).
Proof. rn_auto. Qed.

Lemma rn_apply_update u b : rn (apply_update rnd u b).
Proof.
  unfold apply_update. apply rn_get_bind. intros s.
  destruct (id_eqb (identity (st s)) (m_id u)); [apply rn_panic|].
  destruct (members_apply rnd (mems (st s)) u (ctr s)) as [[ms sm] k'] eqn:MA.
  set (s0 := mkRs (st s) (out s) k').
  set (rest := ((modify (fun f => set_mems f ms) ;;; handle_apply_summary sm u b) ;;;
                ret (match s_conflict sm with Lost | FailedCondition => false | _ => is_active_now sm end)) : M bool).
  assert (E : (r <- with_ctr (fun k => let '(ms, s, k') := members_apply rnd (mems (st s)) u k in ((ms, s), k')) ;;
               let '(ms, s) := r in
               modify (fun f => set_mems f ms) ;;;
               handle_apply_summary s u b ;;;
               ret (match s_conflict s with Lost | FailedCondition => false | _ => is_active_now s end)) s = rest s0).
  { unfold bind at 1, with_ctr at 1. rewrite MA. cbv beta iota. subst rest.
    unfold bind, modify. cbv beta iota. cbn [st out ctr]. rewrite !hsum_eq. reflexivity. }
  unfold rnP. rewrite E. intros U.
  assert (V : rnP rest s0).
  { subst rest. apply rnP_bind.
    - apply rnP_set_hsum. intros U0. cbn [st s0] in *.
      pose proof (members_apply_rename (mems (st s)) u (ctr s) U0) as R. rewrite MA in R. exact R.
    - intros _. apply rn_ret. }
  exact (V U).
Qed.

Lemma rn_send_message dst msg : rn (send_message rnd dst msg). Proof. apply rn_quiet, quiet_send_message. Qed.
Lemma rn_gossip : rn (gossip rnd). Proof. apply rn_quiet, quiet_gossip. Qed.

Lemma rn_handle_self_update inc st0 : rn (handle_self_update rnd inc st0).
Proof. rn_auto. Qed.
Lemma rn_apply_one b u : rn (apply_one rnd b u).
Proof.
  unfold apply_one. apply rn_bind; [apply rn_get|]. intros f.
  destruct (id_eqb _ _); [apply rn_handle_self_update|].
  destruct (addr_eqb _ _); (apply rn_bind; [apply rn_apply_update|intros _; apply rn_ret]).
Qed.
Lemma rn_apply_many l b : rn (apply_many rnd l b).
Proof. unfold apply_many. apply rn_bind; [apply rn_forM; intros u; apply rn_apply_one|]. intros _. rn_auto. Qed.
Lemma rn_react src msg : rn (react rnd src msg).
Proof.
  unfold react. apply rn_bind; [apply rn_get|]. intros f.
  destruct msg; try (rn_auto; fail); try apply rn_handle_self_update; rn_auto.
Qed.

Lemma rn_handle_data data : rn (handle_data rnd data).
Proof.
  unfold handle_data. apply rn_bind; [apply rn_get|]. intros f.
  destruct (_ <? _); [apply rn_fail|].
  destruct (dec_hdr data) as [[h rest]|]; [|apply rn_fail].
  destruct (_ || _); [apply rn_fail|]. cbv zeta.
  destruct (_ || _); [apply rn_fail|].
  destruct (negb (accept_payload f h)); [apply rn_ret|].
  apply rn_bind.
  { destruct (_ && _); [|apply rn_ret]. destruct (get_u16 rest) as [[n r]|]; [|apply rn_fail].
    destruct (dec_members _ _); [apply rn_ret|apply rn_fail]. }
  intros [ul tail].
  apply rn_bind; [apply rn_apply_update|]. intros active.
  destruct (negb active).
  - apply rn_bind; [apply rn_get|]. intros f0. cbv zeta.
    apply rn_bind; [apply rn_when, rn_handle_self_update|]. intros _.
    apply rn_bind; [apply rn_get|]. intros f1. apply rn_when, rn_send_message.
  - apply rn_bind; [apply rn_apply_many|]. intros _.
    apply rn_bind.
    { apply rn_attempt. apply rn_quiet, quiet_handle_custom_broadcasts. }
    intros cres. apply rn_bind; [apply rn_get|]. intros f1.
    destruct (negb _); [destruct cres; [apply rn_fail|apply rn_ret]|].
    apply rn_bind; [apply rn_react|]. intros _. destruct cres; [apply rn_fail|apply rn_ret].
Qed.

Lemma rnP_with_ctr_bind {X Y} (g : N -> X * N) (k : X -> M Y) (s : rs) :
  rnP (k (fst (g (ctr s)))) (mkRs (st s) (out s) (snd (g (ctr s)))) -> rnP (x <- with_ctr g ;; k x) s.
Proof. unfold rnP, bind, with_ctr. destruct (g (ctr s)) as [x k']. cbn [fst snd]. auto. Qed.

Lemma rnP_set_mems (ms : @members Id) (s : rs) :
  (uniq (inner (mems (st s))) -> uniq (inner ms) /\ renamed (mems (st s)) ms []) ->
  rnP (modify (fun f => set_mems f ms)) s.
Proof. intros H U. cbn. destruct (H U) as [U' R]. split; [exact U'|]. exists []. split; [symmetry; apply app_nil_r|exact R]. Qed.

Lemma rn_probe_random_member : rn (probe_random_member rnd).
Proof.
  unfold probe_random_member. apply rn_bind; [apply rn_get|]. intros f.
  destruct (negb _); [apply rn_panic|]. cbv zeta.
  apply rn_bind; [apply rn_when, rn_modify; intros ?; reflexivity|]. intros _.
  apply rn_bind; [apply rn_get|]. intros f1. destruct (probe_take_failed (prb f1)) as [p' failed].
  apply rn_bind; [apply rn_modify; intros ?; reflexivity|]. intros _.
  apply rn_bind.
  { destruct failed as [fm|]; [|apply rn_ret]. cbv zeta. apply rn_get_bind. intros s.
    destruct (apply_existing_if (mems (st s)) _ _) as [[ms sm]|] eqn:AE; [|apply rn_ret].
    match goal with |- rnP (?a ;;; ?b ;;; ?c) s =>
      assert (EQ : forall s0, (a ;;; b ;;; c) s0 = ((a ;;; b) ;;; c) s0) end.
    { intros s0. unfold bind, modify. cbv beta iota. rewrite !hsum_eq. reflexivity. }
    unfold rnP. rewrite EQ. fold (rnP ((modify (fun f0 => set_mems f0 ms);;; handle_apply_summary sm (mkMember (m_id fm) (m_inc fm) Suspect) true);;;
                                       (f3 <- get;; when (is_active_now sm) (emit (Submit (TChangeSuspectToDown (m_id fm) (m_inc fm) (token f3)) (suspect_to_down_after (cfg f3)))))) s).
    apply rnP_bind; [apply rnP_set_hsum; intros U; exact (apply_existing_if_rename _ _ _ _ _ U AE)|]. intros _.
    apply rn_bind; [apply rn_get|]. intros f3. apply rn_when, rn_emit. }
  intros _. apply rn_get_bind. intros s. apply rnP_with_ctr_bind.
  pose proof (members_next_perm rnd (mems (st s)) (ctr s)) as MP.
  destruct (members_next rnd (mems (st s)) (ctr s)) as [[ms chosen] k']. cbn [fst snd] in *.
  apply rnP_bind.
  { apply rnP_set_mems. cbn [st]. intros U. split; [eapply uniq_perm; [symmetry; exact MP|exact U]|apply renamed_perm; assumption]. }
  intros _. apply rn_bind.
  { destruct chosen as [m|]; [|apply rn_ret]. apply rn_bind; [apply rn_get|]. intros f4.
    destruct (probe_start (prb f4) m) as [p'0 n].
    apply rn_bind; [apply rn_modify; intros ?; reflexivity|]. intros _.
    apply rn_bind; [apply rn_send_message|]. intros _. apply rn_bind; [apply rn_get|]. intros f5. apply rn_emit. }
  intros _. apply rn_bind; [apply rn_get|]. intros f4. apply rn_bind; [apply rn_emit|]. intros _.
  destruct (negb _); [apply rn_fail|apply rn_ret].
Qed.

(* every timer but the forget-timer *)
Lemma rn_handle_timer t : (forall x, t <> TRemoveDown x) -> rn (handle_timer rnd t).
Proof.
  intros NR. unfold handle_timer.
  destruct t as [tok|probed tok|mid inc tok|tok|tok|tok|down].
  - apply rn_bind; [apply rn_get|]. intros f. destruct (tok =? token f); [|apply rn_ret].
    destruct (negb _); [apply rn_fail|apply rn_probe_random_member].
  - apply rn_bind; [apply rn_get|]. intros f. destruct (negb (tok =? token f)); [apply rn_ret|].
    apply rn_bind; [apply rn_modify; intros ?; reflexivity|]. intros _.
    destruct (negb (probe_is_probing _ _)); [apply rn_ret|].
    destruct (probe_succeeded _); [apply rn_ret|].
    destruct (negb (is_active_id _ _)); [apply rn_ret|].
    apply rn_bind; [rn_auto|intros chosen; apply rn_quiet, quiet_indirect_loop].
  - apply rn_get_bind. intros s. destruct (negb (token (st s) =? tok)); [apply rn_ret|]. cbv zeta.
    destruct (apply_existing_if (mems (st s)) _ _) as [[ms sm]|] eqn:AE; [|apply rn_ret].
    match goal with |- rnP (?a ;;; ?b ;;; ?c) s =>
      assert (EQ : forall s0, (a ;;; b ;;; c) s0 = ((a ;;; b) ;;; c) s0);
      [intros s0; unfold bind at 1 2 4 5, modify; cbv beta iota; rewrite !hsum_eq; reflexivity|];
      unfold rnP; rewrite EQ; change (rnP ((a ;;; b) ;;; c) s) end.
    apply rnP_bind; [apply rnP_set_hsum; intros U; exact (apply_existing_if_rename _ _ _ _ _ U AE)|]. intros _.
    apply rn_bind; [rn_auto|]. intros _. apply rn_when, rn_send_message.
  - apply rn_bind; [apply rn_get|]. intros f. rn_auto.
  - apply rn_bind; [apply rn_get|]. intros f. rn_auto.
  - apply rn_bind; [apply rn_get|]. intros f. rn_auto.
  - exfalso. exact (NR down eq_refl).
Qed.

(* ONE CALL other than the forget-timer *)
Theorem step_renames_reported (f : foca) (i : @input Id) :
  match i with ITimer (TRemoveDown _) => False | _ => True end ->
  uniq (inner (mems f)) ->
  let '(f', es, _, _) := step rnd f i in
  uniq (inner (mems f')) /\ renamed (mems f) (mems f') es.
Proof.
  intros NR U.
  assert (RU : forall (m : M unit), rn m ->
            let '(f', es, _, _) := run_unit m f in uniq (inner (mems f')) /\ renamed (mems f) (mems f') es).
  { intros m Hm. specialize (Hm (mkRs f [] 0) U). unfold run_unit. destruct (m (mkRs f [] 0)) as [s' r].
    cbn [fst st out] in Hm. destruct Hm as (U' & new & O & R). cbn [app] in O. rewrite O. split; assumption. }
  destruct i; cbn [step].
  - apply RU, rn_handle_data.
  - apply RU, rn_handle_timer. intros x E. subst t. exact NR.
  - apply RU, rn_apply_many.
  - apply RU, rn_send_message.
  - apply RU, rn_gossip.
  - apply RU. apply rn_quiet, quiet_broadcast.
  - apply RU. rn_auto.
  - apply RU. rn_auto.
  - apply RU. rn_auto.
  - apply RU. apply rn_quiet, quiet_set_config.
  - assert (G : rn (@add_broadcast Id Addr HO b)) by (apply rn_quiet, quiet_add_broadcast).
    specialize (G (mkRs f [] 0) U). unfold run_bool. destruct (add_broadcast b (mkRs f [] 0)) as [s' r].
    cbn [fst st out] in G. destruct G as (U' & new & O & R). cbn [app] in O. rewrite O. split; assumption.
Qed.

(* any history without forget-timers: the effects of all its calls, in order *)
Fixpoint hist_effects (f : foca) (l : list (@input Id)) : list effect :=
  match l with
  | [] => []
  | i :: t => snd (fst (fst (step rnd f i))) ++ hist_effects (fst (fst (fst (step rnd f i)))) t
  end.

Theorem history_renames_reported (l : list (@input Id)) : forall f,
  no_forget l -> uniq (inner (mems f)) ->
  uniq (inner (mems (run_calls rnd f l))) /\ renamed (mems f) (mems (run_calls rnd f l)) (hist_effects f l).
Proof.
  induction l as [|i t IH]; intros f NF U; cbn [run_calls hist_effects].
  - split; [exact U|apply renamed_refl].
  - assert (NR : match i with ITimer (TRemoveDown _) => False | _ => True end /\ no_forget t).
    { destruct i as [| t0 | | | | | | | | | ]; try (cbn in NF; split; [exact I|exact NF]).
      destruct t0; cbn in NF; try (split; [exact I|exact NF]); contradiction. }
    destruct NR as [NR NF']. pose proof (step_renames_reported f i NR U) as S1.
    destruct (step rnd f i) as [[[f1 es] r] k]. cbn [fst snd]. destruct S1 as [U1 R1].
    destruct (IH _ NF' U1) as [U2 R2]. split; [exact U2|eapply renamed_trans; eauto].
Qed.

End Rename.
