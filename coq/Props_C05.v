(* Props_C05.v — C05: auto-rejoin after a healed partition (PARTIAL).
   Proved: the per-instance steps of rejoining - a member held Down is told so (one TurnUndead,
   payload discarded); told that it is down, an instance renews to a winning identity at
   incarnation 0 and notifies Rejoin, or goes Defunct, nothing else; the renewed identity
   supersedes the Down record at every member that hears from it; periodic announces to Down
   members never target the own address.  Convergence of the whole cluster in bounded time is
   decided by partition/heal simulations of real instances (known finding F8: simultaneous
   renewals can leave every instance idle). *)
From Foca Require Import Laws MembersM FocaM L_Members L_MembersInv L_Join L_Forward Inv Reach L_Discard L_Mech.

Section C05.
Context {Id Addr : Type} {IO : IdOps Id Addr} {CO : CodecOps Id} {HO : HandlerOps Id}.
Context {IL : IdLaws IO} {EL : @ExtraLaws Id Addr IO CO}.

Theorem C05_down_sender_is_told (rnd : oracle) (h : header Id) ul tail (s s1 : @rs Id Addr HO) :
  apply_update rnd (mkMember (h_src h) (h_src_inc h) Alive) true s = (s1, ROk false) ->
  h_msg h <> TurnUndead ->
  after_parse rnd h ul tail s =
  (when (notify_down_members (cfg (st s1))) (send_message rnd (h_src h) TurnUndead)) s1.
Proof. exact (inactive_sender_discards rnd h ul tail s s1). Qed.

Theorem C05_rejoin_or_defunct (rnd : oracle) (s : @rs Id Addr HO) (inc : N) :
  match handle_self_update rnd inc Down s with
  | (s', ROk _) =>
      (exists new_id, renew (identity (st s)) = Some new_id /\ new_id <> identity (st s)
                      /\ wins new_id (identity (st s)) = true
                      /\ identity (st s') = new_id /\ incarnation (st s') = 0
                      /\ In (Notify (NRejoin new_id)) (out s'))
      \/ (identity (st s') = identity (st s) /\ conn (st s') = Undead /\ In (Notify NDefunct) (out s'))
  | _ => True
  end.
Proof. exact (down_dichotomy rnd s inc). Qed.

(* a winning identity of the same address replaces the Down record whatever its state *)
Theorem C05_renewed_identity_accepted (rnd : oracle) (ms : @members Id) (k : member Id) (new_id : Id) (inc : N) (n : N) :
  uniq (inner ms) -> view ms (addr_of new_id) = Some k ->
  wins new_id (m_id k) = true ->
  view (fst (fst (members_apply rnd ms (mkMember new_id inc Alive) n))) (addr_of new_id)
  = Some (mkMember new_id inc Alive).
Proof.
  intros U V W. destruct (members_apply_spec rnd ms (mkMember new_id inc Alive) n U) as [_ H]. cbn zeta in H.
  rewrite H. unfold maddr. cbn [m_id]. rewrite addr_eqb_refl. unfold maddr in *. cbn [m_id]. rewrite V.
  unfold ojoin, rjoin, mltb. cbn [m_id]. rewrite W. reflexivity.
Qed.

(* destinations of every call, including the periodic announce to Down members, are foreign *)
Theorem C05_announces_go_elsewhere (rnd : oracle) (f : @foca Id Addr HO) (tok : N) :
  WF f ->
  Forall (fun e => match e with
                   | Send d _ => addr_of d <> addr_of (identity f)
                   | _ => True
                   end) (step_effects rnd f (ITimer (TPeriodicAnnounceDown tok))).
Proof.
  intros W. pose proof (step_preserves' rnd f (ITimer (TPeriodicAnnounceDown tok)) W I) as (_ & _ & H & _).
  eapply Forall_impl; [|exact H]. intros [d b| |]; cbn; auto. intros [X|[]]. exact X.
Qed.

End C05.

Print Assumptions C05_down_sender_is_told.
Print Assumptions C05_rejoin_or_defunct.
Print Assumptions C05_renewed_identity_accepted.
Print Assumptions C05_announces_go_elsewhere.
