(* Props_C19.v — C19: Foca never chooses its own address as a destination. *)
From Foca Require Import Laws FocaM L_Members L_MembersInv Inv Reach.

Section C19.
Context {Id Addr : Type} {IO : IdOps Id Addr} {CO : CodecOps Id} {HO : HandlerOps Id}.
Context {IL : IdLaws IO} {EL : @ExtraLaws Id Addr IO CO}.

(* every datagram emitted by any call goes to a foreign address, unless the identity was
   named by the caller or by a peer: announce(dst), the relay target of a PingReq /
   IndirectAck, the member of a (possibly forged) suspicion timer *)
Theorem C19_destinations (rnd : oracle) (f : @foca Id Addr HO) (i : @input Id) :
  WF f -> input_ok (addr_of (identity f)) i ->
  Forall (fun e => match e with
                   | Send d _ => addr_of d <> addr_of (identity f) \/ named_by i d
                   | _ => True
                   end) (step_effects rnd f i).
Proof. exact (fun W I => proj1 (proj2 (proj2 (step_preserves' rnd f i W I)))). Qed.

(* the own address is fixed along every history, so the statement is about the same address *)
Theorem C19_own_address_constant (rnd : oracle) (f : @foca Id Addr HO) (i : @input Id) :
  WF f -> input_ok (addr_of (identity f)) i ->
  addr_of (identity (step_state rnd f i)) = addr_of (identity f).
Proof. exact (fun W I => proj1 (proj2 (step_preserves' rnd f i W I))). Qed.

Theorem C19_every_history (id0 : Id) (c0 : config) (h0 : hstate) (f : @foca Id Addr HO)
        (rnd : oracle) (i : @input Id) :
  cfg_ok c0 -> reach id0 c0 h0 f -> input_ok (addr_of (identity f)) i ->
  Forall (fun e => match e with
                   | Send d _ => addr_of d <> addr_of id0 \/ named_by i d
                   | _ => True
                   end) (step_effects rnd f i).
Proof.
  intros CK R I. destruct (reach_WF id0 c0 h0 f CK R) as [W A]. rewrite <- A.
  exact (C19_destinations rnd f i W I).
Qed.

End C19.

Print Assumptions C19_destinations.
Print Assumptions C19_own_address_constant.
Print Assumptions C19_every_history.
