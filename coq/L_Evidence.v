(* L_Evidence.v — C12 / C02 / C04 over interleavings: once the current round has evidence (a direct
   Ack or a counted ForwardedAck) - or there is no round - this stays so through EVERY call other than
   the live ProbeRandomMember timer, in any order and number; and a live ProbeRandomMember timer that
   finds the round with evidence schedules no suspicion timeout and leaves the member list alone.
   So evidence that arrives at any moment before the end of the round prevents the suspicion. *)
From Coq Require Import Permutation.
From Foca Require Import Laws L_Lists MembersM ProbeM BcastM FocaM Hoare Inv L_Mech L_Mirror L_ConnCons L_Acct L_Footprint L_RoundEnd L_RoundSuspect.

Section Evidence.
Context {Id Addr : Type} {IO : IdOps Id Addr} {CO : CodecOps Id} {HO : HandlerOps Id} {IL : IdLaws IO}.
Variable rnd : oracle.
Notation member := (member Id).
Notation foca := (@foca Id Addr HO).
Notation rs := (@rs Id Addr HO).
Notation M := (@M Id Addr HO).
Notation effect := (effect Id).
Notation "x <- m ;; f" := (bind m (fun x => f)) (at level 61, m at next level, right associativity).
Notation "m ;;; f" := (bind m (fun _ => f)) (at level 61, right associativity).

(* the round has evidence, or there is no round *)
Definition ev (p : probe Id) : Prop := probe_succeeded p = true \/ p_direct p = None.

Definition evP {X} (m : M X) (s : rs) : Prop := ev (prb (st s)) -> ev (prb (st (fst (m s)))).
Definition evk {X} (m : M X) : Prop := forall s, evP m s.

Lemma evP_bind {X Y} (m : M X) (k : X -> M Y) (s : rs) : evP m s -> (forall a, evk (k a)) -> evP (bind m k) s.
Proof.
  intros Hm Hk H. specialize (Hm H). unfold bind. destruct (m s) as [s1 [a|e|p]]; cbn [fst] in *; auto.
  apply Hk. exact Hm.
Qed.
Lemma evk_bind {X Y} (m : M X) (k : X -> M Y) : evk m -> (forall a, evk (k a)) -> evk (bind m k).
Proof. intros Hm Hk s. apply evP_bind; [apply Hm|exact Hk]. Qed.
Lemma evk_same {X} (m : M X) : (forall s, prb (st (fst (m s))) = prb (st s)) -> evk m.
Proof. intros H s. unfold evP. rewrite H. auto. Qed.
Lemma evk_ret {X} (x : X) : evk (@ret Id Addr HO X x). Proof. apply evk_same. reflexivity. Qed.
Lemma evk_fail {X} e : evk (@fail Id Addr HO X e). Proof. apply evk_same. reflexivity. Qed.
Lemma evk_panic {X} p : evk (@panic Id Addr HO X p). Proof. apply evk_same. reflexivity. Qed.
Lemma evk_get : evk (@get Id Addr HO). Proof. apply evk_same. reflexivity. Qed.
Lemma evk_num_sends : evk (@num_sends Id Addr HO). Proof. apply evk_same. reflexivity. Qed.
Lemma evk_emit e : evk (@emit Id Addr HO e). Proof. apply evk_same. reflexivity. Qed.
Lemma evk_ask r : evk (ask rnd r). Proof. apply evk_same. reflexivity. Qed.
Lemma evk_with_ctr {X} (g : N -> X * N) : evk (with_ctr g).
Proof. apply evk_same. intros s. unfold with_ctr. destruct (g (ctr s)). reflexivity. Qed.
Lemma evP_modify g (s : rs) : (ev (prb (st s)) -> ev (prb (g (st s)))) -> evP (@modify Id Addr HO g) s.
Proof. intros H. exact H. Qed.
Lemma evk_modify g : (forall f, ev (prb f) -> ev (prb (g f))) -> evk (@modify Id Addr HO g).
Proof. intros H s. apply evP_modify. apply H. Qed.
Lemma evk_when b (m : M unit) : evk m -> evk (when b m).
Proof. destruct b; cbn; auto. intros _. apply evk_ret. Qed.
Lemma evk_forM {X} (l : list X) (k : X -> M unit) : (forall x, evk (k x)) -> evk (forM_ l k).
Proof. intros H. induction l as [|x t IH]; cbn [forM_]; [apply evk_ret|]. apply evk_bind; auto. Qed.
Lemma evk_attempt (m : M unit) : evk m -> evk (attempt m).
Proof. intros H s. specialize (H s). unfold evP in *. unfold attempt. destruct (m s) as [s1 [x|e|p]]; auto. Qed.
Lemma evk_get_bind {X} (k : foca -> M X) : (forall s, evP (k (st s)) s) -> evk (f <- get ;; k f).
Proof. intros H s. unfold evP, bind, get. apply H. Qed.

Lemma ev_clear (p : probe Id) : ev (probe_clear p). Proof. right. reflexivity. Qed.
Lemma ev_mark (p : probe Id) : ev p -> ev (probe_mark_reached p).
Proof. intros [H|H]; [left|right]; exact H. Qed.
Lemma ev_receive_ack (p : probe Id) src n : ev p -> ev (fst (probe_receive_ack p src n)).
Proof.
  unfold probe_receive_ack. destruct (_ && _); cbn [fst]; auto. intros _. left. reflexivity.
Qed.
Lemma ev_receive_indirect_ack (p : probe Id) src n : ev p -> ev (fst (probe_receive_indirect_ack p src n)).
Proof.
  unfold probe_receive_indirect_ack. destruct (negb _); cbn [fst]; auto.
  destruct (find_index _ _); cbn [fst]; auto. intros [H|H]; [left|right; exact H].
  unfold probe_succeeded in *. cbn. apply orb_true_iff in H. apply orb_true_iff. destruct H as [H|H]; [left; exact H|right].
  apply N.ltb_lt. apply N.ltb_lt in H. lia.
Qed.

Ltac ev_step :=
  first
    [ apply evk_ret | apply evk_fail | apply evk_panic | apply evk_get | apply evk_num_sends
    | apply evk_emit | apply evk_ask | apply evk_with_ctr
    | apply evk_same; intros ?; reflexivity
    | apply evk_modify; intros ? ?; first [apply ev_clear|apply ev_receive_ack; assumption|apply ev_receive_indirect_ack; assumption|apply ev_mark; assumption]
    | apply evk_when | apply evk_attempt
    | apply evk_forM; intros ?; cbv beta
    | apply evk_bind; [|intros ?]
    | progress cbv zeta
    | progress unfold send_message, send_body, send_customs, estimate_feed_capacity, choose_active, choose_and_send,
        gossip, announce_to_down, add_update, add_custom, handle_apply_summary, apply_update, submit_periodic,
        become_connected, become_disconnected, become_undead, adjust_connection_state, reset,
        handle_custom_broadcasts, change_identity, attempt_rejoin, handle_self_update,
        apply_one, apply_many, leave_cluster, broadcast, react, reuse_down_identity, add_broadcast, periodic_guard
    | match goal with
      | |- evk (match ?x with _ => _ end) => destruct x
      | |- evk (if ?c then _ else _) => destruct c
      | |- evk (let '(_, _) := ?x in _) => destruct x
      end ].
Ltac ev_auto := repeat ev_step.

Lemma evk_feed_loop l : forall room count acc0, evk (@feed_loop Id Addr CO HO l room count acc0).
Proof. induction l as [|m t IH]; intros room count acc0; cbn [feed_loop]; ev_auto. apply IH. Qed.
Lemma evk_custom_loop sender fuel : forall data, evk (@custom_loop Id Addr HO fuel data sender).
Proof. induction fuel as [|fuel IH]; intros data; cbn [custom_loop]; ev_auto. apply IH. Qed.
Lemma evk_broadcast_loop l : evk (broadcast_loop rnd l).
Proof. induction l as [|m t IH]; cbn [broadcast_loop]; ev_auto; first [apply evk_feed_loop|apply IH]. Qed.
Lemma evk_send_message dst msg : evk (send_message rnd dst msg).
Proof. ev_auto; apply evk_feed_loop. Qed.

Lemma evk_indirect_loop probed l : evk (indirect_loop rnd probed l).
Proof.
  unfold indirect_loop. apply evk_forM. intros m. apply evk_get_bind. intros s.
  destruct (probe_expect_indirect_ack (prb (st s)) (m_id m)) as [p'|] eqn:E; [|apply evk_panic].
  assert (V : ev (prb (st s)) -> ev p').
  { unfold probe_expect_indirect_ack in E. destruct (p_direct (prb (st s))) as [d|] eqn:D; [|discriminate].
    destruct (id_eqb (m_id d) (m_id m)); [discriminate|]. inversion E; subst p'.
    intros [H|H]; [left; exact H|rewrite D in H; discriminate]. }
  apply evP_bind; [apply evP_modify; exact V|]. intros _. apply evk_send_message.
Qed.

Lemma evk_handle_data data : evk (handle_data rnd data).
Proof. unfold handle_data. ev_auto; first [apply evk_feed_loop|apply evk_custom_loop]. Qed.

Lemma evk_handle_timer_nonprm t : (forall k, t <> TProbeRandomMember k) -> evk (handle_timer rnd t).
Proof.
  intros NP. unfold handle_timer. apply evk_bind; [apply evk_get|]. intros f.
  destruct t as [tok|probed tok|mid inc tok|tok|tok|tok|down].
  - exfalso. exact (NP tok eq_refl).
  - destruct (negb (tok =? token f)); [apply evk_ret|].
    apply evk_bind; [apply evk_modify; intros ? ?; apply ev_mark; assumption|]. intros _.
    destruct (negb (probe_is_probing _ _)); [apply evk_ret|].
    destruct (probe_succeeded _); [apply evk_ret|].
    destruct (negb (is_active_id _ _)); [apply evk_ret|].
    apply evk_bind; [ev_auto|intros chosen; apply evk_indirect_loop].
  - ev_auto; apply evk_feed_loop.
  - ev_auto; apply evk_feed_loop.
  - ev_auto; apply evk_feed_loop.
  - ev_auto; apply evk_feed_loop.
  - ev_auto.
Qed.

(* one call other than the live ProbeRandomMember timer keeps the evidence *)
Theorem step_keeps_evidence (f : foca) (i : @input Id) :
  match i with ITimer (TProbeRandomMember k) => ~ (k = token f /\ conn f = Connected) | _ => True end ->
  ev (prb f) -> ev (prb (fst (fst (fst (step rnd f i))))).
Proof.
  intros NL H.
  assert (RU : forall (m : M unit), evk m -> ev (prb (fst (fst (fst (run_unit m f)))))).
  { intros m Hm. specialize (Hm (mkRs f [] 0) H). unfold run_unit. destruct (m (mkRs f [] 0)) as [s' r]. exact Hm. }
  destruct i; cbn [step].
  - apply RU, evk_handle_data.
  - destruct t as [tok|probed tok|mid inc tok|tok|tok|tok|down]; try (apply RU, evk_handle_timer_nonprm; intros k; discriminate).
    unfold run_unit, handle_timer, bind, get. cbv beta iota. cbn [st].
    destruct (tok =? token f) eqn:T; [|exact H].
    destruct (conn_eqb (conn f) Connected) eqn:CE; cbn [negb]; [|exact H].
    exfalso. apply NL. split; [apply N.eqb_eq; exact T|destruct (conn f); try discriminate; reflexivity].
  - apply RU. ev_auto; apply evk_feed_loop.
  - apply RU, evk_send_message.
  - apply RU. ev_auto; apply evk_feed_loop.
  - apply RU. ev_auto; first [apply evk_broadcast_loop|apply evk_feed_loop].
  - apply RU. ev_auto; apply evk_feed_loop.
  - apply RU. ev_auto; apply evk_feed_loop.
  - apply RU. ev_auto.
  - apply RU. unfold set_config. ev_auto.
  - assert (G : evk (@add_broadcast Id Addr HO b)) by ev_auto.
    specialize (G (mkRs f [] 0) H). unfold run_bool. destruct (add_broadcast b (mkRs f [] 0)) as [s' r]. exact G.
Qed.

(* any number of such calls, in any order *)
Definition not_live_probe (f : foca) (i : @input Id) : Prop :=
  match i with ITimer (TProbeRandomMember k) => ~ (k = token f /\ conn f = Connected) | _ => True end.
Fixpoint run_calls (f : foca) (l : list (@input Id)) : foca :=
  match l with [] => f | i :: t => run_calls (fst (fst (fst (step rnd f i)))) t end.
Fixpoint no_live_probe (f : foca) (l : list (@input Id)) : Prop :=
  match l with [] => True | i :: t => not_live_probe f i /\ no_live_probe (fst (fst (fst (step rnd f i)))) t end.

Theorem history_keeps_evidence (l : list (@input Id)) : forall f,
  no_live_probe f l -> ev (prb f) -> ev (prb (run_calls f l)).
Proof.
  induction l as [|i t IH]; intros f NL H; [exact H|]. cbn [run_calls]. destruct NL as [N1 N2].
  apply IH; [exact N2|]. apply step_keeps_evidence; assumption.
Qed.

(* the end of a round that has evidence: no suspicion timeout, the member list is left alone *)
Theorem round_with_evidence_ends_quietly (f : foca) :
  conn f = Connected -> ev (prb f) ->
  let '(f', es, _, _) := step rnd f (ITimer (TProbeRandomMember (token f))) in
  cstd_of es = [] /\ Permutation (inner (mems f')) (inner (mems f)).
Proof.
  intros Cn H.
  assert (TF : snd (probe_take_failed (if negb (probe_validate (prb f)) then probe_clear (prb f) else prb f)) = None).
  { destruct (negb (probe_validate (prb f))).
    - unfold probe_take_failed. destruct (negb _); reflexivity.
    - unfold probe_take_failed. destruct H as [H|H]; [rewrite H; reflexivity|].
      destruct (negb _); cbn [snd]; [exact H|reflexivity]. }
  pose proof (step_round_members rnd f Cn) as PM. unfold round_members in PM. rewrite TF in PM.
  assert (RE : cstd_of (snd (fst (fst (step rnd f (ITimer (TProbeRandomMember (token f))))))) = round_suspicion f).
  { cbn [step]. unfold run_unit, handle_timer, bind at 1, get at 1. cbv beta iota. cbn [st].
    rewrite N.eqb_refl, Cn. cbn [conn_eqb negb].
    destruct (probe_round_end rnd (mkRs f [] 0) Cn) as (new & O & C).
    destruct (probe_random_member rnd (mkRs f [] 0)) as [s' r0]. cbn [fst snd out st app] in *. rewrite O. exact C. }
  unfold round_suspicion in RE. rewrite TF in RE.
  destruct (step rnd f (ITimer (TProbeRandomMember (token f)))) as [[[f' es] r] k]. cbn [fst snd] in *.
  split; [exact RE|exact PM].
Qed.

(* how the evidence gets there: the Ack carrying the current number from the member being probed *)
Theorem ack_is_evidence (p : probe Id) (from : Id) (n : N) :
  n = p_number p -> probe_is_probing p from = true -> ev (fst (probe_receive_ack p from n)).
Proof.
  intros -> P. unfold probe_receive_ack. rewrite N.eqb_refl, P. cbn. left. reflexivity.
Qed.

(* ... or a ForwardedAck carrying the current number from a helper that was asked and not yet counted *)
Theorem forwarded_ack_is_evidence (p : probe Id) (from : Id) (n : N) (pos : nat) :
  p_number p = n -> find_index (fun i => id_eqb i from) (p_indirect p) = Some pos ->
  ev (fst (probe_receive_indirect_ack p from n)).
Proof.
  intros E F. unfold probe_receive_indirect_ack. rewrite E, N.eqb_refl. cbn [negb]. rewrite F. cbn [fst].
  left. unfold probe_succeeded. cbn. apply orb_true_iff. right. apply N.ltb_lt. lia.
Qed.

End Evidence.
