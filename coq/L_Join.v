(* L_Join.v — the membership view after any sequence of updates is the join
   (maximum in the precedence order) of the initial record and the updates:
   independent of order, multiplicity and random insertion positions. *)
From Foca Require Import Laws L_Lists MembersM L_Members.

Section Join.
Context {Id Addr : Type} {IO : IdOps Id Addr} {IL : IdLaws IO}.
Notation member := (member Id).
Notation members := (@members Id).
Implicit Types (m k u : member) (l : list member) (r : option member).

Fixpoint apply_list (rnd : oracle) (ms : members) l (n : N) : members * N :=
  match l with
  | [] => (ms, n)
  | u :: t => let '(ms', _, n') := members_apply rnd ms u n in apply_list rnd ms' t n'
  end.

Definition jfold r l : option member := fold_left ojoin l r.

Definition at_addr (a : Addr) l := filter (fun u => addr_eqb (maddr u) a) l.

Lemma apply_list_view rnd (ms : members) l n :
  uniq (inner ms) ->
  uniq (inner (fst (apply_list rnd ms l n))) /\
  forall a, view (fst (apply_list rnd ms l n)) a = jfold (view ms a) (at_addr a l).
Proof.
  revert ms n. induction l as [|u l IH]; intros ms n U; cbn [apply_list].
  - split; auto.
  - pose proof (members_apply_spec rnd ms u n U) as S. cbn zeta in S.
    destruct (members_apply rnd ms u n) as [[ms' s] n'] eqn:E. cbn [fst] in S.
    destruct S as [U' V]. destruct (IH ms' n' U') as [U'' V'']. split; auto.
    intros a. rewrite V'', V. cbn [at_addr filter].
    destruct (addr_eqb (maddr u) a) eqn:Ea; auto.
    apply addr_eqb_eq in Ea. subst a. reflexivity.
Qed.

Definition oaddr_ok (a : Addr) r := forall k, r = Some k -> maddr k = a.

Lemma jfold_spec (a : Addr) l : forall r,
  (forall u, In u l -> maddr u = a) -> oaddr_ok a r ->
  (jfold r l = r \/ exists u, In u l /\ jfold r l = Some u) /\
  (forall x, r = Some x \/ In x l -> exists m, jfold r l = Some m /\ mle x m) /\
  oaddr_ok a (jfold r l).
Proof.
  induction l as [|u l IH]; intros r Hl Hr; cbn [jfold fold_left].
  - repeat split; auto. intros x [->|[]]. eexists; split; eauto. apply mle_refl.
  - assert (Hu : maddr u = a) by (apply Hl; left; reflexivity).
    assert (Hr' : oaddr_ok a (ojoin r u)).
    { intros k Hk. unfold ojoin in Hk. inversion Hk; subst k. destruct r as [k0|]; auto.
      rewrite rjoin_addr; auto. rewrite (Hr k0); auto. }
    destruct (IH (ojoin r u) (fun x H => Hl x (or_intror H)) Hr') as (C & G & A).
    fold (jfold (ojoin r u) l) in *.
    split; [|split]; auto.
    + destruct C as [C|(x & Hx & C)].
      * rewrite C. unfold ojoin. destruct r as [k0|].
        -- destruct (rjoin_cases k0 u) as [->| ->]; auto. right. exists u. split; auto. left; auto.
        -- right. exists u. split; auto. left; auto.
      * right. exists x. split; auto. right; auto.
    + intros x [Hx|[Hx|Hx]].
      * subst r. destruct (G (rjoin x u)) as (m & Hm & Le); [left; reflexivity|].
        exists m. split; auto.
        assert (Ax : maddr x = a) by (apply Hr; reflexivity).
        eapply (mle_trans x (rjoin x u) m); auto.
        -- rewrite rjoin_addr; congruence.
        -- rewrite (A m Hm). rewrite rjoin_addr; congruence.
        -- apply rjoin_ge_l.
      * subst x. unfold ojoin in G.
        destruct r as [k0|].
        -- destruct (G (rjoin k0 u)) as (m & Hm & Le); [left; reflexivity|].
           exists m. split; auto.
           assert (Ak : maddr k0 = a) by (apply Hr; reflexivity).
           eapply (mle_trans u (rjoin k0 u) m); auto.
           ++ rewrite rjoin_addr; congruence.
           ++ rewrite (A m Hm). rewrite rjoin_addr; congruence.
           ++ apply rjoin_ge_r.
        -- destruct (G u) as (m & Hm & Le); [left; reflexivity|]. exists m; auto.
      * apply G. right. exact Hx.
Qed.

Definition oeq (x y : option member) : Prop :=
  match x, y with
  | Some a, Some b => meq a b
  | None, None => True
  | _, _ => False
  end.

Lemma jfold_same_elements (a : Addr) r l1 l2 :
  (forall u, In u l1 -> maddr u = a) -> (forall u, In u l2 -> maddr u = a) -> oaddr_ok a r ->
  (forall u, In u l1 <-> In u l2) ->
  oeq (jfold r l1) (jfold r l2).
Proof.
  intros H1 H2 Hr Hs.
  destruct (jfold_spec a l1 r H1 Hr) as (C1 & G1 & A1).
  destruct (jfold_spec a l2 r H2 Hr) as (C2 & G2 & A2).
  assert (Key : forall l l' (C : jfold r l = r \/ exists u, In u l /\ jfold r l = Some u)
                       (G' : forall x, r = Some x \/ In x l' -> exists m, jfold r l' = Some m /\ mle x m)
                       (S : forall u, In u l -> In u l') m,
             jfold r l = Some m -> exists m', jfold r l' = Some m' /\ mle m m').
  { intros l l' C G' S m Hm. destruct C as [C|(u & Hu & C)].
    - apply G'. left. congruence.
    - apply G'. right. apply S. congruence. }
  pose proof (Key l1 l2 C1 G2 (fun u => proj1 (Hs u))) as K12.
  pose proof (Key l2 l1 C2 G1 (fun u => proj2 (Hs u))) as K21.
  clear Key C1 C2 G1 G2.
  destruct (jfold r l1) as [m1|], (jfold r l2) as [m2|]; cbn.
  - destruct (K12 m1 eq_refl) as (x & Hx & L1).
    destruct (K21 m2 eq_refl) as (y & Hy & L2).
    inversion Hx; inversion Hy; subst.
    apply mle_antisym; auto. rewrite (A1 _ eq_refl), (A2 _ eq_refl). reflexivity.
  - destruct (K12 m1 eq_refl) as (x & Hx & _). discriminate.
  - destruct (K21 m2 eq_refl) as (x & Hx & _). discriminate.
  - exact I.
Qed.

(* C01, order / multiplicity / randomness independence at the Members level *)
Theorem apply_list_order_independent rnd1 rnd2 (ms : members) l1 l2 n1 n2 :
  uniq (inner ms) ->
  (forall u, In u l1 <-> In u l2) ->
  forall a, oeq (view (fst (apply_list rnd1 ms l1 n1)) a)
                (view (fst (apply_list rnd2 ms l2 n2)) a).
Proof.
  intros U Hs a.
  destruct (apply_list_view rnd1 ms l1 n1 U) as [_ V1].
  destruct (apply_list_view rnd2 ms l2 n2 U) as [_ V2].
  rewrite V1, V2.
  apply (jfold_same_elements a).
  - intros u Hu. apply filter_In in Hu. destruct Hu as [_ Hu]. apply addr_eqb_eq. exact Hu.
  - intros u Hu. apply filter_In in Hu. destruct Hu as [_ Hu]. apply addr_eqb_eq. exact Hu.
  - intros k Hk. apply lookup_Some_In in Hk. tauto.
  - intros u. unfold at_addr. rewrite !filter_In. rewrite Hs. tauto.
Qed.

(* every step moves a record forward (or leaves it) in the precedence order *)
Theorem apply_monotone rnd (ms : members) u n a k :
  uniq (inner ms) ->
  view ms a = Some k ->
  exists k', view (fst (fst (members_apply rnd ms u n))) a = Some k' /\ mle k k'.
Proof.
  intros U Hk. destruct (members_apply_spec rnd ms u n U) as [_ V]. cbn zeta in V.
  rewrite V. destruct (addr_eqb (maddr u) a) eqn:Ea.
  - apply addr_eqb_eq in Ea. subst a. rewrite Hk. exists (rjoin k u). split; [reflexivity|apply rjoin_ge_l].
  - exists k. split; auto. apply mle_refl.
Qed.

(* re-applying records that are already there changes no view *)
Lemma rjoin_self k : rjoin k k = k.
Proof. unfold rjoin. destruct (mltb k k); reflexivity. Qed.

Theorem reapply_own_state rnd (ms : members) n :
  uniq (inner ms) ->
  forall a, view (fst (apply_list rnd ms (inner ms) n)) a = view ms a.
Proof.
  intros U a. destruct (apply_list_view rnd ms (inner ms) n U) as [_ V]. rewrite V.
  unfold view. destruct (lookup (inner ms) a) as [k|] eqn:L.
  - assert (forall l, (forall u, In u l -> u = k) -> jfold (Some k) l = Some k) as J.
    { induction l as [|u l IH]; intros H; cbn; auto.
      rewrite (H u (or_introl eq_refl)). unfold ojoin. rewrite rjoin_self. apply IH.
      intros x Hx. apply H. right. exact Hx. }
    apply J. intros u Hu. apply filter_In in Hu. destruct Hu as [Hin Ha]. apply addr_eqb_eq in Ha.
    apply lookup_Some_In in L. destruct L as [Hk Hak].
    assert (lookup (inner ms) a = Some u) by (apply lookup_In; auto).
    assert (lookup (inner ms) a = Some k) by (apply lookup_In; auto). congruence.
  - assert (at_addr a (inner ms) = []) as ->; [|reflexivity].
    unfold at_addr. destruct (filter _ (inner ms)) as [|x t] eqn:F; auto.
    assert (In x (filter (fun u => addr_eqb (maddr u) a) (inner ms))) by (rewrite F; left; reflexivity).
    apply filter_In in H. destruct H as [Hin Ha]. apply addr_eqb_eq in Ha.
    eapply lookup_None in L; eauto. contradiction.
Qed.

(* join is commutative up to meq: two instances that apply each other's records agree *)
Lemma rjoin_comm_meq a b : maddr a = maddr b -> meq (rjoin a b) (rjoin b a).
Proof.
  intros E. apply mle_antisym.
  - rewrite !rjoin_addr; congruence.
  - destruct (rjoin_cases a b) as [-> | ->]; [apply rjoin_ge_r|apply rjoin_ge_l].
  - destruct (rjoin_cases b a) as [-> | ->]; [apply rjoin_ge_r|apply rjoin_ge_l].
Qed.

Theorem exchange_agree rnd1 rnd2 (x y : members) n1 n2 :
  uniq (inner x) -> uniq (inner y) ->
  forall a, oeq (view (fst (apply_list rnd1 x (inner y) n1)) a)
                (view (fst (apply_list rnd2 y (inner x) n2)) a).
Proof.
  intros Ux Uy a.
  destruct (apply_list_view rnd1 x (inner y) n1 Ux) as [_ V1].
  destruct (apply_list_view rnd2 y (inner x) n2 Uy) as [_ V2].
  rewrite V1, V2. unfold view.
  assert (F : forall (z : members), uniq (inner z) ->
            at_addr a (inner z) = match lookup (inner z) a with Some k => [k] | None => [] end).
  { intros z Uz. unfold at_addr, lookup, uniq. induction (inner z) as [|m l IH]; cbn; auto.
    cbn in Uz. inversion Uz as [|? ? Hn Ul]; subst.
    destruct (addr_eqb (maddr m) a) eqn:E.
    - f_equal. apply addr_eqb_eq in E.
      destruct (filter _ l) as [|q t] eqn:Fq; auto.
      assert (In q (filter (fun u => addr_eqb (maddr u) a) l)) by (rewrite Fq; left; reflexivity).
      apply filter_In in H. destruct H as [Hin Ha]. apply addr_eqb_eq in Ha.
      exfalso. apply Hn. rewrite E, <- Ha. apply in_map. exact Hin.
    - apply IH. exact Ul. }
  rewrite (F y Uy), (F x Ux).
  destruct (lookup (inner x) a) as [kx|] eqn:Lx, (lookup (inner y) a) as [ky|] eqn:Ly; cbn.
  - apply rjoin_comm_meq. apply lookup_Some_In in Lx, Ly. destruct Lx, Ly. congruence.
  - apply meq_refl.
  - apply meq_refl.
  - exact I.
Qed.

End Join.
