(* L_Reject.v — inputs that are rejected before processing leave no trace:
   same state, no effect, oracle untouched (C17, C13 stale timers, C09 self-source). *)
From Foca Require Import Laws L_Lists MembersM ProbeM BcastM FocaM.

Section Reject.
Context {Id Addr : Type} {IO : IdOps Id Addr} {CO : CodecOps Id} {HO : HandlerOps Id}.
Variable rnd : oracle.
Notation foca := (@foca Id Addr HO).
Notation input := (@input Id).

Definition timer_token (t : timer Id) : option N :=
  match t with
  | TProbeRandomMember k | TPeriodicAnnounce k | TPeriodicAnnounceDown k | TPeriodicGossip k => Some k
  | TSendIndirectProbe _ k | TChangeSuspectToDown _ _ k => Some k
  | TRemoveDown _ => None
  end.

Definition config_refused (old c : config) : bool :=
  negb (probe_period old =? probe_period c)
  || negb (probe_rtt old =? probe_rtt c)
  || (negb (is_some (periodic_announce old)) && is_some (periodic_announce c))
  || (negb (is_some (periodic_announce_down old)) && is_some (periodic_announce_down c))
  || (negb (is_some (periodic_gossip old)) && is_some (periodic_gossip c)).

(* the classes of rejected inputs, each with the result the caller sees *)
Inductive rejected (f : foca) : input -> result -> Prop :=
| Rj_too_big b : max_packet_size (cfg f) < len b -> rejected f (IData b) (Failed EDataTooBig)
| Rj_bad_header b :
    len b <= max_packet_size (cfg f) -> dec_hdr b = None -> rejected f (IData b) (Failed EDecode)
| Rj_from_self b h r :
    len b <= max_packet_size (cfg f) -> dec_hdr b = Some (h, r) ->
    id_eqb (h_src h) (identity f) = true \/ addr_eqb (addr_of (h_src h)) (addr_of (identity f)) = true ->
    rejected f (IData b) (Failed EDataFromOurselves)
| Rj_framing b h r :
    len b <= max_packet_size (cfg f) -> dec_hdr b = Some (h, r) ->
    id_eqb (h_src h) (identity f) = false -> addr_eqb (addr_of (h_src h)) (addr_of (identity f)) = false ->
    len r = 1 \/ (h_msg h = Announce /\ 0 < len r) ->
    rejected f (IData b) (Failed EMalformedPacket)
| Rj_not_for_us b h r :
    len b <= max_packet_size (cfg f) -> dec_hdr b = Some (h, r) ->
    id_eqb (h_src h) (identity f) = false -> addr_eqb (addr_of (h_src h)) (addr_of (identity f)) = false ->
    len r <> 1 -> (h_msg h = Announce -> len r = 0) ->
    accept_payload f h = false ->
    rejected f (IData b) Done
| Rj_bad_members b h r n r' :
    len b <= max_packet_size (cfg f) -> dec_hdr b = Some (h, r) ->
    id_eqb (h_src h) (identity f) = false -> addr_eqb (addr_of (h_src h)) (addr_of (identity f)) = false ->
    2 <= len r -> h_msg h <> Announce -> h_msg h <> Broadcast ->
    accept_payload f h = true ->
    get_u16 r = Some (n, r') -> dec_members (N.to_nat n) r' = None ->
    rejected f (IData b) (Failed EDecode)
| Rj_stale_timer t k : timer_token t = Some k -> k <> token f -> rejected f (ITimer t) Done
| Rj_not_undead : conn f <> Undead -> rejected f IReuseDown (Failed ENotUndead)
| Rj_same_identity i : id_eqb (identity f) i = true -> rejected f (IChangeIdentity i) (Failed ESameIdentity)
| Rj_bad_config c : config_refused (cfg f) c = true -> rejected f (ISetConfig c) (Failed EInvalidConfig)
| Rj_empty_item : rejected f (IAddBroadcast []) (Failed EMalformedPacket)
| Rj_big_item b :
    b <> [] -> max_packet_size (cfg f) < len b \/ u16_max < len b ->
    rejected f (IAddBroadcast b) (Failed EDataTooBig).

Lemma message_eqb_Announce (m : message Id) : message_eqb id_eqb m Announce = true <-> m = Announce.
Proof. destruct m; cbn; split; intros H; try discriminate; auto. Qed.

Lemma message_eqb_Broadcast (m : message Id) : message_eqb id_eqb m Broadcast = true <-> m = Broadcast.
Proof. destruct m; cbn; split; intros H; try discriminate; auto. Qed.

Lemma bool_false_of_not (b : bool) : b <> true -> b = false.
Proof. destruct b; congruence. Qed.

Theorem reject_noop (f : foca) (i : input) (r : result) :
  rejected f i r -> step rnd f i = (f, [], r, 0).
Proof.
  intros H. destruct H; unfold step, run_unit, run_bool.
  - unfold handle_data, bind, get. cbn [st]. replace (max_packet_size (cfg f) <? len b) with true by lia. reflexivity.
  - unfold handle_data, bind, get. cbn [st]. replace (max_packet_size (cfg f) <? len b) with false by lia.
    rewrite H0. reflexivity.
  - unfold handle_data, bind, get. cbn [st]. replace (max_packet_size (cfg f) <? len b) with false by lia.
    rewrite H0.
    replace (id_eqb (h_src h) (identity f) || addr_eqb (addr_of (h_src h)) (addr_of (identity f))) with true
      by (destruct H1 as [-> | ->]; [reflexivity|rewrite orb_true_r; reflexivity]).
    reflexivity.
  - unfold handle_data, bind, get. cbn [st]. replace (max_packet_size (cfg f) <? len b) with false by lia.
    rewrite H0, H1, H2. cbn [orb].
    replace ((len r =? 1) || (message_eqb id_eqb (h_msg h) Announce && (0 <? len r))) with true; [reflexivity|].
    destruct H3 as [E|[E L]].
    + replace (len r =? 1) with true by lia. reflexivity.
    + rewrite E. cbn. replace (0 <? len r) with true by lia. rewrite orb_true_r. reflexivity.
  - unfold handle_data, bind, get. cbn [st]. replace (max_packet_size (cfg f) <? len b) with false by lia.
    rewrite H0, H1, H2. cbn [orb].
    replace ((len r =? 1) || (message_eqb id_eqb (h_msg h) Announce && (0 <? len r))) with false.
    2:{ replace (len r =? 1) with false by lia. cbn [orb].
        destruct (message_eqb id_eqb (h_msg h) Announce) eqn:E; auto.
        apply message_eqb_Announce in E. specialize (H4 E). cbn. lia. }
    rewrite H5. reflexivity.
  - unfold handle_data, bind, get. cbn [st]. replace (max_packet_size (cfg f) <? len b) with false by lia.
    rewrite H0, H1, H2. cbn [orb].
    assert (EA : message_eqb id_eqb (h_msg h) Announce = false).
    { apply bool_false_of_not. intros E. apply message_eqb_Announce in E. contradiction. }
    assert (EB : message_eqb id_eqb (h_msg h) Broadcast = false).
    { apply bool_false_of_not. intros E. apply message_eqb_Broadcast in E. contradiction. }
    rewrite EA, EB. cbn [andb negb orb].
    replace (len r =? 1) with false by lia. cbn [orb].
    rewrite H6. cbn [negb].
    replace (2 <=? len r) with true by lia. cbn [andb]. rewrite H7, H8. reflexivity.
  - unfold handle_timer, bind, get. cbn [st].
    destruct t; cbn in H; inversion H; subst.
    + replace (k =? token f) with false by lia. reflexivity.
    + replace (k =? token f) with false by lia. reflexivity.
    + replace (token f =? k) with false by lia. reflexivity.
    + unfold periodic_guard. replace (k =? token f) with false by lia. reflexivity.
    + unfold periodic_guard. replace (k =? token f) with false by lia. reflexivity.
    + unfold periodic_guard. replace (k =? token f) with false by lia. reflexivity.
  - unfold reuse_down_identity, bind, get. cbn [st]. destruct (conn f); try contradiction; reflexivity.
  - unfold change_identity, bind, get. cbn [st]. rewrite H. reflexivity.
  - unfold set_config, bind, get. cbn [st]. unfold config_refused in H. rewrite H. reflexivity.
  - reflexivity.
  - unfold add_broadcast, bind, get. cbn [st]. destruct b as [|x t]; [contradiction|].
    replace ((max_packet_size (cfg f) <? len (x :: t)) || (u16_max <? len (x :: t))) with true by lia.
    reflexivity.
Qed.

(* ---- histories: inserting rejected inputs anywhere changes nothing else ---- *)
Definition obs := (list (effect Id) * result)%type.

Fixpoint run (f : foca) (h : list (oracle * input)) : foca * list obs :=
  match h with
  | [] => (f, [])
  | (o, i) :: t =>
      let '(f', effs, r, _) := step o f i in
      let '(f'', os) := run f' t in
      (f'', (effs, r) :: os)
  end.

Lemma run_app f h1 h2 :
  run f (h1 ++ h2) = let '(f1, o1) := run f h1 in let '(f2, o2) := run f1 h2 in (f2, o1 ++ o2).
Proof.
  revert f. induction h1 as [|[o i] t IH]; intros f; cbn [run app].
  - destruct (run f h2). reflexivity.
  - destruct (step o f i) as [[[f' effs] r] k]. rewrite IH.
    destruct (run f' t) as [f1 o1]. destruct (run f1 h2) as [f2 o2]. reflexivity.
Qed.

End Reject.

Section Insertion.
Context {Id Addr : Type} {IO : IdOps Id Addr} {CO : CodecOps Id} {HO : HandlerOps Id}.
Notation foca := (@foca Id Addr HO).

Lemma run_rejected (f : foca) (X : list (oracle * @input Id * result)) :
  Forall (fun x => rejected f (snd (fst x)) (snd x)) X ->
  run f (map fst X) = (f, map (fun x => ([], snd x)) X).
Proof.
  induction X as [|[[o i] r] t IH]; intros H; cbn [map run fst snd]; auto.
  inversion H as [|? ? Hx Ht]; subst. cbn in Hx.
  rewrite (reject_noop o f i r Hx). rewrite (IH Ht). reflexivity.
Qed.

(* the rest of the history is observed exactly as without the rejected inputs *)
Theorem insertion_invisible (f0 : foca) (h1 h2 : list (oracle * @input Id))
        (X : list (oracle * @input Id * result)) :
  Forall (fun x => rejected (fst (run f0 h1)) (snd (fst x)) (snd x)) X ->
  let '(fa, oa) := run f0 (h1 ++ map fst X ++ h2) in
  let '(fb, ob) := run f0 (h1 ++ h2) in
  let '(_, o1) := run f0 h1 in
  let '(_, o2) := run (fst (run f0 h1)) h2 in
  fa = fb /\ oa = o1 ++ map (fun x => ([], snd x)) X ++ o2 /\ ob = o1 ++ o2.
Proof.
  intros H. rewrite !run_app. destruct (run f0 h1) as [f1 o1] eqn:E1. cbn [fst] in *.
  rewrite run_app. rewrite (run_rejected f1 X H).
  destruct (run f1 h2) as [f2 o2]. repeat split; reflexivity.
Qed.

End Insertion.
