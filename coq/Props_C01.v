(* Props_C01.v — C01: membership knowledge is a join-semilattice.
   Statements only; every proof is `exact <lemma>`. *)
From Foca Require Import Laws MembersM FocaM L_Members L_Join Concrete ConcreteLaws L_Evidence L_Monotone.

Section C01.
Context {Id Addr : Type} {IO : IdOps Id Addr} {IL : IdLaws IO}.

(* the SWIM precedence is a strict order given by a numeric key:
   Alive i -> 2i, Suspect i -> 2i+1, Down -> top *)
Theorem C01_can_change_is_key_order (m : member Id) (i : N) (s : mstate) :
  can_change m i s = true <-> key_lt (key m) (key_of i s).
Proof. exact (can_change_key m i s). Qed.

(* one update = join of the stored record with the update; other addresses untouched;
   one record per address is preserved; for every oracle (insertion position) *)
Theorem C01_apply_is_join (rnd : oracle) (ms : @members Id) (u : member Id) (n : N) :
  uniq (inner ms) ->
  let ms' := fst (fst (members_apply rnd ms u n)) in
  uniq (inner ms') /\
  forall a, view ms' a = if addr_eqb (maddr u) a then ojoin (view ms (maddr u)) u else view ms a.
Proof. exact (members_apply_spec rnd ms u n). Qed.

(* a record only moves forward *)
Theorem C01_monotone (rnd : oracle) (ms : @members Id) (u : member Id) (n : N) (a : Addr) (k : member Id) :
  uniq (inner ms) -> view ms a = Some k ->
  exists k', view (fst (fst (members_apply rnd ms u n))) a = Some k' /\ mle k k'.
Proof. exact (apply_monotone rnd ms u n a k). Qed.

(* same set of updates, any order, any multiplicity, any random choices:
   same view at every address up to the incarnation kept next to Down *)
Theorem C01_order_multiplicity (rnd1 rnd2 : oracle) (ms : @members Id) (l1 l2 : list (member Id)) (n1 n2 : N) :
  uniq (inner ms) ->
  (forall u, In u l1 <-> In u l2) ->
  forall a, oeq (view (fst (apply_list rnd1 ms l1 n1)) a) (view (fst (apply_list rnd2 ms l2 n2)) a).
Proof. exact (apply_list_order_independent rnd1 rnd2 ms l1 l2 n1 n2). Qed.

Theorem C01_reapply_own_state (rnd : oracle) (ms : @members Id) (n : N) :
  uniq (inner ms) -> forall a, view (fst (apply_list rnd ms (inner ms) n)) a = view ms a.
Proof. exact (reapply_own_state rnd ms n). Qed.

Theorem C01_exchange (rnd1 rnd2 : oracle) (x y : @members Id) (n1 n2 : N) :
  uniq (inner x) -> uniq (inner y) ->
  forall a, oeq (view (fst (apply_list rnd1 x (inner y) n1)) a)
                (view (fst (apply_list rnd2 y (inner x) n2)) a).
Proof. exact (exchange_agree rnd1 rnd2 x y n1 n2). Qed.

End C01.

(* ALONG EVERY CALL of the instance (not only apply_many): datagrams - the wire route -, timers, every
   API call, any oracle.  Except for the forget-timer, one record per address is kept and no record
   moves backward in the precedence order: the record afterwards is at least the record before (same
   identity with a key at least as high, or an identity that wins the address).  Over any history
   without forget-timers likewise. *)
Section C01_calls.
Context {Id Addr : Type} {IO : IdOps Id Addr} {CO : CodecOps Id} {HO : HandlerOps Id} {IL : IdLaws IO}.

Theorem C01_grew_meaning (ms ms' : @members Id) :
  grew ms ms' <-> forall a k, view ms a = Some k -> exists k', view ms' a = Some k' /\ mle k k'.
Proof. reflexivity. Qed.

Theorem C01_knowledge_monotone_along_every_call (rnd : oracle) (f : @foca Id Addr HO) (i : @input Id) :
  match i with ITimer (TRemoveDown _) => False | _ => True end ->
  uniq (inner (mems f)) ->
  let f' := fst (fst (fst (step rnd f i))) in
  uniq (inner (mems f')) /\ grew (mems f) (mems f').
Proof. exact (step_knowledge_monotone rnd f i). Qed.

Theorem C01_knowledge_monotone_along_histories (rnd : oracle) (l : list (@input Id)) (f : @foca Id Addr HO) :
  no_forget l -> uniq (inner (mems f)) ->
  uniq (inner (mems (run_calls rnd f l))) /\ grew (mems f) (mems (run_calls rnd f l)).
Proof. exact (history_knowledge_monotone rnd l f). Qed.

Theorem C01_no_forget_meaning (i : @input Id) (l : list (@input Id)) :
  (@no_forget Id [] <-> True)
  /\ (no_forget (i :: l) <-> match i with ITimer (TRemoveDown _) => False | _ => no_forget l end).
Proof. split; reflexivity. Qed.

End C01_calls.


(* non-vacuity: the hypotheses hold for the executable identities, and a concrete
   three-generation conflict behaves as stated *)
Example C01_concrete_instance : IdLaws cid_ops.
Proof. exact cid_laws. Qed.

Example C01_example_conflict :
  let a := mkMember (mkCid 1 0 0 0) 65535 Suspect in
  let b := mkMember (mkCid 1 2 0 0) 0 Alive in
  let c := mkMember (mkCid 1 1 0 0) 7 Down in
  let rnd : oracle := fun _ _ => [] in
  view (fst (apply_list rnd (members_new []) [a; b; c; a] 0)) 1 = Some b /\
  view (fst (apply_list rnd (members_new []) [c; a; a; b] 0)) 1 = Some b.
Proof. vm_compute. split; reflexivity. Qed.

Print Assumptions C01_can_change_is_key_order.
Print Assumptions C01_apply_is_join.
Print Assumptions C01_monotone.
Print Assumptions C01_order_multiplicity.
Print Assumptions C01_reapply_own_state.
Print Assumptions C01_exchange.
Print Assumptions C01_concrete_instance.
Print Assumptions C01_example_conflict.
Print Assumptions C01_grew_meaning.
Print Assumptions C01_knowledge_monotone_along_every_call.
Print Assumptions C01_knowledge_monotone_along_histories.
Print Assumptions C01_no_forget_meaning.
