(* L_Wire.v — what send_message puts on the wire, and that the independent grammar
   of WireM.v parses it back (C07; also used by C12, C15, C16). *)
From Foca Require Import Laws L_Lists MembersM ProbeM BcastM FocaM WireM L_Members L_MembersInv L_Bcast L_Fill Hoare Inv.
From Coq Require Import ZArith.

Ltac Zify.zify_post_hook ::= Z.div_mod_to_equations.

Section WireFacts.
Context {Id Addr : Type} {IO : IdOps Id Addr} {CO : CodecOps Id} {HO : HandlerOps Id}.
Context {CL : CodecLaws CO}.
Notation member := (member Id).

Lemma get_u16_u16_be (n : N) (r : bytes) : n <= u16_max -> get_u16 (u16_be n ++ r) = Some (n, r).
Proof.
  intros H. unfold u16_be, get_u16, u16_max in *. cbn [app]. f_equal. f_equal. lia.
Qed.

Definition fr (d : bytes) : bytes := u16_be (len d) ++ d.
Definition item_ok (d : bytes) : Prop := 1 <= len d <= u16_max.

Lemma skipn_len_app {A} (a b : list A) : skipn (N.to_nat (len a)) (a ++ b) = b.
Proof. unfold len. rewrite Nat2N.id. rewrite skipn_app, skipn_all, Nat.sub_diag. reflexivity. Qed.

Lemma firstn_len_app {A} (a b : list A) : firstn (N.to_nat (len a)) (a ++ b) = a.
Proof. unfold len. rewrite Nat2N.id. rewrite firstn_app, firstn_all, Nat.sub_diag. cbn. apply app_nil_r. Qed.

Lemma parse_items_frames (items : list bytes) : forall fuel,
  Forall item_ok items -> (length (flat_map fr items) <= fuel)%nat ->
  parse_items fuel (flat_map fr items) = Some items.
Proof.
  induction items as [|d t IH]; intros fuel F L; cbn [flat_map].
  - destruct fuel; reflexivity.
  - inversion F as [|? ? [D1 D2] Ft]; subst.
    assert (Hne : fr d ++ flat_map fr t <> []).
    { unfold fr, u16_be. cbn. discriminate. }
    destruct (fr d ++ flat_map fr t) as [|b0 bs] eqn:E; [contradiction|]. rewrite <- E.
    destruct fuel as [|fuel].
    { cbn [flat_map] in L. rewrite E in L. cbn in L. lia. }
    cbn [parse_items]. rewrite E. rewrite <- E.
    unfold fr at 1. rewrite <- app_assoc. rewrite get_u16_u16_be by exact D2.
    replace ((len d =? 0) || (len (d ++ flat_map fr t) <? len d)) with false.
    2:{ rewrite len_app. lia. }
    rewrite skipn_len_app, firstn_len_app. rewrite IH; auto.
    cbn [flat_map] in L. rewrite app_length in L.
    change (fr d) with (u16_be (len d) ++ d) in L. rewrite app_length in L.
    unfold u16_be in L. cbn [length] in L. unfold len in D1. lia.
Qed.

Lemma dec_members_encs (ms : list member) (r : bytes) :
  @dec_members Id CO (length ms) (flat_map enc_mem ms ++ r) = Some (ms, r).
Proof.
  induction ms as [|m t IH]; cbn [length dec_members flat_map]; [reflexivity|].
  rewrite <- app_assoc. rewrite dec_enc_mem. rewrite IH. reflexivity.
Qed.

Definition piggy_kind (m : message Id) : bool := needs_piggyback m.

(* printing then parsing *)
Theorem parse_print (h : header Id) (ms : option (list member)) (items : list bytes) :
  Forall item_ok items ->
  (match ms with Some l => len l <= u16_max | None => True end) ->
  (* shape constraints of the kinds *)
  (h_msg h = Announce \/ h_msg h = TurnUndead -> ms = None /\ items = []) ->
  (h_msg h = Broadcast -> ms = None) ->
  (needs_piggyback (h_msg h) = true -> ms = None -> items = []) ->
  parse_datagram
    (enc_hdr h
     ++ (match ms with Some l => u16_be (len l) ++ flat_map enc_mem l | None => [] end)
     ++ flat_map fr items)
  = Some (mkDatagram h ms items).
Proof.
  intros FI Lm K1 K2 K3. unfold parse_datagram. rewrite dec_enc_hdr.
  destruct (h_msg h) eqn:M; cbn [needs_piggyback] in K3.
  all: try (destruct (K1 (or_introl eq_refl)) as [-> ->]; reflexivity).
  all: try (destruct (K1 (or_intror eq_refl)) as [-> ->]; reflexivity).
  all: try (rewrite (K2 eq_refl); cbn [app]; rewrite parse_items_frames; auto; fail).
  all: destruct ms as [l|];
    [| rewrite (K3 eq_refl eq_refl); reflexivity ].
  all: rewrite <- app_assoc;
    assert (Hne : u16_be (len l) ++ flat_map enc_mem l ++ flat_map fr items <> []) by (unfold u16_be; cbn; discriminate);
    destruct (u16_be (len l) ++ flat_map enc_mem l ++ flat_map fr items) as [|b0 bs] eqn:E; [contradiction|];
    rewrite <- E; rewrite get_u16_u16_be by exact Lm;
    unfold len at 1; rewrite Nat2N.id; rewrite dec_members_encs;
    rewrite parse_items_frames; auto.
Qed.

End WireFacts.

Section Shape.
Context {Id Addr : Type} {IO : IdOps Id Addr} {CO : CodecOps Id} {HO : HandlerOps Id}.
Context {IL : IdLaws IO} {EL : @ExtraLaws Id Addr IO CO} {CL : CodecLaws CO}.
Variable rnd : oracle.
Notation member := (member Id).
Notation foca := (@foca Id Addr HO).
Notation rs := (@rs Id Addr HO).

(* what a datagram handed to the runtime looks like *)
Definition sent_ok (f : foca) (dst : Id) (msg : message Id) (b : bytes) : Prop :=
  exists (ms : option (list member)) (items : list bytes),
    b = enc_hdr (mkHeader (identity f) (incarnation f) dst msg)
        ++ (match ms with Some l => u16_be (len l) ++ flat_map enc_mem l | None => [] end)
        ++ flat_map fr items
    /\ len b <= max_packet_size (cfg f)
    /\ Forall item_ok items
    /\ (match ms with Some l => len l <= u16_max | None => True end)
    /\ (needs_piggyback msg = false -> ms = None)
    /\ (allow_custom_broadcasts msg = false -> items = [])
    /\ (needs_piggyback msg = true -> ms = None -> items = [])
    /\ (msg = Feed -> forall l, ms = Some l ->
        Forall (fun m => In m (inner (mems f)) /\ m_active m = true /\ id_eqb (m_id m) dst = false) l).

(* ---- the three producers ---- *)
Lemma feed_loop_shape (l : list member) : forall room count acc (s : rs),
  count + room < u16_max ->
  exists taken rleft,
    feed_loop l room count acc s = (s, ROk (count + len taken, acc ++ flat_map enc_mem taken, rleft))
    /\ (exists rest, l = taken ++ rest)
    /\ len (flat_map enc_mem taken) + rleft <= room.
Proof.
  induction l as [|m t IH]; intros room count acc s B; cbn [feed_loop].
  - exists [], room. cbn [flat_map]. rewrite app_nil_r. change (len (@nil member)) with 0. rewrite N.add_0_r.
    split; [reflexivity|split; [exists []; reflexivity|unfold len; cbn [length]; lia]].
  - destruct (room <? len (enc_mem m)) eqn:R.
    + exists [], (room - N.min room (enc_mem_partial m room)). cbn [flat_map]. rewrite app_nil_r.
      change (len (@nil member)) with 0. rewrite N.add_0_r.
      split; [reflexivity|split; [exists (m :: t); reflexivity|unfold len; cbn [length]; lia]].
    + destruct (count =? u16_max) eqn:C; [lia|].
      pose proof (enc_mem_nonempty' m) as NE.
      destruct (IH (room - len (enc_mem m)) (count + 1) (acc ++ enc_mem m) s) as (tk & rl & E & (rest & Er) & L); [lia|].
      exists (m :: tk), rl. rewrite E. cbn [flat_map]. split; [|split].
      * rewrite len_cons, <- app_assoc. replace (count + (len tk + 1)) with (count + 1 + len tk) by lia. reflexivity.
      * exists rest. rewrite Er. reflexivity.
      * rewrite len_app. lia.
Qed.

Lemma written_updates (decs : list (@entry Addr * bool)) :
  Forall (fun d => exists m : member, e_data (fst d) = enc_mem m) decs ->
  exists ms : list member,
    flat_map (wr Addr 0) decs = flat_map enc_mem ms /\ len ms = len (filter snd decs).
Proof.
  induction decs as [|[e b] t IH]; intros F; cbn.
  - exists []. auto.
  - inversion F as [|? ? [m Em] Ft]; subst. destruct (IH Ft) as (ms & E1 & E2).
    cbn [fst] in Em. destruct b; cbn [flat_map filter snd fst].
    + exists (m :: ms). unfold wr at 1, frame. cbn [snd fst N.eqb app flat_map].
      rewrite N.eqb_refl. cbn [app]. rewrite Em, E1. split; auto.
      rewrite !len_cons. lia.
    + exists ms. unfold wr at 1. cbn [snd app]. auto.
Qed.

Lemma written_customs (decs : list (@entry hkey * bool)) :
  Forall (fun d => item_ok (e_data (fst d))) decs ->
  exists items : list bytes,
    flat_map (wr hkey 2) decs = flat_map fr items /\ Forall item_ok items.
Proof.
  induction decs as [|[e b] t IH]; intros F; cbn.
  - exists []. auto.
  - inversion F as [|? ? Ok Ft]; subst. destruct (IH Ft) as (its & E1 & E2).
    cbn [fst] in Ok. destruct b; cbn [flat_map filter snd fst].
    + exists (e_data e :: its). unfold wr at 1, frame, fr at 1. cbn [snd fst flat_map].
      replace (2 =? 0) with false by reflexivity. rewrite E1. split; auto.
    + exists its. unfold wr at 1. cbn [snd app]. auto.
Qed.

Lemma filter_snd_le (K : Type) extra (l : backlog K) : forall room remaining,
  len (filter snd (fill_dec K extra l room remaining)) <= remaining.
Proof.
  induction l as [|e t IH]; intros room remaining; cbn; [unfold len; cbn; lia|].
  destruct ((0 <? room) && (0 <? remaining)) eqn:G.
  - destruct (len (e_data e) + extra <=? room); cbn.
    + rewrite len_cons. specialize (IH (room - (len (e_data e) + extra)) (remaining - 1)). lia.
    + apply IH.
  - assert (Hf : forall t', filter snd (map (fun x : @entry K => (x, false)) t') = []) by (induction t'; cbn; auto).
    change ((e, false) :: map (fun x : @entry K => (x, false)) t) with (map (fun x : @entry K => (x, false)) (e :: t)).
    rewrite Hf. unfold len; cbn; lia.
Qed.

Lemma Forall_fst_decs (K : Type) (Q : @entry K -> Prop) extra l room remaining :
  Forall Q l -> Forall (fun d => Q (fst d)) (fill_dec K extra l room remaining).
Proof.
  intros F. rewrite <- (fill_dec_fst K extra l room remaining) in F.
  rewrite Forall_map in F. exact F.
Qed.

Lemma send_body_shape (dst : Id) (msg : message Id) (maxp room idx : N) (s : rs) :
  WF (st s) -> room <= u16_max -> (2 < room -> 2 <= maxp - (room - 2)) ->
  match send_body rnd dst msg maxp room idx s with
  | (s', ROk (body, room3)) =>
      exists (ms : option (list member)) (u' : backlog Addr),
        body = (match ms with Some l => u16_be (len l) ++ flat_map enc_mem l | None => [] end)
        /\ st s' = set_updates (st s) u' /\ out s' = out s
        /\ Forall upd_ok u' /\ NoDup (map e_key u')
        /\ len body + room3 <= room
        /\ (match ms with Some l => len l <= u16_max | None => True end)
        /\ (needs_piggyback msg = false -> ms = None)
        /\ (needs_piggyback msg = true -> ms = None -> room3 <= 2)
        /\ (msg = Feed -> forall l, ms = Some l ->
            Forall (fun m => In m (inner (mems (st s))) /\ m_active m = true /\ id_eqb (m_id m) dst = false) l)
  | (_, RErr _) => False
  | (_, RPanic _) => False
  end.
Proof.
  intros W Hr Hm. unfold send_body.
  assert (Es : forall x, x = updates (st s) -> set_updates (st s) x = st s) by (intros x ->; destruct (st s); reflexivity).
  destruct (needs_piggyback msg && (2 <? room)) eqn:NP.
  2:{ cbn. exists None, (updates (st s)). repeat split; auto.
      - symmetry. apply Es. reflexivity.
      - apply (wf_upd _ W).
      - apply (wf_updk _ W).
      - unfold len at 1. cbn [length]. lia.
      - intros Hn _. rewrite Hn in NP. cbn in NP. lia.
      - intros -> l E. discriminate. }
  apply andb_true_iff in NP. destruct NP as [NPk NPr].
  assert (Hm' : 2 <= maxp - (room - 2)) by (apply Hm; lia).
  cbn zeta. destruct (piggyback_only_active msg) eqn:PO.
  - (* Feed *)
    unfold estimate_feed_capacity.
    destruct ((maxp - (room - 2)) / 2 =? 0) eqn:DZ.
    { exfalso. assert (1 <= (maxp - (room - 2)) / 2) by (apply N.div_le_lower_bound; lia). lia. }
    unfold bind at 1, ret at 1.
    unfold bind at 1. unfold choose_active, bind at 1, get at 1, with_ctr.
    destruct (choose_active_members rnd (mems (st s)) _ _ (ctr s)) as [chosen k1] eqn:CA.
    cbn [st out ctr].
    destruct (feed_loop_shape (rev chosen) (room - 2) 0 [] (mkRs (st s) (out s) k1)) as (tk & rl & E & (rest & Er) & L); [lia|].
    unfold bind at 1. rewrite E. cbn [ret app]. rewrite N.add_0_l.
    exists (Some tk), (updates (st s)).
    assert (Hlen : len tk <= u16_max).
    { pose proof (enc_mem_nonempty'). assert (len tk <= len (flat_map enc_mem tk)).
      { clear -H. induction tk as [|m t IHt]; cbn; [unfold len; cbn; lia|].
        rewrite len_cons, len_app. specialize (H m). lia. }
      lia. }
    repeat split; auto.
    + symmetry. apply Es. reflexivity.
    + apply (wf_upd _ W).
    + apply (wf_updk _ W).
    + rewrite len_app. unfold u16_be at 1. unfold len at 1. cbn [length]. lia.
    + intros Hn. rewrite Hn in NPk. discriminate.
    + intros _ Hc. discriminate.
    + intros _ l El. inversion El; subst l. apply Forall_forall. intros m Hm0.
      assert (Hin : In m chosen).
      { apply in_rev. rewrite Er. apply in_or_app. left. exact Hm0. }
      assert (Hc : In m (fst (choose_active_members rnd (mems (st s))
                   (N.max ((room - 2) / ((maxp - (room - 2)) / 2)) 5)
                   (fun i => negb (id_eqb i dst)) (ctr s)))) by (rewrite CA; exact Hin).
      apply choose_members_spec in Hc. destruct Hc as [Hi Hp].
      apply andb_true_iff in Hp. destruct Hp as [Ha Hd]. apply negb_true_iff in Hd. auto.
  - (* ordinary piggybacking: fill from the updates backlog *)
    unfold bind at 1, get at 1.
    destruct (updates (st s)) as [|u0 us] eqn:EU.
    { cbn. exists (Some []), []. split; [reflexivity|]. repeat split; auto.
      - symmetry. apply Es. reflexivity.
      - constructor.
      - unfold u16_be, len. cbn [length]. lia.
      - unfold len, u16_max; cbn; lia.
      - intros Hn. rewrite Hn in NPk. discriminate.
      - intros _ Hc. discriminate.
      - intros -> . discriminate PO. }
    unfold bind at 1, ask at 1. cbn [st out ctr].
    set (hint := rnd (ctr s) (RTie false idx)).
    assert (NoP : snd (fill_gen Addr 0 hint (u0 :: us) (room - 2) u16_max) = None).
    { apply fill_gen_no_panic. rewrite <- EU. eapply Forall_impl; [|apply (wf_upd _ W)].
      intros e [He _]. split; [exact He|discriminate]. }
    destruct (fill_gen Addr 0 hint (u0 :: us) (room - 2) u16_max) as [[[w n] kept] p] eqn:FG.
    cbn in NoP. rewrite NoP.
    unfold bind at 1, modify at 1. cbn [st out ctr ret].
    assert (NDk : NoDup (map e_key kept)).
    { eapply (fill_gen_keys Addr); [|rewrite NoP in FG; exact FG]. rewrite <- EU. apply (wf_updk _ W). }
    unfold fill_gen in FG.
    assert (Fpo : Forall upd_ok (pop_order Addr hint (u0 :: us))).
    { eapply Permutation_Forall; [symmetry; apply pop_order_perm|]. rewrite <- EU. apply (wf_upd _ W). }
    rewrite NoP in FG.
    destruct (fill_loop_dec Addr 0 _ _ _ _ _ _ FG) as (Ew & En & Ek).
    set (decs := fill_dec Addr 0 (pop_order Addr hint (u0 :: us)) (room - 2) u16_max) in *.
    destruct (written_updates decs) as (ms & Ems & Lms).
    { apply (Forall_fst_decs Addr (fun e => exists m : member, e_data e = enc_mem m)).
      eapply Forall_impl; [|exact Fpo]. intros e [_ He]. exact He. }
    exists (Some ms), kept.
    pose proof (fill_loop_len Addr 0 (or_introl eq_refl) (pop_order Addr hint (u0 :: us)) (room - 2) u16_max) as LL.
    rewrite FG in LL. cbn [fst] in LL.
    repeat split; auto.
    + rewrite Ew, Ems, En, <- Lms. reflexivity.
    + eapply (fill_loop_kept Addr upd_ok 0 upd_ok_dec); [exact Fpo|exact FG].
    + rewrite len_app. unfold u16_be at 1. unfold len at 1. cbn [length]. lia.
    + rewrite Lms. apply filter_snd_le.
    + intros Hn. rewrite Hn in NPk. discriminate.
    + intros _ Hc. discriminate.
    + intros -> . discriminate PO.
Qed.

Lemma send_customs_shape (dst : Id) (msg : message Id) (room3 idx : N) (s : rs) :
  WF (st s) ->
  match send_customs rnd dst msg room3 idx s with
  | (s', ROk cust) =>
      exists (items : list bytes) (c' : backlog hkey),
        cust = flat_map fr items /\ Forall item_ok items
        /\ st s' = set_customs (st s) c' /\ out s' = out s
        /\ Forall cus_ok c'
        /\ len cust <= room3
        /\ (allow_custom_broadcasts msg = false -> items = [])
  | (_, RErr _) => False
  | (_, RPanic _) => False
  end.
Proof.
  intros W. unfold send_customs, bind at 1, get at 1.
  assert (Es : set_customs (st s) (customs (st s)) = st s) by (destruct (st s); reflexivity).
  assert (Triv : exists (items : list bytes) (c' : backlog hkey),
             @nil N = flat_map fr items /\ Forall item_ok items
             /\ st s = set_customs (st s) c' /\ out s = out s /\ Forall cus_ok c'
             /\ len (@nil N) <= room3 /\ (allow_custom_broadcasts msg = false -> items = [])).
  { exists [], (customs (st s)). repeat split; auto. apply (wf_cus _ W). unfold len; cbn; lia. }
  destruct ((0 <? room3) && allow_custom_broadcasts msg && h_should_add (hst (st s)) dst) eqn:AC; [|exact Triv].
  apply andb_true_iff in AC. destruct AC as [AC SA]. apply andb_true_iff in AC. destruct AC as [R3 AL].
  destruct (customs (st s)) as [|c0 cs] eqn:EC; [exact Triv|].
  unfold bind at 1, ask at 1. cbn [st out ctr].
  set (hint := rnd (ctr s) (RTie true idx)).
  assert (NoP : snd (fill_gen hkey 2 hint (c0 :: cs) room3 usize_max) = None).
  { apply fill_gen_no_panic. rewrite <- EC. eapply Forall_impl; [|apply (wf_cus _ W)].
    intros e [He1 He2]. split; [exact He1|lia]. }
  destruct (fill_gen hkey 2 hint (c0 :: cs) room3 usize_max) as [[[w n] kept] p] eqn:FG.
  cbn in NoP. rewrite NoP.
  unfold bind at 1, modify at 1. cbn [st out ctr ret].
  unfold fill_gen in FG. rewrite NoP in FG.
  assert (Fpo : Forall cus_ok (pop_order hkey hint (c0 :: cs))).
  { eapply Permutation_Forall; [symmetry; apply pop_order_perm|]. rewrite <- EC. apply (wf_cus _ W). }
  destruct (fill_loop_dec hkey 2 _ _ _ _ _ _ FG) as (Ew & En & Ek).
  set (decs := fill_dec hkey 2 (pop_order hkey hint (c0 :: cs)) room3 usize_max) in *.
  destruct (written_customs decs) as (items & Eit & Fit').
  { apply (Forall_fst_decs hkey (fun e => item_ok (e_data e))).
    eapply Forall_impl; [|exact Fpo]. intros e [_ He]. exact He. }
  pose proof (fill_loop_len hkey 2 (or_intror eq_refl) (pop_order hkey hint (c0 :: cs)) room3 usize_max) as LL.
  rewrite FG in LL. cbn [fst] in LL.
  exists items, kept. repeat split; auto.
  - rewrite Ew. exact Eit.
  - eapply (fill_loop_kept hkey cus_ok 2 cus_ok_dec); [exact Fpo|exact FG].
  - intros Hal. rewrite Hal in AL. discriminate.
Qed.

Theorem send_message_shape (dst : Id) (msg : message Id) (s : rs) :
  WF (st s) ->
  match send_message rnd dst msg s with
  | (s', ROk _) => exists b, out s' = out s ++ [Send dst b] /\ sent_ok (st s) dst msg b
  | (s', RErr e) => e = EEncode /\ s' = s
  | (_, RPanic _) => False
  end.
Proof.
  intros W. unfold send_message. unfold bind at 1, get at 1.
  rewrite (wf_cap _ W), N.eqb_refl. cbn [negb].
  set (hb := enc_hdr _).
  destruct (max_packet_size (cfg (st s)) <? len hb) eqn:Fit; [cbn; auto|].
  unfold bind at 1, num_sends at 1.
  pose proof (wf_cfg _ W) as CF. destruct CF as [_ _ [P1 P2] _ _ _].
  set (maxp := max_packet_size (cfg (st s))) in *.
  set (idx := len (filter is_send (out s))).
  pose proof (send_body_shape dst msg maxp (maxp - len hb) idx s W ltac:(lia) ltac:(lia)) as SB.
  unfold bind at 1.
  destruct (send_body rnd dst msg maxp (maxp - len hb) idx s) as [s1 [[body room3]|e|p]]; try contradiction.
  destruct SB as (ms & u' & Eb & Est & Eout & Fu & NDu & Lb & Lms & Hnp & Hnone & Hfeed).
  assert (W1 : WF (st s1)) by (rewrite Est; apply WF_set_updates; auto).
  pose proof (send_customs_shape dst msg room3 idx s1 W1) as SC.
  unfold bind at 1.
  destruct (send_customs rnd dst msg room3 idx s1) as [s2 [cust|e|p]]; try contradiction.
  destruct SC as (items & c' & Ec & Fit' & Est2 & Eout2 & Fc & Lc & Hal).
  unfold emit. cbn [st out ctr].
  exists (hb ++ body ++ cust). split; [rewrite Eout2, Eout; reflexivity|].
  unfold sent_ok. exists ms, items. subst body cust. split; [reflexivity|]. repeat split; auto.
  - rewrite !len_app. lia.
  - intros Hn Hm. specialize (Hnone Hn Hm).
    destruct items as [|d its]; auto. exfalso.
    inversion Fit' as [|? ? [D1 D2] _]; subst.
    cbn [flat_map] in Lc. unfold fr at 1 in Lc. rewrite !len_app in Lc. unfold u16_be at 1 in Lc.
    unfold len at 1 in Lc. cbn [length] in Lc. lia.
Qed.

End Shape.
