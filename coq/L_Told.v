(* L_Told.v — C09: the membership never holds a record for an address it was not told about:
   every address present after a call was present before it or is named by the call's input
   (sender of the datagram, an update in it, an update passed to apply_many).  With one record
   per address (C09_reachable_invariant) the number of records never exceeds the number of
   distinct addresses told. *)
From Foca Require Import Laws L_Lists MembersM ProbeM FocaM L_Members L_MembersInv Hoare Inv.
From Coq Require Import Permutation.

Section Told.
Context {Id Addr : Type} {IO : IdOps Id Addr} {CO : CodecOps Id} {HO : HandlerOps Id} {IL : IdLaws IO}.
Variable rnd : oracle.
Notation member := (member Id).
Notation foca := (@foca Id Addr HO).
Notation rs := (@rs Id Addr HO).
Notation M := (@M Id Addr HO).
Notation "x <- m ;; f" := (bind m (fun x => f)) (at level 61, m at next level, right associativity).
Notation "m ;;; f" := (bind m (fun _ => f)) (at level 61, right associativity).

Definition has_addr (ms : @members Id) (a : Addr) : Prop := In a (map maddr (inner ms)).

(* addresses only come from S *)
Definition grows {A} (S : Addr -> Prop) (m : M A) : Prop :=
  forall s a, has_addr (mems (st (fst (m s)))) a -> has_addr (mems (st s)) a \/ S a.

Lemma grows_weaken {A} (S T : Addr -> Prop) (m : M A) : (forall a, S a -> T a) -> grows S m -> grows T m.
Proof. intros H G s a Ha. destruct (G s a Ha); auto. Qed.
Lemma grows_bind {A B} S (m : M A) (f : A -> M B) : grows S m -> (forall a, grows S (f a)) -> grows S (bind m f).
Proof.
  intros Hm Hf s a. specialize (Hm s a). unfold bind. destruct (m s) as [s1 [x|e|p]]; cbn [fst] in *; auto.
  intros Ha. destruct (Hf x s1 a Ha) as [H|H]; auto.
Qed.
Lemma grows_keep {A} S (m : M A) : (forall s, mems (st (fst (m s))) = mems (st s)) -> grows S m.
Proof. intros H s a. rewrite H. auto. Qed.
Lemma grows_ret {A} S (x : A) : grows S (@ret Id Addr HO A x). Proof. apply grows_keep. reflexivity. Qed.
Lemma grows_fail {A} S e : grows S (@fail Id Addr HO A e). Proof. apply grows_keep. reflexivity. Qed.
Lemma grows_panic {A} S p : grows S (@panic Id Addr HO A p). Proof. apply grows_keep. reflexivity. Qed.
Lemma grows_get S : grows S (@get Id Addr HO). Proof. apply grows_keep. reflexivity. Qed.
Lemma grows_num_sends S : grows S (@num_sends Id Addr HO). Proof. apply grows_keep. reflexivity. Qed.
Lemma grows_emit S e : grows S (@emit Id Addr HO e). Proof. apply grows_keep. reflexivity. Qed.
Lemma grows_ask S r : grows S (ask rnd r). Proof. apply grows_keep. reflexivity. Qed.
Lemma grows_with_ctr {A} S (g : N -> A * N) : grows S (with_ctr g).
Proof. apply grows_keep. intros s. unfold with_ctr. destruct (g (ctr s)). reflexivity. Qed.
Lemma grows_modify S g : (forall f, mems (g f) = mems f) -> grows S (@modify Id Addr HO g).
Proof. intros H. apply grows_keep. intros s. cbn. apply H. Qed.
Lemma grows_when S b (m : M unit) : grows S m -> grows S (when b m).
Proof. destruct b; cbn; auto. intros _. apply grows_ret. Qed.
Lemma grows_forM {A} S (l : list A) (f : A -> M unit) : (forall x, In x l -> grows S (f x)) -> grows S (forM_ l f).
Proof.
  induction l as [|x t IH]; intros H; cbn [forM_]; [apply grows_ret|].
  apply grows_bind; [apply H; left; reflexivity|]. intros _. apply IH. intros y Hy. apply H. right. exact Hy.
Qed.
Lemma grows_attempt S (m : M unit) : grows S m -> grows S (attempt m).
Proof. intros H s a. specialize (H s a). unfold attempt. destruct (m s) as [s1 [x|e|p]]; auto. Qed.

Ltac grows_step :=
  first
    [ apply grows_ret | apply grows_fail | apply grows_panic | apply grows_get | apply grows_num_sends
    | apply grows_emit | apply grows_ask | apply grows_with_ctr
    | apply grows_modify; intros ?; reflexivity
    | apply grows_when | apply grows_attempt
    | apply grows_forM; intros ? ?; cbv beta
    | apply grows_bind; [|intros ?]
    | progress cbv zeta
    | progress unfold send_message, send_body, send_customs, estimate_feed_capacity, choose_active, choose_and_send,
        gossip, announce_to_down, add_update, add_custom, handle_apply_summary, submit_periodic,
        become_connected, become_disconnected, become_undead, adjust_connection_state, indirect_loop,
        handle_custom_broadcasts, reset
    | match goal with
      | |- grows _ (match ?x with _ => _ end) => destruct x
      | |- grows _ (if ?c then _ else _) => destruct c
      | |- grows _ (let '(_, _) := ?x in _) => destruct x
      end ].
Ltac grows_auto := repeat grows_step.

Lemma grows_feed_loop S l : forall room count acc0, grows S (@feed_loop Id Addr CO HO l room count acc0).
Proof.
  induction l as [|m t IH]; intros room count acc0; cbn [feed_loop]; grows_auto. apply IH.
Qed.
Lemma grows_send_message S dst msg : grows S (send_message rnd dst msg).
Proof. grows_auto; apply grows_feed_loop. Qed.
Lemma grows_gossip S : grows S (gossip rnd).
Proof. grows_auto; apply grows_feed_loop. Qed.
Lemma grows_custom_loop S sender fuel : forall data, grows S (@custom_loop Id Addr HO fuel data sender).
Proof. induction fuel as [|fuel IH]; intros data; cbn [custom_loop]; grows_auto. apply IH. Qed.
Lemma grows_broadcast_loop S l : grows S (broadcast_loop rnd l).
Proof. induction l as [|m t IH]; cbn [broadcast_loop]; grows_auto; first [apply grows_feed_loop|apply IH]. Qed.
Lemma grows_hsum S sm u b : grows S (@handle_apply_summary Id Addr IO CO HO sm u b).
Proof. grows_auto. Qed.
Lemma grows_adjust S : grows S (@adjust_connection_state Id Addr HO).
Proof. grows_auto. Qed.

(* ---- the places where the membership changes ---- *)
Lemma apply_existing_if_addrs (ms : @members Id) u cond ms' sm :
  apply_existing_if ms u cond = Some (ms', sm) -> map maddr (inner ms') = map maddr (inner ms).
Proof.
  unfold apply_existing_if.
  destruct (find_index _ (inner ms)) as [p|] eqn:F; [|discriminate].
  destruct (find_index_lookup _ _ _ F) as (k & Hp & Hk). rewrite Hp.
  assert (Ek : maddr k = maddr u) by (apply lookup_Some_In in Hk; tauto).
  destruct (negb (id_eqb (m_id k) (m_id u)) && wins (m_id k) (m_id u)); [intros E; inversion E; reflexivity|].
  destruct (negb (cond k)); [intros E; inversion E; reflexivity|].
  set (known' := if negb (id_eqb (m_id k) (m_id u)) then _ else _).
  destruct known' as [[k' ok] cf] eqn:EK. intros E. inversion E; subst ms' sm. cbn [inner].
  apply (map_set_nth_same _ _ _ _ Hp).
  subst known'. destruct (negb (id_eqb (m_id k) (m_id u))) eqn:Conf.
  - inversion EK; subst. cbn. auto.
  - apply negb_false_iff, id_eqb_eq in Conf. unfold change_state in EK.
    destruct (can_change k (m_inc u) (m_state u)); inversion EK; subst; cbn; auto.
Qed.

Lemma members_apply_addrs (ms : @members Id) u n a :
  has_addr (fst (fst (members_apply rnd ms u n))) a -> has_addr ms a \/ a = maddr u.
Proof.
  unfold members_apply, has_addr.
  destruct (apply_existing_if ms u (fun _ => true)) as [[ms' sm]|] eqn:E.
  - cbn [fst]. rewrite (apply_existing_if_addrs _ _ _ _ _ E). auto.
  - cbn [fst inner]. intros H.
    assert (P : Permutation (swap (inner ms ++ [u]) (N.to_nat (below (len (inner ms ++ [u])) (rnd n (RChoose (len (inner ms ++ [u]))))))
                                  (length (inner ms ++ [u]) - 1)) (inner ms ++ [u])) by apply swap_perm.
    apply (Permutation_in _ (Permutation_map maddr P)) in H. rewrite map_app in H. apply in_app_or in H.
    destruct H as [H|[H|[]]]; auto.
Qed.

Lemma grows_apply_update u b : grows (fun a => a = maddr u) (apply_update rnd u b).
Proof.
  intros s a. unfold apply_update, bind at 1, get at 1. cbv beta iota.
  destruct (id_eqb (identity (st s)) (m_id u)); [cbn; auto|].
  unfold bind at 1, with_ctr at 1.
  pose proof (members_apply_addrs (mems (st s)) u (ctr s) a) as HA.
  destruct (members_apply rnd (mems (st s)) u (ctr s)) as [[ms sm] k']. cbn [fst] in HA. cbv beta iota.
  unfold bind at 1, modify at 1. cbv beta iota.
  set (s2 := mkRs (set_mems (st s) ms) (out s) k').
  assert (G : grows (fun a => a = maddr u)
                    (handle_apply_summary sm u b ;;;
                     ret (match s_conflict sm with Lost | FailedCondition => false | _ => is_active_now sm end))).
  { apply grows_bind; [apply grows_hsum|]. intros _. apply grows_ret. }
  intros H. destruct (G s2 a H) as [H2|H2]; [|auto]. apply HA. exact H2.
Qed.

Lemma grows_existing S (u : member) cond b (rest : @summary Id -> M unit) :
  (forall sm, grows S (rest sm)) ->
  grows S (f <- get ;;
           match apply_existing_if (mems f) u cond with
           | Some (ms, sm) => modify (fun f => set_mems f ms) ;;; handle_apply_summary sm u b ;;; rest sm
           | None => ret tt
           end).
Proof.
  intros Hr s a. unfold bind at 1, get at 1. cbv beta iota.
  destruct (apply_existing_if (mems (st s)) u cond) as [[ms sm]|] eqn:E; [|cbn; auto].
  unfold bind at 1, modify at 1. cbv beta iota.
  set (s2 := mkRs (set_mems (st s) ms) (out s) (ctr s)).
  assert (G : grows S (handle_apply_summary sm u b ;;; rest sm)) by (apply grows_bind; [apply grows_hsum|intros; apply Hr]).
  intros H. destruct (G s2 a H) as [H2|H2]; [|auto]. left. unfold has_addr in *. cbn [st mems set_mems s2] in H2.
  rewrite (apply_existing_if_addrs _ _ _ _ _ E) in H2. exact H2.
Qed.

Lemma members_next_addrs (ms : @members Id) n a :
  has_addr (fst (fst (members_next rnd ms n))) a -> has_addr ms a.
Proof.
  unfold has_addr, members_next. destruct (len (inner ms) <=? cursor ms).
  - set (inn := apply_perm _ (inner ms)).
    assert (P : Permutation inn (inner ms)) by apply apply_perm_perm.
    destruct (match find_index m_active (skipn (N.to_nat 0) inn) with Some p => _ | None => _ end); cbn [fst inner];
      intros H; apply (Permutation_in _ (Permutation_map maddr P)) in H; exact H.
  - destruct (match find_index m_active (skipn (N.to_nat (cursor ms)) (inner ms)) with Some p => _ | None => _ end); cbn [fst inner]; auto.
Qed.

Lemma remove_if_down_addrs (ms : @members Id) id a :
  has_addr (fst (remove_if_down ms id)) a -> has_addr ms a.
Proof.
  unfold has_addr, remove_if_down. destruct (find_index _ (inner ms)) as [p|] eqn:F; cbn [fst inner]; auto.
  destruct (find_index_Some _ _ _ F) as (x & Hx & _).
  pose proof (swap_remove_perm (inner ms) p x Hx) as P. intros H.
  apply (Permutation_in _ (Permutation_map maddr P)). cbn [map]. right. exact H.
Qed.

Definition nobody (a : Addr) : Prop := False.

Lemma grows_handle_self_update S inc st0 : grows S (handle_self_update rnd inc st0).
Proof. unfold handle_self_update, attempt_rejoin, change_identity. grows_auto; apply grows_feed_loop. Qed.

Lemma grows_apply_one b u : grows (fun a => a = maddr u) (apply_one rnd b u).
Proof.
  unfold apply_one. apply grows_bind; [apply grows_get|]. intros f.
  destruct (id_eqb (m_id u) (identity f)); [apply grows_handle_self_update|].
  destruct (addr_eqb _ _); (apply grows_bind; [|intros; apply grows_ret]).
  - apply (grows_apply_update (mkMember (m_id u) 0 Down) b).
  - apply grows_apply_update.
Qed.

Lemma grows_apply_many l b : grows (fun a => In a (map maddr l)) (apply_many rnd l b).
Proof.
  unfold apply_many. apply grows_bind; [|intros; apply grows_adjust].
  apply grows_forM. intros x Hx. eapply grows_weaken; [|apply grows_apply_one].
  intros a ->. apply in_map. exact Hx.
Qed.

Lemma grows_probe_random_member : grows nobody (probe_random_member rnd).
Proof.
  unfold probe_random_member. apply grows_bind; [apply grows_get|]. intros f.
  destruct (negb (conn_eqb (conn f) Connected)); [apply grows_panic|].
  apply grows_bind; [apply grows_when, grows_modify; intros ?; reflexivity|]. intros _.
  apply grows_bind; [apply grows_get|]. intros f1. destruct (probe_take_failed (prb f1)) as [p' failed].
  apply grows_bind; [apply grows_modify; intros ?; reflexivity|]. intros _.
  apply grows_bind.
  { destruct failed as [fm|]; [|apply grows_ret].
    apply (grows_existing nobody (mkMember (m_id fm) (m_inc fm) Suspect) (fun _ => true) true
             (fun sm => f0 <- get ;; when (is_active_now sm)
                          (emit (Submit (TChangeSuspectToDown (m_id fm) (m_inc fm) (token f0)) (suspect_to_down_after (cfg f0)))))).
    intros sm. grows_auto. }
  intros _ s a. unfold bind at 1, get at 1. cbv beta iota. unfold bind at 1, with_ctr at 1.
  pose proof (members_next_addrs (mems (st s)) (ctr s) a) as HA.
  destruct (members_next rnd (mems (st s)) (ctr s)) as [[ms chosen] k']. cbn [fst] in HA. cbv beta iota.
  unfold bind at 1, modify at 1. cbv beta iota. cbn [st out ctr].
  set (s2 := mkRs (set_mems (st s) ms) (out s) k').
  match goal with |- has_addr (mems (st (fst (?m s2)))) a -> _ => assert (G : grows nobody m) end.
  { grows_auto; apply grows_feed_loop. }
  intros H. destruct (G s2 a H) as [H2|[]]. left. apply HA. exact H2.
Qed.

Definition growsP {A} (S : Addr -> Prop) (m : M A) (s : rs) : Prop :=
  forall a, has_addr (mems (st (fst (m s)))) a -> has_addr (mems (st s)) a \/ S a.
Lemma growsP_get {B} S (body : foca -> M B) s : growsP S (body (st s)) s -> growsP S (f <- get ;; body f) s.
Proof. unfold growsP, bind, get. cbn. auto. Qed.
Lemma grows_at {A} S (m : M A) s : grows S m -> growsP S m s.
Proof. intros H a. apply H. Qed.

Lemma growsP_existing S (u : member) cond b (rest : @summary Id -> M unit) s :
  (forall sm, grows S (rest sm)) ->
  growsP S (match apply_existing_if (mems (st s)) u cond with
            | Some (ms, sm) => modify (fun f => set_mems f ms) ;;; handle_apply_summary sm u b ;;; rest sm
            | None => ret tt
            end) s.
Proof.
  intros Hr a.
  destruct (apply_existing_if (mems (st s)) u cond) as [[ms sm]|] eqn:E; [|cbn; auto].
  unfold bind at 1, modify at 1. cbv beta iota.
  set (s2 := mkRs (set_mems (st s) ms) (out s) (ctr s)).
  assert (G : grows S (handle_apply_summary sm u b ;;; rest sm)) by (apply grows_bind; [apply grows_hsum|intros; apply Hr]).
  intros H. destruct (G s2 a H) as [H2|H2]; [|auto]. left. unfold has_addr in *. cbn [st mems set_mems s2] in H2.
  rewrite (apply_existing_if_addrs _ _ _ _ _ E) in H2. exact H2.
Qed.

Lemma grows_handle_timer t : grows nobody (handle_timer rnd t).
Proof.
  unfold handle_timer. intros s. refine (growsP_get _ _ s _).
  destruct t as [tok|probed tok|mid inc tok|tok|tok|tok|down].
  - destruct (tok =? token (st s)); [|apply grows_at, grows_ret].
    destruct (negb _); [apply grows_at, grows_fail|apply grows_at, grows_probe_random_member].
  - apply grows_at. grows_auto; apply grows_feed_loop.
  - destruct (negb _); [apply grows_at, grows_ret|].
    apply (growsP_existing nobody (mkMember mid inc Down) (fun m => m_inc m =? inc) true
             (fun sm => adjust_connection_state ;;;
                        when (apply_successful sm && notify_down_members (cfg (st s))) (send_message rnd mid TurnUndead))).
    intros sm. grows_auto; apply grows_feed_loop.
  - apply grows_at. unfold periodic_guard. grows_auto; apply grows_feed_loop.
  - apply grows_at. unfold periodic_guard. grows_auto; apply grows_feed_loop.
  - apply grows_at. unfold periodic_guard. grows_auto; apply grows_feed_loop.
  - intros a. unfold modify. cbn [fst st mems set_mems]. intros H. left. eapply remove_if_down_addrs. exact H.
Qed.

Lemma grows_react src msg : grows nobody (react rnd src msg).
Proof.
  unfold react. apply grows_bind; [apply grows_get|]. intros f.
  destruct msg; first [apply grows_handle_self_update | solve [grows_auto; apply grows_feed_loop | grows_auto]].
Qed.

(* what a datagram tells: the address of its sender and of every member update it carries *)
Definition told_data (b : bytes) (a : Addr) : Prop :=
  exists h rest, dec_hdr b = Some (h, rest)
    /\ (a = addr_of (h_src h)
        \/ exists n r ul tail, get_u16 rest = Some (n, r) /\ dec_members (N.to_nat n) r = Some (ul, tail) /\ In a (map maddr ul)).

Lemma grows_after_header (S : Addr -> Prop) (h : header Id) (ul : list member) (tail : bytes) :
  S (addr_of (h_src h)) -> (forall a, In a (map maddr ul) -> S a) ->
  grows S (sender_is_active <- apply_update rnd (mkMember (h_src h) (h_src_inc h) Alive) true ;;
           if negb sender_is_active then
             f0 <- get ;;
             let already_undead := conn_eqb (conn f0) Undead in
             when (message_eqb id_eqb (h_msg h) TurnUndead) (handle_self_update rnd 0 Down) ;;;
             f <- get ;;
             let pointless := already_undead && message_eqb id_eqb (h_msg h) TurnUndead in
             when (notify_down_members (cfg f) && negb pointless) (send_message rnd (h_src h) TurnUndead)
           else
             apply_many rnd ul true ;;;
             cres <- attempt (handle_custom_broadcasts tail (Some (h_src h))) ;;
             f <- get ;;
             if negb (conn_eqb (conn f) Connected) then
               match cres with Some e => fail e | None => ret tt end
             else
               react rnd (h_src h) (h_msg h) ;;;
               match cres with Some e => fail e | None => ret tt end).
Proof.
  intros Hs Hu. apply grows_bind.
  { eapply grows_weaken; [|apply grows_apply_update]. intros a ->. exact Hs. }
  intros sia. destruct (negb sia).
  - apply grows_bind; [apply grows_get|]. intros f0.
    apply grows_bind; [apply grows_when, grows_handle_self_update|]. intros _.
    apply grows_bind; [apply grows_get|]. intros f1. apply grows_when, grows_send_message.
  - apply grows_bind; [eapply grows_weaken; [|apply grows_apply_many]; exact Hu|]. intros _.
    apply grows_bind; [apply grows_attempt; unfold handle_custom_broadcasts; grows_auto; apply grows_custom_loop|]. intros cres.
    apply grows_bind; [apply grows_get|]. intros f1.
    destruct (negb (conn_eqb _ _)).
    + destruct cres; [apply grows_fail|apply grows_ret].
    + apply grows_bind; [eapply grows_weaken; [|apply grows_react]; intros a []|]. intros _.
      destruct cres; [apply grows_fail|apply grows_ret].
Qed.

Lemma grows_handle_data data : grows (told_data data) (handle_data rnd data).
Proof.
  unfold handle_data. apply grows_bind; [apply grows_get|]. intros f.
  destruct (_ <? len data); [apply grows_fail|].
  destruct (dec_hdr data) as [[h rest]|] eqn:DH; [|apply grows_fail].
  destruct (_ || _); [apply grows_fail|].
  destruct (_ || _); [apply grows_fail|].
  destruct (negb (accept_payload _ _)); [apply grows_ret|].
  assert (TS : told_data data (addr_of (h_src h))) by (exists h, rest; split; [exact DH|left; reflexivity]).
  destruct ((2 <=? len rest) && negb (message_eqb id_eqb (h_msg h) Broadcast)) eqn:HasUps.
  - destruct (get_u16 rest) as [[n r]|] eqn:GU; [|intros s a; unfold bind, fail; cbn; auto].
    destruct (dec_members (N.to_nat n) r) as [[ul tail]|] eqn:DM; [|intros s a; unfold bind, fail; cbn; auto].
    intros s a. unfold bind at 1, ret at 1. cbv beta iota. revert s a.
    apply grows_after_header; [exact TS|].
    intros a Ha. exists h, rest. split; [exact DH|]. right. exists n, r, ul, tail. auto.
  - intros s a. unfold bind at 1, ret at 1. cbv beta iota. revert s a.
    apply grows_after_header; [exact TS|]. intros a [].
Qed.

Definition told (i : @input Id) (a : Addr) : Prop :=
  match i with
  | IData b => told_data b a
  | IApplyMany l _ => In a (map maddr l)
  | _ => False
  end.

(* every address in the membership after a call was there before or is named by the input *)
Theorem step_told (f : foca) (i : @input Id) (a : Addr) :
  has_addr (mems (fst (fst (fst (step rnd f i))))) a -> has_addr (mems f) a \/ told i a.
Proof.
  assert (RU : forall (S : Addr -> Prop) (m : M unit), grows S m ->
            has_addr (mems (fst (fst (fst (run_unit m f))))) a -> has_addr (mems f) a \/ S a).
  { intros S m G. unfold run_unit. specialize (G (mkRs f [] 0) a). destruct (m (mkRs f [] 0)) as [s' r]. exact G. }
  destruct i; cbn [step told].
  - apply (RU (told_data b)), grows_handle_data.
  - intros H. destruct (RU _ _ (grows_handle_timer t) H) as [X|[]]. left. exact X.
  - apply (RU (fun x => In x (map maddr l))), grows_apply_many.
  - apply (RU (fun _ => False)), grows_send_message.
  - apply (RU (fun _ => False)), grows_gossip.
  - apply (RU (fun _ => False)). unfold broadcast. grows_auto; apply grows_broadcast_loop.
  - apply (RU (fun _ => False)). unfold leave_cluster. grows_auto; apply grows_feed_loop.
  - apply (RU (fun _ => False)). unfold change_identity. grows_auto; apply grows_feed_loop.
  - apply (RU (fun _ => False)). unfold reuse_down_identity. grows_auto.
  - apply (RU (fun _ => False)). unfold set_config. grows_auto.
  - assert (G : grows (fun _ => False) (@add_broadcast Id Addr HO b)) by (unfold add_broadcast; grows_auto).
    specialize (G (mkRs f [] 0) a). unfold run_bool. destruct (add_broadcast b (mkRs f [] 0)) as [s' r]. exact G.
Qed.

(* histories: the addresses present are among those told by the inputs so far *)
Inductive thist (id0 : Id) (c0 : config) (h0 : hstate) : foca -> (Addr -> Prop) -> Prop :=
| T_init : thist id0 c0 h0 (foca_init id0 c0 h0) (fun _ => False)
| T_step f T i rnd' :
    thist id0 c0 h0 f T ->
    thist id0 c0 h0 (fst (fst (fst (step rnd' f i)))) (fun a => T a \/ told i a).

End Told.

Section ToldHist.
Context {Id Addr : Type} {IO : IdOps Id Addr} {CO : CodecOps Id} {HO : HandlerOps Id} {IL : IdLaws IO}.

Theorem thist_told id0 c0 h0 (f : @foca Id Addr HO) (T : Addr -> Prop) :
  thist id0 c0 h0 f T -> forall a, has_addr (mems f) a -> T a.
Proof.
  induction 1 as [|f T i rnd' _ IH]; intros a Ha.
  - cbn in Ha. contradiction.
  - destruct (step_told rnd' f i a Ha) as [H|H]; [left; apply IH; exact H|right; exact H].
Qed.
End ToldHist.
