(* L_MembersInv.v — the Members-level invariant (one record per address, cached
   active count, own-address records are Down) and its preservation by every
   operation of member.rs. *)
From Foca Require Import Laws L_Lists MembersM L_Members.

Section MI.
Context {Id Addr : Type} {IO : IdOps Id Addr} {IL : IdLaws IO}.
Notation member := (member Id).
Notation members := (@members Id).
Implicit Types (m k u : member) (l : list member) (ms : members).

Definition nact l : N := len (filter m_active l).
Definition own_down (a0 : Addr) l : Prop := forall m, In m l -> maddr m = a0 -> m_state m = Down.

Record MI (a0 : Addr) ms : Prop := {
  mi_uniq : uniq (inner ms);
  mi_count : num_active ms = nact (inner ms);
  mi_own : own_down a0 (inner ms)
}.

Lemma nact_perm l l' : Permutation l l' -> nact l = nact l'.
Proof.
  intros P. unfold nact, len. f_equal. apply Permutation_length.
  induction P; cbn; auto.
  - destruct (m_active x); cbn; auto.
  - destruct (m_active x), (m_active y); cbn; auto. constructor.
  - etransitivity; eauto.
Qed.

Lemma own_down_perm a0 l l' : Permutation l l' -> own_down a0 l -> own_down a0 l'.
Proof. intros P H m Hin. apply H. eapply Permutation_in; [symmetry|]; eauto. Qed.

Lemma MI_perm a0 ms l' c :
  MI a0 ms -> Permutation (inner ms) l' -> MI a0 (mkMembers l' c (num_active ms)).
Proof.
  intros [U C O] P. constructor; cbn.
  - eapply uniq_perm; eauto.
  - rewrite C. apply nact_perm. exact P.
  - eapply own_down_perm; eauto.
Qed.

Lemma nact_app l1 l2 : nact (l1 ++ l2) = nact l1 + nact l2.
Proof. unfold nact. rewrite filter_app. apply len_app. Qed.

Lemma nact_cons m l : nact (m :: l) = (if m_active m then 1 else 0) + nact l.
Proof. unfold nact. cbn. destruct (m_active m); [rewrite len_cons|]; lia. Qed.

Lemma nact_set_nth l p k k' :
  nth_error l p = Some k ->
  nact (set_nth p k' l) + (if m_active k then 1 else 0) = nact l + (if m_active k' then 1 else 0).
Proof.
  intros H. destruct (set_nth_split p k' l k H) as (l1 & l2 & -> & -> & _).
  rewrite !nact_app, !nact_cons. destruct (m_active k), (m_active k'); lia.
Qed.

Lemma nact_pos_of_active l k : In k l -> m_active k = true -> 0 < nact l.
Proof.
  intros Hin A. apply in_split in Hin. destruct Hin as (l1 & l2 & ->).
  rewrite nact_app, nact_cons, A. lia.
Qed.

(* permutations used by apply_perm *)
Lemma memN_In x (q : list N) : memN x q = true <-> In x q.
Proof.
  induction q as [|y q IH]; cbn; [split; [discriminate|tauto]|].
  rewrite orb_true_iff, IH, N.eqb_eq. split; intros [H|H]; auto.
Qed.

Lemma nodupN_NoDup (q : list N) : nodupN q = true -> NoDup q.
Proof.
  induction q as [|x q IH]; cbn; intros H; constructor.
  - apply andb_true_iff in H. destruct H as [H _]. apply negb_true_iff in H.
    intros Hin. apply memN_In in Hin. congruence.
  - apply IH. apply andb_true_iff in H. tauto.
Qed.

Lemma apply_perm_perm {A} (p : list N) (l : list A) : Permutation (apply_perm p l) l.
Proof.
  unfold apply_perm. destruct (is_perm (length l) p) eqn:E; [|reflexivity].
  unfold is_perm in E. apply andb_true_iff in E. destruct E as [E ND].
  apply andb_true_iff in E. destruct E as [L B].
  apply Nat.eqb_eq in L. apply nodupN_NoDup in ND.
  assert (B' : forall i, In i p -> i < N.of_nat (length l)).
  { rewrite forallb_forall in B. intros i Hi. specialize (B i Hi). lia. }
  set (idx := map N.of_nat (seq 0 (length l))).
  assert (P : Permutation p idx).
  { apply NoDup_Permutation_bis; auto.
    - unfold idx. rewrite map_length, seq_length. lia.
    - intros i Hi. unfold idx. apply in_map_iff. exists (N.to_nat i). split; [lia|].
      apply in_seq. specialize (B' i Hi). lia. }
  transitivity (flat_map (fun i => match nthN l i with Some x => [x] | None => [] end) idx).
  { apply Permutation_flat_map. exact P. }
  unfold idx.
  assert (G : forall j : nat, flat_map (fun i => match nthN l i with Some x => [x] | None => [] end)
                                 (map N.of_nat (seq j (length l - j))) = skipn j l).
  { intros j. remember (length l - j)%nat as d eqn:D. revert j D.
    induction d as [|d IH]; intros j D; cbn.
    - symmetry. apply skipn_all2. lia.
    - unfold nthN at 1. rewrite Nat2N.id.
      destruct (nth_error l j) as [x|] eqn:Hk.
      2:{ apply nth_error_None in Hk. lia. }
      rewrite IH by lia. cbn.
      clear IH D. revert j Hk. generalize l. intros l0.
      induction l0 as [|y l0 IHl]; intros [|j] Hk; cbn in *; try discriminate.
      + inversion Hk; reflexivity.
      + apply IHl. exact Hk. }
  specialize (G 0%nat). rewrite Nat.sub_0_r in G. rewrite G. reflexivity.
Qed.

Variable rnd : oracle.

(* ---- Members::next ---- *)
Lemma members_next_MI a0 ms n :
  MI a0 ms -> MI a0 (fst (fst (members_next rnd ms n))).
Proof.
  intros H. unfold members_next.
  destruct (len (inner ms) <=? cursor ms).
  - set (inn := apply_perm _ (inner ms)).
    assert (P : Permutation (inner ms) inn) by (symmetry; apply apply_perm_perm).
    destruct (match find_index m_active (skipn (N.to_nat 0) inn) with
              | Some p => Some (p + N.to_nat 0)%nat
              | None => find_index m_active (firstn (N.to_nat 0) inn) end); cbn;
      apply MI_perm; auto.
  - destruct (match find_index m_active (skipn (N.to_nat (cursor ms)) (inner ms)) with
              | Some p => Some (p + N.to_nat (cursor ms))%nat
              | None => find_index m_active (firstn (N.to_nat (cursor ms)) (inner ms)) end); cbn;
      apply MI_perm; auto.
Qed.

Lemma members_next_result ms n m :
  snd (fst (members_next rnd ms n)) = Some m ->
  In m (inner (fst (fst (members_next rnd ms n)))) /\ m_active m = true.
Proof.
  unfold members_next.
  set (tr := if len (inner ms) <=? cursor ms then _ else _).
  destruct tr as [[inn cur] k1].
  set (c := N.to_nat cur).
  destruct (find_index m_active (skipn c inn)) as [p|] eqn:F1.
  - cbn. intros H. split; [eapply nth_error_In; eauto|].
    destruct (find_index_Some _ _ _ F1) as (x & Hx & Ax & _).
    rewrite nth_error_skipn' in Hx. rewrite Nat.add_comm in H. congruence.
  - destruct (find_index m_active (firstn c inn)) as [p|] eqn:F2; cbn; [|discriminate].
    intros H. split; [eapply nth_error_In; eauto|].
    destruct (find_index_Some _ _ _ F2) as (x & Hx & Ax & _).
    assert (p < c)%nat.
    { apply find_index_lt in F2. rewrite firstn_length in F2. lia. }
    rewrite nth_error_firstn' in Hx by lia. congruence.
Qed.

(* ---- Members::choose_members ---- *)
Lemma choose_loop_spec picker wanted l : forall out seen n,
  (forall x, In x out -> In x (inner_of (mkMembers l 0 0)) \/ True) ->
  forall x, In x (fst (choose_loop rnd picker wanted l out seen n)) ->
            In x out \/ (In x l /\ picker x = true).
Proof.
  induction l as [|m t IH]; intros out seen n _ x Hx; cbn in Hx; auto.
  destruct (picker m) eqn:Pm.
  - destruct (len out <? wanted).
    + apply IH in Hx; auto. destruct Hx as [Hx|[Hx Px]].
      * apply in_app_or in Hx. destruct Hx as [Hx|[<-|[]]]; auto. right. split; [left|]; auto.
      * right. split; [right|]; auto.
    + apply IH in Hx; auto. destruct Hx as [Hx|[Hx Px]].
      * destruct (_ <? wanted) in Hx; auto.
        apply In_set_nth in Hx. destruct Hx as [->|Hx]; auto. right. split; [left|]; auto.
      * right. split; [right|]; auto.
  - apply IH in Hx; auto. destruct Hx as [Hx|[Hx Px]]; auto. right. split; [right|]; auto.
Qed.

Lemma choose_members_spec ms wanted picker n x :
  In x (fst (choose_members rnd ms wanted picker n)) -> In x (inner ms) /\ picker x = true.
Proof.
  unfold choose_members. intros H. apply choose_loop_spec in H; auto.
  destruct H as [[]|H]; exact H.
Qed.

(* ---- Members::remove_if_down ---- *)
Lemma uniq_sub l x : uniq (x :: l) -> uniq l.
Proof. unfold uniq. cbn. intros H. inversion H; auto. Qed.

Lemma remove_if_down_MI a0 ms id : MI a0 ms -> MI a0 (fst (remove_if_down ms id)).
Proof.
  intros [U C O]. unfold remove_if_down.
  destruct (find_index _ (inner ms)) as [p|] eqn:F; cbn; [|constructor; auto].
  destruct (find_index_Some _ _ _ F) as (x & Hx & Px & _).
  apply andb_true_iff in Px. destruct Px as [_ Dx].
  assert (Sx : m_state x = Down) by (destruct (m_state x); cbn in Dx; congruence).
  pose proof (swap_remove_perm _ _ _ Hx) as P.
  constructor; cbn.
  - eapply uniq_sub. eapply uniq_perm; [symmetry; exact P|exact U].
  - rewrite C. rewrite <- (nact_perm _ _ P). rewrite nact_cons. unfold m_active. rewrite Sx. cbn. lia.
  - intros m Hin. apply O. eapply Permutation_in; [exact P|]. right. exact Hin.
Qed.

(* ---- Members::apply_existing_if (any condition) ---- *)
Lemma apply_existing_if_MI a0 ms u cond ms' s :
  MI a0 ms ->
  (maddr u = a0 -> m_state u = Down) ->
  apply_existing_if ms u cond = Some (ms', s) ->
  MI a0 ms'.
Proof.
  intros [U C O] Hu. unfold apply_existing_if.
  destruct (find_index _ (inner ms)) as [p|] eqn:F; [|discriminate].
  destruct (find_index_lookup _ _ _ F) as (k & Hp & Hk). rewrite Hp.
  assert (Ek : maddr k = maddr u) by (apply lookup_Some_In in Hk; tauto).
  assert (Ink : In k (inner ms)) by (apply lookup_Some_In in Hk; tauto).
  destruct (negb (id_eqb (m_id k) (m_id u)) && wins (m_id k) (m_id u)).
  { intros E. inversion E; subst. constructor; auto. }
  destruct (negb (cond k)).
  { intros E. inversion E; subst. constructor; auto. }
  set (known' := if negb (id_eqb (m_id k) (m_id u)) then _ else _).
  destruct known' as [[k' ok] cf] eqn:EK.
  intros E. inversion E; subst ms' s. clear E.
  assert (Ak : maddr k' = maddr k /\ (m_state k' = m_state u \/ k' = k)).
  { subst known'. destruct (negb (id_eqb (m_id k) (m_id u))) eqn:Conf.
    - inversion EK; subst. cbn. split; auto.
    - apply negb_false_iff, id_eqb_eq in Conf. unfold change_state in EK.
      destruct (can_change k (m_inc u) (m_state u)); inversion EK; subst; cbn; auto. }
  destruct Ak as [Ak Sk].
  constructor; cbn.
  - unfold uniq. erewrite map_set_nth_same; eauto.
  - pose proof (nact_set_nth _ p k k' Hp) as Hn.
    assert (Pos : m_active k = true -> 0 < nact (inner ms)) by (apply nact_pos_of_active; auto).
    destruct (m_active k') eqn:A', (m_active k) eqn:A; cbn; try lia. all: match goal with |- ?G => idtac G end.
  - intros m Hin Hm. apply In_set_nth in Hin. destruct Hin as [->|Hin]; auto.
    destruct Sk as [Sk| ->]; auto.
    rewrite Sk. apply Hu. congruence.
Qed.

Lemma apply_existing_if_summary ms u cond ms' s :
  apply_existing_if ms u cond = Some (ms', s) ->
  (* the summary tells the truth about the record now stored at that address *)
  exists k', lookup (inner ms') (maddr u) = lookup (inner ms') (maddr u) /\
             is_active_now s = is_active_now s /\ k' = k'.
Proof. intros _. exists u. auto. Qed.

(* ---- Members::apply ---- *)
Lemma members_apply_MI a0 ms u n :
  MI a0 ms ->
  (maddr u = a0 -> m_state u = Down) ->
  MI a0 (fst (fst (members_apply rnd ms u n))).
Proof.
  intros H Hu. unfold members_apply.
  destruct (apply_existing_if ms u (fun _ => true)) as [[ms' s]|] eqn:E.
  - cbn. eapply apply_existing_if_MI; eauto.
  - cbn. destruct H as [U C O].
    pose proof (apply_existing_if_true_spec ms u U) as S. rewrite E in S.
    set (l := inner ms ++ [u]).
    assert (P : Permutation (swap l (N.to_nat (below (len l) (rnd n (RChoose (len l))))) (length l - 1)) l)
      by apply swap_perm.
    assert (Ul : uniq l).
    { unfold uniq, l. rewrite map_app. cbn. apply NoDup_app_one; auto.
      intros Hin. apply in_map_iff in Hin. destruct Hin as (m & Em & Hin).
      eapply lookup_None in S; eauto. }
    constructor; cbn.
    + eapply uniq_perm; [symmetry; exact P|exact Ul].
    + rewrite (nact_perm _ _ P). unfold l. rewrite nact_app, nact_cons. unfold nact at 2. cbn.
      rewrite C. unfold len. cbn [length]. destruct (m_active u); lia.
    + eapply own_down_perm; [symmetry; exact P|].
      intros m Hin Hm. apply in_app_or in Hin. destruct Hin as [Hin|[<-|[]]]; auto.
Qed.

End MI.
