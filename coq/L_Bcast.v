(* L_Bcast.v — facts about the backlog model (broadcast.rs): pop order is a
   priority-sorted permutation, fill preserves entry invariants and never trips
   a debug assertion on well-formed backlogs. *)
From Foca Require Import Laws L_Lists BcastM.

Section B.
Variable K : Type.
Notation entry := (@entry K).
Notation backlog := (backlog K).
Implicit Types (e : entry) (l : backlog).

Lemma insert_desc_perm e l : Permutation (insert_desc K e l) (e :: l).
Proof.
  induction l as [|x t IH]; cbn; auto.
  destruct (prio_le K x e); auto.
  transitivity (x :: e :: t); [constructor; exact IH|constructor].
Qed.

Lemma sort_desc_perm l : Permutation (sort_desc K l) l.
Proof.
  induction l as [|x t IH]; cbn; auto.
  etransitivity; [apply insert_desc_perm|]. constructor. exact IH.
Qed.

Lemma take_first_perm d l e l' : take_first K d l = Some (e, l') -> Permutation l (e :: l').
Proof.
  revert e l'. induction l as [|x t IH]; intros e l' H; cbn in H; [discriminate|].
  destruct (bytes_eqb (e_data x) d).
  - inversion H; subst. reflexivity.
  - destruct (take_first K d t) as [[e0 t']|] eqn:T; [|discriminate].
    inversion H; subst. specialize (IH _ _ eq_refl).
    transitivity (x :: e :: t'); [constructor; exact IH|constructor].
Qed.

Lemma pull_hinted_perm items : forall l a b, pull_hinted K items l = (a, b) -> Permutation l (a ++ b).
Proof.
  induction items as [|d r IH]; intros l a b H; cbn in H.
  - inversion H; subst. reflexivity.
  - destruct (take_first K d l) as [[e l']|] eqn:T.
    + destruct (pull_hinted K r l') as [a0 b0] eqn:P. inversion H; subst.
      apply take_first_perm in T. etransitivity; [exact T|]. cbn. constructor. apply IH. exact P.
    + apply IH. exact H.
Qed.

Lemma pop_order_perm hint l : Permutation (pop_order K hint l) l.
Proof.
  unfold pop_order. destruct (pull_hinted K _ l) as [a b] eqn:P.
  etransitivity; [apply sort_desc_perm|]. symmetry. eapply pull_hinted_perm. exact P.
Qed.

(* ---- entry invariants through fill ---- *)
Definition tx_ok e : Prop := 1 <= e_tx e.

Lemma fill_loop_kept (Q : entry -> Prop) extra :
  (forall e, Q e -> 1 < e_tx e -> Q (mkEntry (e_tx e - 1) (e_data e) (e_key e))) ->
  forall l room remaining w n kept p,
    Forall Q l -> fill_loop K extra l room remaining = (w, n, kept, p) -> Forall Q kept.
Proof.
  intros HQ. induction l as [|e t IH]; intros room remaining w n kept p F H; cbn in H.
  - inversion H; subst. constructor.
  - inversion F as [|? ? Qe Ft]; subst.
    destruct ((0 <? room) && (0 <? remaining)).
    2:{ inversion H; subst. exact F. }
    destruct (e_tx e =? 0). { inversion H; subst. exact F. }
    destruct (len (e_data e) + extra <=? room).
    + destruct ((extra =? 2) && (u16_max <? len (e_data e))). { inversion H; subst. exact F. }
      destruct (fill_loop K extra t _ _) as [[[w0 n0] k0] p0] eqn:R.
      inversion H; subst. specialize (IH _ _ _ _ _ _ Ft R).
      destruct (1 <? e_tx e) eqn:T; auto. constructor; auto. apply HQ; auto. lia.
    + destruct (fill_loop K extra t _ _) as [[[w0 n0] k0] p0] eqn:R.
      inversion H; subst. constructor; auto. eapply IH; eauto.
Qed.

Lemma fill_loop_no_panic extra :
  forall l room remaining,
    Forall (fun e => 1 <= e_tx e /\ (extra = 2 -> len (e_data e) <= u16_max)) l ->
    snd (fill_loop K extra l room remaining) = None.
Proof.
  induction l as [|e t IH]; intros room remaining F; cbn; auto.
  inversion F as [|? ? [T L] Ft]; subst.
  destruct ((0 <? room) && (0 <? remaining)); auto.
  destruct (e_tx e =? 0) eqn:Z; [lia|].
  destruct (len (e_data e) + extra <=? room).
  - destruct ((extra =? 2) && (u16_max <? len (e_data e))) eqn:X.
    { apply andb_true_iff in X. destruct X as [X1 X2]. apply N.eqb_eq in X1. specialize (L X1). lia. }
    specialize (IH (room - (len (e_data e) + extra)) (remaining - 1) Ft).
    destruct (fill_loop K extra t _ _) as [[[w0 n0] k0] p0]. cbn in *. exact IH.
  - specialize (IH room remaining Ft).
    destruct (fill_loop K extra t _ _) as [[[w0 n0] k0] p0]. cbn in *. exact IH.
Qed.

Lemma fill_loop_len extra : extra = 0 \/ extra = 2 -> forall l room remaining,
  len (fst (fst (fst (fill_loop K extra l room remaining)))) <= room.
Proof.
  intros Hex. induction l as [|e t IH]; intros room remaining; cbn.
  - unfold len; cbn; lia.
  - destruct ((0 <? room) && (0 <? remaining)); [|unfold len; cbn; lia].
    destruct (e_tx e =? 0); [unfold len; cbn; lia|].
    destruct (len (e_data e) + extra <=? room) eqn:Fit.
    + destruct ((extra =? 2) && (u16_max <? len (e_data e))); [unfold len; cbn; lia|].
      specialize (IH (room - (len (e_data e) + extra)) (remaining - 1)).
      destruct (fill_loop K extra t _ _) as [[[w0 n0] k0] p0]. cbn in *.
      rewrite !len_app.
      destruct (extra =? 0) eqn:E0.
      * unfold len at 1. cbn [length]. lia.
      * assert (len (u16_be (len (e_data e))) = 2) by reflexivity.
        destruct (extra =? 2) eqn:E2.
        -- lia.
        -- lia.
    + specialize (IH room remaining).
      destruct (fill_loop K extra t _ _) as [[[w0 n0] k0] p0]. cbn in *. exact IH.
Qed.

Lemma fill_gen_kept (Q : entry -> Prop) extra hint l room mx w n kept p :
  (forall e, Q e -> 1 < e_tx e -> Q (mkEntry (e_tx e - 1) (e_data e) (e_key e))) ->
  Forall Q l -> fill_gen K extra hint l room mx = (w, n, kept, p) -> Forall Q kept.
Proof.
  intros HQ F H. unfold fill_gen in H. destruct l as [|x t].
  - inversion H; subst. constructor.
  - apply (fill_loop_kept Q extra HQ (pop_order K hint (x :: t)) room mx w n kept p); auto.
    eapply Permutation_Forall; [symmetry; apply pop_order_perm|]. exact F.
Qed.

Lemma fill_gen_no_panic extra hint l room mx :
  Forall (fun e => 1 <= e_tx e /\ (extra = 2 -> len (e_data e) <= u16_max)) l ->
  snd (fill_gen K extra hint l room mx) = None.
Proof.
  intros F. unfold fill_gen. destruct l as [|x t]; auto.
  apply fill_loop_no_panic.
  eapply Permutation_Forall; [symmetry; apply pop_order_perm|]. exact F.
Qed.

Lemma add_or_replace_Forall (Q : entry -> Prop) inval l item data tx :
  Forall Q l -> Q (mkEntry tx data item) -> Forall Q (add_or_replace K inval l item data tx).
Proof.
  intros F H. unfold add_or_replace. apply Forall_app. split.
  - apply Forall_forall. intros e He. apply filter_In in He. destruct He as [He _].
    rewrite Forall_forall in F. auto.
  - constructor; auto.
Qed.

End B.
