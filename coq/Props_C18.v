(* Props_C18.v — C18: reply cascades terminate (PARTIAL: per-delivery mechanisms).
   The whole-network termination statement is decided by the frozen-timer simulation of
   real instances; proved here: what each message kind can trigger. *)
From Foca Require Import Laws MembersM FocaM WireM L_Members L_MembersInv Inv L_Wire L_Discard L_Probe L_Mech L_FanOut L_FanOutSharp.

Section C18.
Context {Id Addr : Type} {IO : IdOps Id Addr} {CO : CodecOps Id} {HO : HandlerOps Id}.
Context {IL : IdLaws IO} {EL : @ExtraLaws Id Addr IO CO} {CL : CodecLaws CO}.

(* rank of a message kind: a reply always has a strictly lower rank than the request *)
Definition rank (m : message Id) : nat :=
  match m with
  | PingReq _ _ => 4 | IndirectPing _ _ => 3 | IndirectAck _ _ => 2 | ForwardedAck _ _ => 1
  | Ping _ => 2 | Ack _ => 1 | Announce => 2 | Feed => 1
  | Gossip | Broadcast | TurnUndead => 1
  end.

(* Ack, ForwardedAck, Feed, Gossip and Broadcast are answered by nothing *)
Theorem C18_terminal_kinds (rnd : oracle) (src : Id) (msg : message Id) (s : @rs Id Addr HO) :
  (exists n, msg = Ack n) \/ msg = Feed \/ msg = Gossip \/ msg = Broadcast ->
  out (fst (react rnd src msg s)) = out s.
Proof. intros [[n ->]|[->|[->| ->]]]; reflexivity. Qed.

(* each of the request kinds is answered by exactly one datagram, of strictly lower rank *)
Theorem C18_reply_rank_decreases (rnd : oracle) (src : Id) (n : N) (s : @rs Id Addr HO) :
  WF (st s) ->
  match react rnd src (Ping n) s with
  | (s', ROk _) => exists b, out s' = out s ++ [Send src b] /\ sent_ok (st s) src (Ack n) b
                             /\ (rank (Ack n) < rank (Ping n))%nat
  | (s', RErr e) => e = EEncode /\ s' = s
  | (_, RPanic _) => False
  end.
Proof.
  intros W. pose proof (ping_is_acked rnd src n s W) as H.
  destruct (react rnd src (Ping n) s) as [s' [a|e|p]]; auto.
  destruct H as (b & H1 & H2). exists b. repeat split; auto.
Qed.

(* an instance that already knew it was down and cannot renew answers a TurnUndead from a
   member it holds Down with nothing: no TurnUndead ping-pong (fix 6de718b) *)
Theorem C18_no_turnundead_ping_pong (rnd : oracle) (h : header Id) ul tail (s s1 : @rs Id Addr HO) :
  h_msg h = TurnUndead ->
  apply_update rnd (mkMember (h_src h) (h_src_inc h) Alive) true s = (s1, ROk false) ->
  conn (st s1) = Undead -> renew (identity (st s1)) = None ->
  exists s', after_parse rnd h ul tail s = (s', ROk tt)
             /\ out s' = out s1 ++ [Notify NDefunct] /\ conn (st s') = Undead.
Proof. exact (defunct_does_not_answer_turnundead rnd h ul tail s s1). Qed.

(* a datagram from an inactive sender triggers at most one datagram: the TurnUndead courtesy *)
Theorem C18_inactive_sender_one_reply (rnd : oracle) (h : header Id) ul tail (s s1 : @rs Id Addr HO) :
  apply_update rnd (mkMember (h_src h) (h_src_inc h) Alive) true s = (s1, ROk false) ->
  h_msg h <> TurnUndead ->
  after_parse rnd h ul tail s =
  (when (notify_down_members (cfg (st s1))) (send_message rnd (h_src h) TurnUndead)) s1.
Proof. exact (inactive_sender_discards rnd h ul tail s s1). Qed.

(* every delivered datagram causes at most a bounded number of new datagrams: with fan-out
   F = num_indirect_probes and k member updates in the datagram, at most (k + 1) * F + 1
   (one reply or TurnUndead courtesy; one gossip burst per update about the receiver, one more
   for a TurnUndead-triggered rejoin) *)
Theorem C18_delivery_fanout_bound (rnd : oracle) (F : N) (f : @foca Id Addr HO) (data : bytes) :
  num_indirect_probes (cfg f) = F ->
  nsends (snd (fst (fst (step rnd f (IData data))))) <= (updates_in data + 1) * F + 1.
Proof. exact (step_data_fanout rnd F f data). Qed.

Theorem C18_fanout_terms (es : list (effect Id)) (data : bytes) :
  nsends es = len (filter is_send es)
  /\ updates_in data =
     match dec_hdr data with
     | Some (h, rest) =>
         if (2 <=? len rest) && negb (message_eqb id_eqb (h_msg h) Broadcast) then
           match get_u16 rest with
           | Some (n, r) => match dec_members (N.to_nat n) r with Some (ul, _) => len ul | None => 0 end
           | None => 0
           end
         else 0
     | None => 0
     end.
Proof. split; reflexivity. Qed.

(* THE SHARP BOUND: with F = num_indirect_probes and a0 the receiver's own address, one delivered datagram
   causes at most F * (k_own + [it is a TurnUndead]) + 1 new datagrams, k_own the number of member
   updates it carries about the receiver's own address; so a datagram that says nothing about the
   receiver's address and is not a TurnUndead is answered by at most ONE datagram *)
Theorem C18_delivery_fanout_sharp (rnd : oracle) (F : N) (a0 : Addr) (f : @foca Id Addr HO) (data : bytes) :
  num_indirect_probes (cfg f) = F -> addr_of (identity f) = a0 ->
  L_FanOutSharp.nsends (snd (fst (fst (step rnd f (IData data))))) <= F * own_updates_in a0 data + 1.
Proof. exact (step_data_fanout_sharp rnd F a0 f data). Qed.

Theorem C18_plain_datagram_one_reply (rnd : oracle) (F : N) (a0 : Addr) (f : @foca Id Addr HO) (data : bytes) :
  num_indirect_probes (cfg f) = F -> addr_of (identity f) = a0 -> own_updates_in a0 data = 0 ->
  L_FanOutSharp.nsends (snd (fst (fst (step rnd f (IData data))))) <= 1.
Proof. exact (step_data_one_reply rnd F a0 f data). Qed.

Theorem C18_sharp_terms (a0 : Addr) (es : list (effect Id)) (data : bytes) (l : list (member Id)) (msg : message Id) :
  L_FanOutSharp.nsends es = len (filter is_send es)
  /\ kown a0 l = len (filter (fun u => addr_eqb (addr_of (m_id u)) a0) l)
  /\ tu msg = (if message_eqb id_eqb msg TurnUndead then 1 else 0)
  /\ own_updates_in a0 data =
     match dec_hdr data with
     | Some (h, rest) =>
         (if (2 <=? len rest) && negb (message_eqb id_eqb (h_msg h) Broadcast) then
            match get_u16 rest with
            | Some (n, r) => match dec_members (N.to_nat n) r with Some (ul, _) => kown a0 ul | None => 0 end
            | None => 0
            end
          else 0) + tu (h_msg h)
     | None => 0
     end.
Proof. repeat split. Qed.

End C18.

Print Assumptions C18_terminal_kinds.
Print Assumptions C18_reply_rank_decreases.
Print Assumptions C18_no_turnundead_ping_pong.
Print Assumptions C18_inactive_sender_one_reply.
Print Assumptions C18_delivery_fanout_bound.
Print Assumptions C18_fanout_terms.
Print Assumptions C18_delivery_fanout_sharp.
Print Assumptions C18_plain_datagram_one_reply.
Print Assumptions C18_sharp_terms.
