(* Props_C14.v — C14: round-robin probing: every active member is probed within 2n-1 rounds. *)
From Foca Require Import Laws MembersM L_Members L_MembersInv L_RoundRobin Concrete.

Section C14.
Context {Id Addr : Type} {IO : IdOps Id Addr}.

(* each round picks an active record of the (permuted) list: never a Down one *)
Theorem C14_active_only (rnd : oracle) (ms : @members Id) (n : N) (m : member Id) :
  snd (fst (members_next rnd ms n)) = Some m ->
  In m (inner (fst (fst (members_next rnd ms n)))) /\ m_active m = true.
Proof. exact (next_active_only rnd ms n m). Qed.

(* stable membership, n >= 1 active records, any number / position of Down records, any
   starting cursor (any N, including the usize::MAX sentinel), any oracle (all shuffles):
   every window of 2n-1 consecutive rounds, wherever it starts (after j earlier rounds),
   yields every active member at least once *)
Theorem C14_window (rnd : oracle) (ms : @members Id) (n : N) (x : member Id) (j : nat) :
  len (inner ms) <= usize_max ->
  In x (inner ms) -> m_active x = true ->
  In x (iter_next rnd (2 * na (inner ms) - 1)
                  (fst (state_after rnd j ms n)) (snd (state_after rnd j ms n))).
Proof. exact (next_sliding_window rnd ms n x j). Qed.

End C14.

(* the bound is tight: a layout and shuffle where a member is missing from a window of 2n-2 *)
Definition c14_a := mkMember (mkCid 1 0 0 0) 0 Alive.
Definition c14_b := mkMember (mkCid 2 0 0 0) 0 Alive.
Definition c14_c := mkMember (mkCid 3 0 0 0) 0 Alive.
Definition c14_d := mkMember (mkCid 4 0 0 0) 0 Down.
(* list [d(down); a; b; c], cursor 0: rounds yield a b c, then the shuffle puts a last: b c a *)
Definition c14_ms := mkMembers [c14_d; c14_a; c14_b; c14_c] 0 3.
Definition c14_rnd : oracle := fun _ _ => [2; 3; 1; 0].
Definition c14_has_a (l : list (member cid)) : bool := existsb (fun m => cid_eqb (m_id m) (m_id c14_a)) l.

Example C14_tight :
  (* n = 3; after the round that probed a: the next 2n-2 = 4 rounds do not probe a ... *)
  c14_has_a (iter_next c14_rnd 4 (fst (state_after c14_rnd 1 c14_ms 0)) (snd (state_after c14_rnd 1 c14_ms 0))) = false
  (* ... the next 2n-1 = 5 do *)
  /\ c14_has_a (iter_next c14_rnd 5 (fst (state_after c14_rnd 1 c14_ms 0)) (snd (state_after c14_rnd 1 c14_ms 0))) = true.
Proof. vm_compute. split; reflexivity. Qed.

Print Assumptions C14_active_only.
Print Assumptions C14_window.
Print Assumptions C14_tight.
