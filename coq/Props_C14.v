(* Props_C14.v — C14: round-robin probing: every active member is probed within 2n-1 rounds. *)
From Foca Require Import Laws MembersM ProbeM FocaM L_Members L_MembersInv L_RoundRobin L_RoundSuspect L_RoundPing L_RotationFrame L_SendFrame BcastM Concrete.

Section C14.
Context {Id Addr : Type} {IO : IdOps Id Addr}.

(* each round picks an active record of the (permuted) list: never a Down one *)
Theorem C14_active_only (rnd : oracle) (ms : @members Id) (n : N) (m : member Id) :
  snd (fst (members_next rnd ms n)) = Some m ->
  In m (inner (fst (fst (members_next rnd ms n)))) /\ m_active m = true.
Proof. exact (next_active_only rnd ms n m). Qed.

(* stable membership, n >= 1 active records, any number / position of Down records, any
   starting cursor (any N, including the usize::MAX sentinel), any oracle (all shuffles):
   every window of 2n-1 consecutive rounds, wherever it starts (after j earlier rounds),
   yields every active member at least once *)
Theorem C14_window (rnd : oracle) (ms : @members Id) (n : N) (x : member Id) (j : nat) :
  len (inner ms) <= usize_max ->
  In x (inner ms) -> m_active x = true ->
  In x (iter_next rnd (2 * na (inner ms) - 1)
                  (fst (state_after rnd j ms n)) (snd (state_after rnd j ms n))).
Proof. exact (next_sliding_window rnd ms n x j). Qed.

End C14.

Section C14call.
Context {Id Addr : Type} {IO : IdOps Id Addr} {CO : CodecOps Id} {HO : HandlerOps Id} {IL : IdLaws IO}.

(* THE ROUND AS ONE CALL.  A live ProbeRandomMember timer - whatever the state the previous round was left
   in: complete, or incomplete (the recovery path that reports IncompleteProbeCycle) - sends exactly one
   datagram, a Ping, to the member Members::next yields on the list left by the suspicion part of the
   round (round_members: the failed target, if any, marked Suspect), and nothing if next yields none;
   calls aborted by an Encode error or a panic excepted.  With C14_active_only the pinged member is an
   active record of that list - never a Down one; with C14_window the rotation covers every active
   member in 2n-1 rounds. *)
Theorem C14_round_terms (es : list (effect Id)) (e : effect Id) (c : option (member Id)) (f : @foca Id Addr HO) :
  dsts (@nil (effect Id)) = []
  /\ dsts (e :: es) = (match e with Send d _ => d :: dsts es | _ => dsts es end)
  /\ expect c = (match c with Some m => [m_id m] | None => [] end)
  /\ (is_ping_to e <-> match e with
                       | Send d b => exists id inc n rest, b = enc_hdr (mkHeader id inc d (Ping n)) ++ rest
                       | _ => True
                       end)
  /\ round_members f =
      (let prb1 := if negb (probe_validate (prb f)) then probe_clear (prb f) else prb f in
       match snd (probe_take_failed prb1) with
       | Some fm =>
           match apply_existing_if (mems f) (mkMember (m_id fm) (m_inc fm) Suspect) (fun _ => true) with
           | Some (ms, _) => ms
           | None => mems f
           end
       | None => mems f
       end).
Proof. repeat split; try reflexivity; auto. destruct e; reflexivity. Qed.

Theorem C14_round_pings_next (rnd : oracle) (f : @foca Id Addr HO) :
  conn f = Connected ->
  let '(f', es, r, _) := step rnd f (ITimer (TProbeRandomMember (token f))) in
  match r with
  | Failed EEncode => True
  | Panicked _ => True
  | _ => dsts es = expect (snd (fst (members_next rnd (round_members f) 0))) /\ Forall is_ping_to es
  end.
Proof. exact (step_round_pings_next rnd f). Qed.

(* ROTATION FRAME: nothing that merely sends touches the rotation - the member list (order and cursor
   included) is exactly the same after gossip(), announce(), broadcast(), add_broadcast(), set_config(),
   a periodic timer or the indirect-stage timer *)
Theorem C14_sending_keeps_rotation (rnd : oracle) (f : @foca Id Addr HO) (i : @input Id) :
  match i with
  | IGossip | IAnnounce _ | IBroadcast | IAddBroadcast _ | ISetConfig _ => True
  | ITimer (TSendIndirectProbe _ _) | ITimer (TPeriodicAnnounce _) | ITimer (TPeriodicAnnounceDown _) | ITimer (TPeriodicGossip _) => True
  | _ => False
  end ->
  mems (fst (fst (fst (step rnd f i)))) = mems f.
Proof. exact (sending_keeps_rotation rnd f i). Qed.

(* stronger, for what merely sends: after gossip(), announce(), broadcast() or a periodic timer the state is the
   state before with (possibly) other backlogs - member list, cursor, probe bookkeeping, identity, incarnation,
   configuration, connection state, epoch, handler state and send buffer are exactly the same *)
Theorem C14_pure_sends_change_only_backlogs (rnd : oracle) (f : @foca Id Addr HO) (i : @input Id) :
  match i with
  | IGossip | IAnnounce _ | IBroadcast => True
  | ITimer (TPeriodicAnnounce _) | ITimer (TPeriodicAnnounceDown _) | ITimer (TPeriodicGossip _) => True
  | _ => False
  end ->
  exists u c, fst (fst (fst (step rnd f i))) = set_customs (set_updates f u) c.
Proof. exact (sending_changes_only_backlogs rnd f i). Qed.

End C14call.

(* the bound is tight: a layout and shuffle where a member is missing from a window of 2n-2 *)
Definition c14_a := mkMember (mkCid 1 0 0 0) 0 Alive.
Definition c14_b := mkMember (mkCid 2 0 0 0) 0 Alive.
Definition c14_c := mkMember (mkCid 3 0 0 0) 0 Alive.
Definition c14_d := mkMember (mkCid 4 0 0 0) 0 Down.
(* list [d(down); a; b; c], cursor 0: rounds yield a b c, then the shuffle puts a last: b c a *)
Definition c14_ms := mkMembers [c14_d; c14_a; c14_b; c14_c] 0 3.
Definition c14_rnd : oracle := fun _ _ => [2; 3; 1; 0].
Definition c14_has_a (l : list (member cid)) : bool := existsb (fun m => cid_eqb (m_id m) (m_id c14_a)) l.

Example C14_tight :
  (* n = 3; after the round that probed a: the next 2n-2 = 4 rounds do not probe a ... *)
  c14_has_a (iter_next c14_rnd 4 (fst (state_after c14_rnd 1 c14_ms 0)) (snd (state_after c14_rnd 1 c14_ms 0))) = false
  (* ... the next 2n-1 = 5 do *)
  /\ c14_has_a (iter_next c14_rnd 5 (fst (state_after c14_rnd 1 c14_ms 0)) (snd (state_after c14_rnd 1 c14_ms 0))) = true.
Proof. vm_compute. split; reflexivity. Qed.

Print Assumptions C14_active_only.
Print Assumptions C14_window.
Print Assumptions C14_tight.
(* non-vacuity: a connected instance with two members; its live round pings exactly one of them, the
   member Members::next yields *)
Definition ex14_cfg : config := mkConfig 1500000000 500000000 3 10 3000000000 86400000000000 1400 false None None None.
Definition ex14_o : oracle := fun _ r => match r with RShuffle _ => [0; 1; 2; 3] | RChoose _ => [0] | RRange _ => [0] | RTie _ _ => [] end.
Definition ex14_f0 : @foca cid N cid_handler := foca_init (mkCid 1 0 0 0) ex14_cfg (mkChst 0 255 []).
Definition ex14_f : @foca cid N cid_handler :=
  fst (fst (fst (step ex14_o ex14_f0 (IApplyMany [mkMember (mkCid 2 0 0 0) 0 Alive; mkMember (mkCid 3 0 0 0) 0 Alive] false)))).
Example C14_round_example :
  conn ex14_f = Connected
  /\ dsts (snd (fst (fst (step ex14_o ex14_f (ITimer (TProbeRandomMember (token ex14_f))))))) =
     expect (snd (fst (members_next ex14_o (round_members ex14_f) 0)))
  /\ length (dsts (snd (fst (fst (step ex14_o ex14_f (ITimer (TProbeRandomMember (token ex14_f)))))))) = 1%nat
  /\ snd (fst (step ex14_o ex14_f (ITimer (TProbeRandomMember (token ex14_f))))) = Done.
Proof. vm_compute. auto. Qed.

Print Assumptions C14_round_terms.
Print Assumptions C14_round_pings_next.
Print Assumptions C14_round_example.
Print Assumptions C14_sending_keeps_rotation.
Print Assumptions C14_pure_sends_change_only_backlogs.
