#!/bin/sh
# builds the Coq development and the extracted model driver
set -e
cd "$(dirname "$0")"
coq_makefile -f _CoqProject -o Makefile.coq >/dev/null
timeout 3000 make -f Makefile.coq -j16 "$@"
cd extracted
if [ ! -x model_driver ] || [ ../Ser.vo -nt model_driver ] || [ ../SerdeM.vo -nt model_driver ] || [ Extract.v -nt model_driver ] || [ driver.ml -nt model_driver ]; then
  timeout 600 coqc -Q .. Foca Extract.v
  timeout 600 ocamlfind ocamlopt -package str model.mli model.ml driver.ml -o model_driver
fi
