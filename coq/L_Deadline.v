(* L_Deadline.v — C13, the clock: a probe round that is open (target set, indirect stage not yet
   reached) always has its SendIndirectProbe timer pending with the current token and a deadline
   that sorts before the pending ProbeRandomMember; so a runtime that delivers timers in deadline
   order (ties broken by Timer's Ord, however late) never sees IncompleteProbeCycle. *)
From Foca Require Import Laws L_Lists MembersM ProbeM BcastM FocaM Hoare Inv L_Mech L_Mirror L_ConnCons L_Acct.

Section Deadline.
Context {Id Addr : Type} {IO : IdOps Id Addr} {CO : CodecOps Id} {HO : HandlerOps Id} {IL : IdLaws IO}.
Variable rnd : oracle.
Notation member := (member Id).
Notation foca := (@foca Id Addr HO).
Notation rs := (@rs Id Addr HO).
Notation M := (@M Id Addr HO).
Notation effect := (effect Id).
Notation "x <- m ;; f" := (bind m (fun x => f)) (at level 61, m at next level, right associativity).
Notation "m ;;; f" := (bind m (fun _ => f)) (at level 61, right associativity).

Definition no_prm (e : effect) : Prop :=
  match e with Submit (TProbeRandomMember _) _ => False | _ => True end.

(* an instance that is not Connected has no open probe round *)
Definition PA (f : foca) : Prop := conn f <> Connected -> probe_validate (prb f) = true.

Definition pqP {X} (m : M X) (s : rs) : Prop :=
  PA (st s) ->
  PA (st (fst (m s)))
  /\ exists new, out (fst (m s)) = out s ++ new
     /\ (probe_validate (prb (st (fst (m s)))) = true
         \/ (token (st (fst (m s))) = token (st s) /\ conn (st (fst (m s))) = conn (st s)
             /\ probe_validate (prb (st s)) = false /\ Forall no_prm new)).
Definition pq {X} (m : M X) : Prop := forall s, pqP m s.

Lemma pqP_bind {X Y} (m : M X) (k : X -> M Y) (s : rs) : pqP m s -> (forall a, pq (k a)) -> pqP (bind m k) s.
Proof.
  intros Hm Hk HA. destruct (Hm HA) as (A1 & n1 & O1 & D1). unfold bind.
  destruct (m s) as [s1 [a|e|p]]; cbn [fst] in *; try (split; [exact A1|exists n1; split; [exact O1|exact D1]]).
  destruct (Hk a s1 A1) as (A2 & n2 & O2 & D2). split; [exact A2|].
  exists (n1 ++ n2). split; [rewrite O2, O1, app_assoc; reflexivity|].
  destruct D2 as [V2|(T2 & C2 & V1 & F2)]; [left; exact V2|].
  destruct D1 as [V1'|(T1 & C1 & V0 & F1)]; [rewrite V1' in V1; discriminate|].
  right. repeat split; [congruence|congruence|exact V0|apply Forall_app; split; assumption].
Qed.
Lemma pq_bind {X Y} (m : M X) (k : X -> M Y) : pq m -> (forall a, pq (k a)) -> pq (bind m k).
Proof. intros Hm Hk s. apply pqP_bind; [apply Hm|exact Hk]. Qed.

Lemma pqP_same {X} (m : M X) (s : rs) : st (fst (m s)) = st s -> out (fst (m s)) = out s -> pqP m s.
Proof.
  intros Es Eo HA. rewrite Es, Eo. split; [exact HA|]. exists []. split; [symmetry; apply app_nil_r|].
  destruct (probe_validate (prb (st s))) eqn:V; [left; reflexivity|right; repeat split; constructor].
Qed.
Lemma pq_const {X} (r : res X) : pq (fun s => (s, r)). Proof. intros s. apply pqP_same; reflexivity. Qed.
Lemma pq_ret {X} (x : X) : pq (@ret Id Addr HO X x). Proof. apply pq_const. Qed.
Lemma pq_fail {X} e : pq (@fail Id Addr HO X e). Proof. apply pq_const. Qed.
Lemma pq_panic {X} p : pq (@panic Id Addr HO X p). Proof. apply pq_const. Qed.
Lemma pq_get : pq (@get Id Addr HO). Proof. intros s. apply pqP_same; reflexivity. Qed.
Lemma pq_num_sends : pq (@num_sends Id Addr HO). Proof. intros s. apply pqP_same; reflexivity. Qed.
Lemma pq_ask r : pq (ask rnd r). Proof. intros s. apply pqP_same; reflexivity. Qed.
Lemma pq_with_ctr {X} (g : N -> X * N) : pq (with_ctr g).
Proof. intros s. unfold with_ctr. destruct (g (ctr s)) as [a k] eqn:G. apply pqP_same; cbn; rewrite G; reflexivity. Qed.
Lemma pq_emit e : no_prm e -> pq (@emit Id Addr HO e).
Proof.
  intros H s HA. cbn. split; [exact HA|]. exists [e]. split; [reflexivity|].
  destruct (probe_validate (prb (st s))) eqn:V; [left; reflexivity|right; repeat split; constructor; [exact H|constructor]].
Qed.
Lemma pqP_modify g (s : rs) :
  conn (g (st s)) = conn (st s) -> token (g (st s)) = token (st s) ->
  probe_validate (prb (g (st s))) = probe_validate (prb (st s)) ->
  pqP (@modify Id Addr HO g) s.
Proof.
  intros C T V HA. cbn. split.
  - intros NC. rewrite V. apply HA. rewrite <- C. exact NC.
  - exists []. split; [symmetry; apply app_nil_r|]. rewrite V.
    destruct (probe_validate (prb (st s))); [left; reflexivity|right; repeat split; auto].
Qed.
Lemma pq_modify g :
  (forall f, conn (g f) = conn f /\ token (g f) = token f /\ probe_validate (prb (g f)) = probe_validate (prb f)) ->
  pq (@modify Id Addr HO g).
Proof. intros H s. destruct (H (st s)) as (C & T & V). apply pqP_modify; assumption. Qed.
(* a modification that leaves no round open *)
Lemma pq_modify_valid g : (forall f, probe_validate (prb (g f)) = true) -> pq (@modify Id Addr HO g).
Proof.
  intros H s HA. cbn. split; [intros _; apply H|]. exists []. split; [symmetry; apply app_nil_r|left; apply H].
Qed.
Lemma pq_when b (m : M unit) : pq m -> pq (when b m).
Proof. destruct b; cbn; auto. intros _. apply pq_ret. Qed.
Lemma pq_forM {X} (l : list X) (k : X -> M unit) : (forall x, pq (k x)) -> pq (forM_ l k).
Proof. intros H. induction l as [|x t IH]; cbn [forM_]; [apply pq_ret|]. apply pq_bind; auto. Qed.
Lemma pq_attempt (m : M unit) : pq m -> pq (attempt m).
Proof. intros H s. specialize (H s). unfold pqP in *. unfold attempt. destruct (m s) as [s1 [x|e|p]]; auto. Qed.
Lemma pq_get_bind {X} (k : foca -> M X) : (forall s, pqP (k (st s)) s) -> pq (f <- get ;; k f).
Proof. intros H s. unfold pqP, bind, get. apply H. Qed.

Lemma validate_receive_ack (p : probe Id) src n : probe_validate (fst (probe_receive_ack p src n)) = probe_validate p.
Proof. unfold probe_receive_ack. destruct (_ && _); reflexivity. Qed.
Lemma validate_receive_indirect_ack (p : probe Id) src n :
  probe_validate (fst (probe_receive_indirect_ack p src n)) = probe_validate p.
Proof.
  unfold probe_receive_indirect_ack. destruct (negb _); [reflexivity|].
  destruct (find_index _ _); reflexivity.
Qed.

Lemma pq_reset : pq (@reset Id Addr HO).
Proof. apply pq_modify_valid. intros f. reflexivity. Qed.
Lemma pq_become_disconnected : pq (@become_disconnected Id Addr HO).
Proof.
  unfold become_disconnected. apply pq_bind; [apply pq_get|]. intros f.
  destruct (negb _); [apply pq_panic|].
  apply pq_bind; [apply pq_modify_valid; intros ?; reflexivity|]. intros _. apply pq_emit. exact I.
Qed.
Lemma pq_become_undead : pq (@become_undead Id Addr HO).
Proof.
  unfold become_undead. apply pq_bind; [apply pq_modify_valid; intros ?; reflexivity|]. intros _. apply pq_emit. exact I.
Qed.

(* becoming Connected happens only from a state with no open round *)
Lemma become_connected_shape (s : rs) :
  prb (st (fst (@become_connected Id Addr HO s))) = prb (st s)
  /\ exists new, out (fst (@become_connected Id Addr HO s)) = out s ++ new.
Proof.
  unfold become_connected, bind, get, modify, emit, submit_periodic, ret, panic. cbv beta iota.
  destruct (num_active (mems (st s)) =? 0); [cbn; split; auto; exists []; symmetry; apply app_nil_r|].
  destruct (periodic_announce (cfg (st s))) as [[? ?]|], (periodic_announce_down (cfg (st s))) as [[? ?]|],
           (periodic_gossip (cfg (st s))) as [[? ?]|]; cbn; split; auto; eexists; rewrite <- ?app_assoc; reflexivity.
Qed.

Lemma pq_adjust : pq (@adjust_connection_state Id Addr HO).
Proof.
  unfold adjust_connection_state. apply pq_get_bind. intros s.
  destruct (conn (st s)) eqn:Cn.
  - destruct (0 <? num_active (mems (st s))); cbn [when]; [|apply pq_ret].
    intros HA. assert (V : probe_validate (prb (st s)) = true) by (apply HA; rewrite Cn; discriminate).
    destruct (become_connected_shape s) as (Ep & new & En). split.
    + intros _. rewrite Ep. exact V.
    + exists new. split; [exact En|left; rewrite Ep; exact V].
  - apply pq_when, pq_become_disconnected.
  - apply pq_ret.
Qed.


Ltac pq_step :=
  first
    [ apply pq_ret | apply pq_fail | apply pq_panic | apply pq_get | apply pq_num_sends
    | apply pq_emit; exact I | apply pq_ask | apply pq_with_ctr
    | apply pq_modify; intros ?; repeat split; reflexivity
    | apply pq_modify; intros ?; repeat split; first [reflexivity|apply validate_receive_ack|apply validate_receive_indirect_ack]
    | apply pq_reset | apply pq_become_disconnected | apply pq_become_undead | apply pq_adjust
    | apply pq_when | apply pq_attempt
    | apply pq_forM; intros ?; cbv beta
    | apply pq_bind; [|intros ?]
    | progress cbv zeta
    | progress unfold send_message, send_body, send_customs, estimate_feed_capacity, choose_active, choose_and_send,
        gossip, announce_to_down, add_update, add_custom, handle_apply_summary, apply_update,
        handle_custom_broadcasts, change_identity, attempt_rejoin, handle_self_update,
        apply_one, apply_many, leave_cluster, broadcast, react, reuse_down_identity, add_broadcast, periodic_guard
    | match goal with
      | |- pq (match ?x with _ => _ end) => destruct x
      | |- pq (if ?c then _ else _) => destruct c
      | |- pq (let '(_, _) := ?x in _) => destruct x
      end ].
Ltac pq_auto := repeat pq_step.

Lemma pq_feed_loop l : forall room count acc0, pq (@feed_loop Id Addr CO HO l room count acc0).
Proof. induction l as [|m t IH]; intros room count acc0; cbn [feed_loop]; pq_auto. apply IH. Qed.
Lemma pq_custom_loop sender fuel : forall data, pq (@custom_loop Id Addr HO fuel data sender).
Proof. induction fuel as [|fuel IH]; intros data; cbn [custom_loop]; pq_auto. apply IH. Qed.
Lemma pq_broadcast_loop l : pq (broadcast_loop rnd l).
Proof. induction l as [|m t IH]; cbn [broadcast_loop]; pq_auto; first [apply pq_feed_loop|apply IH]. Qed.

Lemma pq_send_message dst msg : pq (send_message rnd dst msg).
Proof. pq_auto; apply pq_feed_loop. Qed.

Lemma pq_indirect_loop probed l : pq (indirect_loop rnd probed l).
Proof.
  unfold indirect_loop. apply pq_forM. intros m. apply pq_get_bind. intros s.
  destruct (probe_expect_indirect_ack (prb (st s)) (m_id m)) as [p'|] eqn:E; [|apply pq_panic].
  assert (V : probe_validate p' = probe_validate (prb (st s))).
  { unfold probe_expect_indirect_ack in E. destruct (p_direct (prb (st s))) as [d|] eqn:D; [|discriminate].
    destruct (id_eqb (m_id d) (m_id m)); [discriminate|]. inversion E; subst p'. unfold probe_validate. cbn. rewrite D. reflexivity. }
  apply pqP_bind; [apply pqP_modify; [reflexivity|reflexivity|exact V]|]. intros _. apply pq_send_message.
Qed.

Lemma pq_handle_data data : pq (handle_data rnd data).
Proof. unfold handle_data. pq_auto; first [apply pq_feed_loop|apply pq_custom_loop]. Qed.
Lemma pq_apply_many l b : pq (apply_many rnd l b).
Proof. pq_auto; apply pq_feed_loop. Qed.
Lemma pq_gossip : pq (gossip rnd).
Proof. pq_auto; apply pq_feed_loop. Qed.
Lemma pq_broadcast : pq (broadcast rnd).
Proof. pq_auto; first [apply pq_broadcast_loop|apply pq_feed_loop]. Qed.
Lemma pq_leave : pq (leave_cluster rnd).
Proof. pq_auto; apply pq_feed_loop. Qed.
Lemma pq_change_identity i : pq (change_identity rnd i).
Proof. pq_auto; apply pq_feed_loop. Qed.
Lemma pq_reuse : pq (@reuse_down_identity Id Addr HO).
Proof. pq_auto. Qed.
Lemma pq_set_config c : pq (@set_config Id Addr HO c).
Proof. unfold set_config. pq_auto. Qed.
Lemma pq_add_broadcast b : pq (@add_broadcast Id Addr HO b).
Proof. pq_auto. Qed.

Lemma validate_mark (p : probe Id) : probe_validate (probe_mark_reached p) = true.
Proof. unfold probe_validate, probe_mark_reached. cbn. destruct (p_direct p); reflexivity. Qed.

Lemma pq_handle_timer_nonprm t : (forall k, t <> TProbeRandomMember k) -> pq (handle_timer rnd t).
Proof.
  intros NP. unfold handle_timer. apply pq_bind; [apply pq_get|]. intros f.
  destruct t as [tok|probed tok|mid inc tok|tok|tok|tok|down].
  - exfalso. exact (NP tok eq_refl).
  - destruct (negb (tok =? token f)); [apply pq_ret|].
    apply pq_bind; [apply pq_modify_valid; intros ?; apply validate_mark|]. intros _.
    destruct (negb (probe_is_probing _ _)); [apply pq_ret|].
    destruct (probe_succeeded _); [apply pq_ret|].
    destruct (negb (is_active_id _ _)); [apply pq_ret|].
    apply pq_bind; [pq_auto|intros chosen; apply pq_indirect_loop].
  - pq_auto; apply pq_feed_loop.
  - pq_auto; apply pq_feed_loop.
  - pq_auto; apply pq_feed_loop.
  - pq_auto; apply pq_feed_loop.
  - pq_auto.
Qed.

Lemma pqP_handle_timer_prm k (s : rs) :
  ~ (k = token (st s) /\ conn (st s) = Connected) -> pqP (handle_timer rnd (TProbeRandomMember k)) s.
Proof.
  intros NL. unfold handle_timer, pqP, bind, get. cbv beta iota.
  destruct (k =? token (st s)) eqn:T; [|apply (pq_ret tt s)].
  destruct (conn_eqb (conn (st s)) Connected) eqn:CE; cbn [negb]; [|apply (pq_fail ENotConnected s)].
  exfalso. apply NL. split; [apply N.eqb_eq; exact T|destruct (conn (st s)); try discriminate; reflexivity].
Qed.

(* ---------- the live ProbeRandomMember timer ---------- *)
Definition prm_after (p : N) (e : effect) : Prop :=
  match e with Submit (TProbeRandomMember _) a => a = p | _ => True end.
Lemma neutral_prm_after p e : neutral e -> prm_after p e.
Proof. destruct e as [? ?|t a|n]; cbn; auto. destruct t; cbn; auto. discriminate. Qed.

Definition G (s s' : rs) : Prop :=
  conn (st s') = Connected /\ token (st s') = token (st s) /\ cfg (st s') = cfg (st s)
  /\ exists new, out s' = out s ++ new
       /\ Forall (prm_after (probe_period (cfg (st s)))) new
       /\ (probe_validate (prb (st s')) = false ->
           exists tgt, In (Submit (TSendIndirectProbe tgt (token (st s))) (probe_rtt (cfg (st s)))) new).

Definition tq (inc : bool) (m : M unit) : Prop :=
  forall s, conn (st s) = Connected -> probe_validate (prb (st s)) = true ->
    match m s with
    | (_, RErr EEncode) => True
    | (_, RPanic _) => True
    | (s', r) => G s s' /\ (r = RErr EIncompleteProbeCycle -> inc = true)
    end.

Lemma pq_valid {X} (m : M X) (s : rs) :
  pq m -> conn (st s) = Connected -> probe_validate (prb (st s)) = true ->
  probe_validate (prb (st (fst (m s)))) = true.
Proof.
  intros H Cn V. destruct (H s) as (_ & new & _ & [V'|(_ & _ & V0 & _)]).
  - intros NC. contradiction.
  - exact V'.
  - rewrite V in V0. discriminate.
Qed.

Lemma tq_pre {X} inc (m : M X) (k : X -> M unit) :
  still m -> oee m -> pq m -> (forall a, tq inc (k a)) -> tq inc (bind m k).
Proof.
  intros Sm Om Pm Hk s Cn V.
  destruct (Sm s) as (C1 & T1 & F1 & n1 & O1 & N1). pose proof (Om s) as E1. pose proof (pq_valid m s Pm Cn V) as V1.
  unfold bind. destruct (m s) as [s1 [a|e|p]]; cbn [fst] in *; [|subst e; exact I|exact I].
  assert (Cn1 : conn (st s1) = Connected) by congruence.
  specialize (Hk a s1 Cn1 V1). destruct (k a s1) as [s2 [u|e|p]]; auto.
  - destruct Hk as [(C2 & T2 & F2 & n2 & O2 & P2 & S2) HI]. split; [|exact HI].
    repeat split; [exact C2|congruence|congruence|].
    exists (n1 ++ n2). split; [rewrite O2, O1, app_assoc; reflexivity|]. rewrite <- F1, <- T1. split.
    + apply Forall_app. split; [|exact P2]. eapply Forall_impl; [|exact N1]. intros e. apply neutral_prm_after.
    + intros V2. destruct (S2 V2) as [tgt I2]. exists tgt. apply in_or_app. right. exact I2.
  - destruct e; auto; destruct Hk as [(C2 & T2 & F2 & n2 & O2 & P2 & S2) HI]; (split; [|exact HI]);
      (repeat split; [exact C2|congruence|congruence|]);
      (exists (n1 ++ n2); split; [rewrite O2, O1, app_assoc; reflexivity|]; rewrite <- F1, <- T1; split;
       [apply Forall_app; split; [|exact P2]; eapply Forall_impl; [|exact N1]; intros e0; apply neutral_prm_after
       |intros V2; destruct (S2 V2) as [tgt I2]; exists tgt; apply in_or_app; right; exact I2]).
Qed.

Lemma tq_tail inc (chosen : option member) :
  tq inc
    (match chosen with
     | Some m =>
         f <- get ;;
         let '(p', n) := probe_start (prb f) m in
         modify (fun f => set_prb f p') ;;;
         send_message rnd (m_id m) (Ping n) ;;;
         f <- get ;;
         emit (Submit (TSendIndirectProbe (m_id m) (token f)) (probe_rtt (cfg f)))
     | None => ret tt
     end ;;;
     f <- get ;;
     emit (Submit (TProbeRandomMember (token f)) (probe_period (cfg f))) ;;;
     (if inc then fail EIncompleteProbeCycle else ret tt)).
Proof.
  intros s Cn V. destruct chosen as [m|].
  - unfold bind at 1. unfold bind at 1, get at 1. cbv beta iota.
    destruct (probe_start (prb (st s)) m) as [p' n].
    unfold bind at 1, modify at 1. cbv beta iota.
    set (s1 := mkRs (set_prb (st s) p') (out s) (ctr s)).
    destruct (still_send_message rnd (m_id m) (Ping n) s1) as (C1 & T1 & F1 & n1 & O1 & N1).
    pose proof (oee_send_message rnd (m_id m) (Ping n) s1) as E1.
    unfold bind at 1. destruct (send_message rnd (m_id m) (Ping n) s1) as [s2 [u|e|p]]; cbn [fst] in *; [|subst e; exact I|exact I].
    cbn [st out s1 conn token cfg set_prb] in C1, T1, F1, O1.
    unfold bind, get, emit, fail, ret. cbv beta iota. cbn [st out ctr].
    assert (GG : G s (mkRs (st s2) ((out s2 ++ [Submit (TSendIndirectProbe (m_id m) (token (st s2))) (probe_rtt (cfg (st s2)))])
                                    ++ [Submit (TProbeRandomMember (token (st s2))) (probe_period (cfg (st s2)))]) (ctr s2))).
    { unfold G. cbn [st out]. repeat split; [congruence|exact T1|exact F1|].
      exists (n1 ++ [Submit (TSendIndirectProbe (m_id m) (token (st s))) (probe_rtt (cfg (st s)))]
                 ++ [Submit (TProbeRandomMember (token (st s))) (probe_period (cfg (st s)))]).
      split; [rewrite O1, T1, F1, <- !app_assoc; reflexivity|]. split.
      - apply Forall_app. split; [eapply Forall_impl; [|exact N1]; intros e; apply neutral_prm_after|].
        constructor; [exact I|constructor; [reflexivity|constructor]].
      - intros _. exists (m_id m). apply in_or_app. right. left. reflexivity. }
    destruct inc; (split; [exact GG|]); [reflexivity|discriminate].
  - unfold bind, get, emit, fail, ret. cbv beta iota. cbn [st out ctr].
    assert (GG : G s (mkRs (st s) (out s ++ [Submit (TProbeRandomMember (token (st s))) (probe_period (cfg (st s)))]) (ctr s))).
    { unfold G. cbn [st out]. repeat split; [exact Cn|].
      exists [Submit (TProbeRandomMember (token (st s))) (probe_period (cfg (st s)))]. split; [reflexivity|]. split.
      - constructor; [reflexivity|constructor].
      - intros V'. rewrite V in V'. discriminate. }
    destruct inc; (split; [exact GG|]); [reflexivity|discriminate].
Qed.

Ltac smod := apply still_modify; intros ?; repeat split; reflexivity.

Lemma prm_live (s : rs) :
  conn (st s) = Connected ->
  match probe_random_member rnd s with
  | (_, RErr EEncode) => True
  | (_, RPanic _) => True
  | (s', r) => G s s' /\ (r = RErr EIncompleteProbeCycle -> probe_validate (prb (st s)) = false)
  end.
Proof.
  intros Cn. unfold probe_random_member, bind at 1, get at 1. cbv beta iota. rewrite Cn. cbn [conn_eqb negb].
  set (inc := negb (probe_validate (prb (st s)))).
  set (f1 := if inc then set_prb (st s) (probe_clear (prb (st s))) else st s).
  assert (E1 : when inc (modify (fun f0 => set_prb f0 (probe_clear (prb f0)))) s = (mkRs f1 (out s) (ctr s), ROk tt)).
  { subst f1. unfold when, modify, ret. destruct inc; [reflexivity|destruct s; reflexivity]. }
  unfold bind at 1. rewrite E1. cbv beta iota.
  unfold bind at 1, get at 1. cbv beta iota. cbn [st].
  assert (V1 : probe_validate (prb f1) = true).
  { subst f1 inc. destruct (probe_validate (prb (st s))) eqn:V; cbn [negb]; [exact V|reflexivity]. }
  destruct (probe_take_failed (prb f1)) as [p' failed] eqn:TF.
  assert (V2 : probe_validate p' = true).
  { unfold probe_take_failed in TF. destruct (negb (probe_succeeded (prb f1))); inversion TF; subst; [reflexivity|exact V1]. }
  unfold bind at 1, modify at 1. cbv beta iota. cbn [st out ctr].
  set (s2 := mkRs (set_prb f1 p') (out s) (ctr s)).
  assert (F2 : conn (st s2) = Connected /\ token (st s2) = token (st s) /\ cfg (st s2) = cfg (st s)).
  { subst s2 f1. destruct inc; cbn; auto. }
  destruct F2 as (C2 & T2 & G2).
  match goal with |- match ?m s2 with _ => _ end => assert (TQ : tq inc m) end.
  { apply tq_pre.
    - destruct failed as [fm|]; [|apply still_ret]. apply still_get_bind. intros f2.
      destruct (apply_existing_if _ _ _) as [[ms sm]|]; [|apply still_ret].
      apply still_bind; [smod|]. intros _. apply still_bind; [apply still_hsum|]. intros _.
      apply still_get_bind. intros f3. apply still_when, still_emit. reflexivity.
    - destruct failed as [fm|]; [|apply oee_ret]. apply oee_get_bind. intros f2.
      destruct (apply_existing_if _ _ _) as [[ms sm]|]; [|apply oee_ret].
      apply oee_bind; [apply oee_modify|]. intros _. apply oee_bind; [apply oee_hsum|]. intros _.
      apply oee_get_bind. intros f3. apply oee_when, oee_emit.
    - pq_auto.
    - intros _. apply tq_pre; [apply still_get|apply oee_get|apply pq_get|]. intros f2.
      apply tq_pre; [apply still_with_ctr|apply oee_with_ctr|apply pq_with_ctr|]. intros [ms chosen].
      apply tq_pre; [smod|apply oee_modify|pq_auto|]. intros _. apply tq_tail. }
  specialize (TQ s2 C2 V2).
  match goal with |- match ?x with _ => _ end => destruct x as [s' [u|e|p]] end; auto.
  - destruct TQ as [(C3 & T3 & F3 & new & O3 & P3 & S3) HI]. split.
    + unfold G. repeat split; [exact C3|congruence|congruence|]. exists new. rewrite <- G2, <- T2. auto.
    + intros H. specialize (HI H). subst inc. destruct (probe_validate (prb (st s))); [discriminate|reflexivity].
  - destruct e; auto; destruct TQ as [(C3 & T3 & F3 & new & O3 & P3 & S3) HI]; (split;
    [unfold G; repeat split; [exact C3|congruence|congruence|]; exists new; rewrite <- G2, <- T2; auto
    |intros H; specialize (HI H); subst inc; destruct (probe_validate (prb (st s))); [discriminate|reflexivity]]).
Qed.

(* ---------- one call ---------- *)
Lemma pq_valid' {X} (m : M X) (s : rs) :
  pq m -> probe_validate (prb (st s)) = true -> probe_validate (prb (st (fst (m s)))) = true.
Proof.
  intros H V. destruct (H s) as (_ & new & _ & [V'|(_ & _ & V0 & _)]).
  - intros _. exact V.
  - exact V'.
  - rewrite V in V0. discriminate.
Qed.

Definition step_post (f f' : foca) (es : list effect) : Prop :=
  PA f' /\ (probe_validate (prb f') = true
            \/ (token f' = token f /\ conn f' = conn f /\ probe_validate (prb f) = false /\ Forall no_prm es)).

Lemma run_unit_pq (m : M unit) (f : foca) :
  pqP m (mkRs f [] 0) -> PA f -> let '(f', es, _, _) := run_unit m f in step_post f f' es.
Proof.
  intros H HA. unfold run_unit. destruct (H HA) as (A1 & new & O1 & D1).
  destruct (m (mkRs f [] 0)) as [s' r]. cbn [fst st out app] in *. rewrite O1. split; [exact A1|exact D1].
Qed.

(* every call other than the delivery of the live ProbeRandomMember timer *)
Theorem step_probe_open (f : foca) (i : @input Id) :
  match i with ITimer (TProbeRandomMember k) => ~ (k = token f /\ conn f = Connected) | _ => True end ->
  PA f -> let '(f', es, _, _) := step rnd f i in step_post f f' es.
Proof.
  intros NL HA. destruct i; cbn [step].
  - apply run_unit_pq; [apply pq_handle_data|exact HA].
  - apply run_unit_pq; [|exact HA]. destruct t; try (apply pq_handle_timer_nonprm; intros k; discriminate).
    apply pqP_handle_timer_prm. exact NL.
  - apply run_unit_pq; [apply pq_apply_many|exact HA].
  - apply run_unit_pq; [apply pq_send_message|exact HA].
  - apply run_unit_pq; [apply pq_gossip|exact HA].
  - apply run_unit_pq; [apply pq_broadcast|exact HA].
  - apply run_unit_pq; [apply pq_leave|exact HA].
  - apply run_unit_pq; [apply pq_change_identity|exact HA].
  - apply run_unit_pq; [apply pq_reuse|exact HA].
  - apply run_unit_pq; [apply pq_set_config|exact HA].
  - unfold run_bool. destruct (pq_add_broadcast b (mkRs f [] 0) HA) as (A1 & new & O1 & D1).
    destruct (add_broadcast b (mkRs f [] 0)) as [s' r]. cbn [fst st out app] in *. rewrite O1. split; [exact A1|exact D1].
Qed.

(* delivering a SendIndirectProbe timer of the current epoch closes the round *)
Theorem step_indirect_marks (f : foca) (probed : Id) :
  let '(f', _, _, _) := step rnd f (ITimer (TSendIndirectProbe probed (token f))) in
  probe_validate (prb f') = true.
Proof.
  cbn [step]. unfold run_unit, handle_timer, bind at 1, get at 1. cbv beta iota. cbn [st].
  rewrite N.eqb_refl. cbn [negb].
  unfold bind at 1, modify at 1. cbv beta iota. cbn [st out ctr].
  set (s1 := mkRs (set_prb f (probe_mark_reached (prb f))) [] 0).
  match goal with |- context [?m s1] => assert (P : pq m) end.
  { destruct (negb (probe_is_probing _ _)); [apply pq_ret|].
    destruct (probe_succeeded _); [apply pq_ret|].
    destruct (negb (is_active_id _ _)); [apply pq_ret|].
    apply pq_bind; [pq_auto|intros chosen; apply pq_indirect_loop]. }
  pose proof (pq_valid' _ s1 P (validate_mark (prb f))) as V.
  match goal with |- context [?m s1] => destruct (m s1) as [s' r] end. exact V.
Qed.

(* the live ProbeRandomMember timer *)
Theorem step_probe_live (f : foca) :
  conn f = Connected ->
  let '(f', es, r, _) := step rnd f (ITimer (TProbeRandomMember (token f))) in
  match r with
  | Failed EEncode => True
  | Panicked _ => True
  | _ =>
      conn f' = Connected /\ token f' = token f /\ cfg f' = cfg f
      /\ Forall (prm_after (probe_period (cfg f))) es
      /\ (probe_validate (prb f') = false ->
          exists tgt, In (Submit (TSendIndirectProbe tgt (token f)) (probe_rtt (cfg f))) es)
      /\ (r = Failed EIncompleteProbeCycle -> probe_validate (prb f) = false)
  end.
Proof.
  intros Cn. cbn [step]. unfold run_unit, handle_timer, bind at 1, get at 1. cbv beta iota. cbn [st].
  rewrite N.eqb_refl, Cn. cbn [conn_eqb negb].
  pose proof (prm_live (mkRs f [] 0) Cn) as H.
  destruct (probe_random_member rnd (mkRs f [] 0)) as [s' [u|e|p]]; cbn [to_result]; auto.
  - destruct H as [(C & T & F & new & O & P & S) HI]. cbn [st out app] in *. subst.
    repeat split; auto; try discriminate.
  - destruct e; auto; destruct H as [(C & T & F & new & O & P & S) HI]; cbn [st out app] in *; subst;
      repeat split; auto; try discriminate.
Qed.

(* IncompleteProbeCycle can only come from the live ProbeRandomMember timer *)
Theorem incomplete_only_live (f : foca) (t : timer Id) :
  snd (fst (step rnd f (ITimer t))) = Failed EIncompleteProbeCycle ->
  t = TProbeRandomMember (token f) /\ conn f = Connected.
Proof.
  cbn [step]. unfold run_unit, handle_timer, bind at 1, get at 1. cbv beta iota. cbn [st].
  assert (EE : forall (m : M unit), oee m ->
            snd (fst (let '(s, r) := m (mkRs f [] 0) in (st s, out s, to_result (fun _ => Done) r, ctr s))) = Failed EIncompleteProbeCycle -> False).
  { intros m H. specialize (H (mkRs f [] 0)). destruct (m (mkRs f [] 0)) as [s1 [a|e|p]]; cbn; try discriminate.
    subst e. discriminate. }
  destruct t as [tok|probed tok|mid inc tok|tok|tok|tok|down].
  - destruct (tok =? token f) eqn:T; [|intros H; exfalso; revert H; apply EE, oee_ret].
    apply N.eqb_eq in T. subst tok.
    destruct (conn f) eqn:Cn; cbn [conn_eqb negb]; auto; cbn; discriminate.
  - intros H; exfalso; revert H. apply EE. destruct (negb (tok =? token f)); [apply oee_ret|].
    apply oee_bind; [apply oee_modify|]. intros _.
    destruct (negb (probe_is_probing _ _)); [apply oee_ret|].
    destruct (probe_succeeded _); [apply oee_ret|].
    destruct (negb (is_active_id _ _)); [apply oee_ret|].
    apply oee_bind; [unfold choose_active; apply oee_get_bind; intros f1; apply oee_with_ctr|]. intros chosen.
    apply oee_indirect_loop.
  - intros H; exfalso; revert H. apply EE. destruct (negb (token f =? tok)); [apply oee_ret|].
    destruct (apply_existing_if _ _ _) as [[ms sm]|]; [|apply oee_ret].
    apply oee_bind; [apply oee_modify|]. intros _. apply oee_bind; [apply oee_hsum|]. intros _.
    apply oee_bind; [apply oee_adjust|]. intros _. apply oee_when, oee_send_message.
  - intros H; exfalso; revert H. apply EE. destruct (periodic_guard _ _); [|apply oee_ret].
    destruct (periodic_announce _) as [[freq n]|]; [|apply oee_ret].
    apply oee_bind; [apply oee_emit|]. intros _. apply oee_choose_and_send.
  - intros H; exfalso; revert H. apply EE. destruct (periodic_guard _ _); [|apply oee_ret].
    destruct (periodic_announce_down _) as [[freq n]|]; [|apply oee_ret].
    apply oee_bind; [apply oee_emit|]. intros _. apply oee_announce_to_down.
  - intros H; exfalso; revert H. apply EE. destruct (periodic_guard _ _); [|apply oee_ret].
    destruct (periodic_gossip _) as [[freq n]|]; [|apply oee_ret].
    apply oee_bind; [apply oee_emit|]. intros _.
    destruct (updates f), (customs f); try apply oee_ret; apply oee_choose_and_send.
  - intros H; exfalso; revert H. apply EE. apply oee_modify.
Qed.

(* ---------- the clock ---------- *)
(* deadline order: earlier deadline first, equal deadlines in Timer's order *)
Definition before (x y : N * timer Id) : Prop :=
  fst x < fst y \/ (fst x = fst y /\ timer_seq (snd x) <= timer_seq (snd y)).
(* the runtime's clock may be coarse: a deadline now + after is recorded as rd (now + after) for some
   monotone rounding rd (the identity for an exact clock) - which is when Timer's tie-break matters *)
Variable rd : N -> N.
Hypothesis rd_mono : forall a b, a <= b -> rd a <= rd b.
(* what the runtime holds after a call made at time now *)
Definition stamp (now : N) (es : list effect) : list (N * timer Id) :=
  flat_map (fun e => match e with Submit t a => [(rd (now + a), t)] | _ => [] end) es.

Lemma stamp_subm now es : map snd (stamp now es) = subm es.
Proof.
  unfold stamp, subm. induction es as [|e es IH]; [reflexivity|]. cbn [flat_map]. rewrite map_app, IH.
  destruct e; reflexivity.
Qed.
Lemma in_stamp now es d t : In (d, t) (stamp now es) -> exists a, In (Submit t a) es /\ d = rd (now + a).
Proof.
  unfold stamp. rewrite in_flat_map. intros [e [He Hi]]. destruct e as [? ?|t' a|?]; cbn in Hi; try contradiction.
  destruct Hi as [Hi|[]]. inversion Hi; subst. exists a. auto.
Qed.
Lemma stamp_in now es t a : In (Submit t a) es -> In (rd (now + a), t) (stamp now es).
Proof. intros H. unfold stamp. apply in_flat_map. exists (Submit t a). split; [exact H|left; reflexivity]. Qed.

(* the invariant: not Connected => no open round; open round => its SendIndirectProbe timer is
   pending with the current token and is due no later than any pending current-token ProbeRandomMember *)
Definition PI (f : foca) (P : list (N * timer Id)) : Prop :=
  PA f /\ (conn f = Connected -> probe_validate (prb f) = false ->
           exists d tgt, In (d, TSendIndirectProbe tgt (token f)) P
                         /\ forall d', In (d', TProbeRandomMember (token f)) P -> d <= d').

Theorem PI_initially (id0 : Id) (c0 : config) (h0 : hstate) : PI (@foca_init Id Addr HO id0 c0 h0) [].
Proof. split; [intros _; reflexivity|]. cbn. discriminate. Qed.

Lemma in_remove_mid {X} (x y : X) (l1 l2 : list X) : In x (l1 ++ y :: l2) -> x = y \/ In x (l1 ++ l2).
Proof. rewrite !in_app_iff. cbn. intuition. Qed.

(* a call that is not a timer delivery *)
Theorem PI_other (f : foca) (P : list (N * timer Id)) (now : N) (i : @input Id) :
  match i with ITimer _ => False | _ => True end ->
  PI f P -> let '(f', es, _, _) := step rnd f i in PI f' (P ++ stamp now es).
Proof.
  intros NT [HA HB]. pose proof (step_probe_open f i) as SP.
  assert (NL : match i with ITimer (TProbeRandomMember k) => ~ (k = token f /\ conn f = Connected) | _ => True end)
    by (destruct i; auto; contradiction).
  specialize (SP NL HA). destruct (step rnd f i) as [[[f' es] r] k]. destruct SP as [A' D]. split; [exact A'|].
  intros Cn' V'. destruct D as [V|(T & C & V & F)]; [rewrite V in V'; discriminate|].
  rewrite C in Cn'. destruct (HB Cn' V) as (d & tgt & I1 & I2). rewrite T. exists d, tgt. split.
  - apply in_or_app. left. exact I1.
  - intros d' H. apply in_app_or in H. destruct H as [H|H]; [apply I2; exact H|].
    apply in_stamp in H. destruct H as (a & Ha & _). rewrite Forall_forall in F. exact (match F _ Ha with end).
Qed.

(* delivery of a timer that is not the live ProbeRandomMember *)
Theorem PI_deliver_other (f : foca) (P1 P2 : list (N * timer Id)) (d now : N) (t : timer Id) :
  ~ (t = TProbeRandomMember (token f) /\ conn f = Connected) ->
  PI f (P1 ++ (d, t) :: P2) ->
  let '(f', es, _, _) := step rnd f (ITimer t) in PI f' (P1 ++ P2 ++ stamp now es).
Proof.
  intros NL [HA HB]. pose proof (step_probe_open f (ITimer t)) as SP.
  assert (NL' : match t with TProbeRandomMember k => ~ (k = token f /\ conn f = Connected) | _ => True end).
  { destruct t; auto. intros [-> Cn]. apply NL. auto. }
  specialize (SP NL' HA).
  pose proof (step_indirect_marks f) as SM.
  destruct (step rnd f (ITimer t)) as [[[f' es] r] k] eqn:ES. destruct SP as [A' D]. split; [exact A'|].
  intros Cn' V'. destruct D as [V|(T & C & V & F)]; [rewrite V in V'; discriminate|].
  rewrite C in Cn'. destruct (HB Cn' V) as (d0 & tgt & I1 & I2). rewrite T.
  apply in_remove_mid in I1. destruct I1 as [I1|I1].
  - exfalso. inversion I1; subst t. specialize (SM tgt). rewrite ES in SM. rewrite SM in V'. discriminate.
  - exists d0, tgt. split.
    + rewrite app_assoc. apply in_or_app. left. exact I1.
    + intros d' H. rewrite app_assoc in H. apply in_app_or in H. destruct H as [H|H].
      * apply I2. rewrite in_app_iff in *. cbn. destruct H; auto.
      * apply in_stamp in H. destruct H as (a & Ha & _). rewrite Forall_forall in F. exact (match F _ Ha with end).
Qed.

Lemma cnt_in K k (t : timer Id) (P : list (N * timer Id)) d :
  loop_of t = Some (K, k) -> In (d, t) P -> (1 <= cnt K k (map snd P))%nat.
Proof.
  intros LO H. induction P as [|[d0 t0] P IH]; [destruct H|]. cbn [map snd].
  change (t0 :: map snd P) with ([t0] ++ map snd P). rewrite cnt_app. destruct H as [H|H].
  - inversion H; subst. unfold cnt at 1, cntp. cbn [pairs_of flat_map]. rewrite LO. cbn.
    rewrite (proj2 (lk_eqb_eq K K) eq_refl), N.eqb_refl. cbn. apply le_n_S, Nat.le_0_l.
  - specialize (IH H). apply Nat.le_trans with (1 := IH). apply Nat.le_add_l.
Qed.

(* delivery of the live ProbeRandomMember timer at time now *)
Theorem PI_deliver_live (f : foca) (P1 P2 : list (N * timer Id)) (d now : N) :
  conn f = Connected ->
  Inv f (map snd (P1 ++ (d, TProbeRandomMember (token f)) :: P2)) ->
  probe_rtt (cfg f) <= probe_period (cfg f) ->
  let '(f', es, r, _) := step rnd f (ITimer (TProbeRandomMember (token f))) in
  clean r -> PI f' (P1 ++ P2 ++ stamp now es).
Proof.
  intros Cn HI LE. pose proof (step_probe_live f Cn) as SL.
  destruct (step rnd f (ITimer (TProbeRandomMember (token f)))) as [[[f' es] r] k]. intros Cl.
  assert (F : conn f' = Connected /\ token f' = token f /\ cfg f' = cfg f
              /\ Forall (prm_after (probe_period (cfg f))) es
              /\ (probe_validate (prb f') = false ->
                  exists tgt, In (Submit (TSendIndirectProbe tgt (token f)) (probe_rtt (cfg f))) es)).
  { destruct r as [|b|e|p]; [| |destruct e|]; cbn in Cl; try contradiction;
      destruct SL as (A & B & C & D & E & _); auto. }
  clear SL. destruct F as (C' & T' & F' & PA' & S').
  split; [intros NC; contradiction|]. intros _ V'. destruct (S' V') as [tgt Ht]. rewrite T'.
  exists (rd (now + probe_rtt (cfg f))), tgt. split.
  - apply in_or_app. right. apply in_or_app. right. apply stamp_in. exact Ht.
  - intros d' H. rewrite app_assoc in H. apply in_app_or in H. destruct H as [H|H].
    + exfalso. destruct (HI LProbe) as [H1 _].
      assert (E : In LProbe (enabled (cfg f))) by (left; reflexivity). specialize (H1 Cn E).
      rewrite map_app in H1. cbn [map snd] in H1.
      change (TProbeRandomMember (token f) :: map snd P2) with ([TProbeRandomMember (token f)] ++ map snd P2) in H1.
      rewrite !cnt_app in H1.
      assert (X : cnt LProbe (token f) [@TProbeRandomMember Id (token f)] = 1%nat).
      { unfold cnt, cntp. cbn. rewrite N.eqb_refl. reflexivity. }
      rewrite X in H1.
      assert (Y : (1 <= cnt LProbe (token f) (map snd (P1 ++ P2)))%nat) by (apply (cnt_in LProbe (token f) (TProbeRandomMember (token f)) (P1 ++ P2) d' eq_refl H)).
      rewrite map_app, cnt_app in Y. revert H1 Y. clear.
      generalize (cnt LProbe (token f) (map snd P1)), (cnt LProbe (token f) (map snd P2)). intros a b H1 Y.
      rewrite Nat.add_comm in H1. cbn in H1. inversion H1 as [H2]. rewrite Nat.add_comm in H2.
      destruct a, b; cbn in *; try discriminate. inversion Y.
    + apply in_stamp in H. destruct H as (a & Ha & ->). rewrite Forall_forall in PA'. specialize (PA' _ Ha).
      cbn in PA'. subst a. apply rd_mono. apply N.add_le_mono_l. exact LE.
Qed.

(* THE CLOCK THEOREM: the timer delivered is first in deadline order among the pending ones
   (however late it is delivered) => handle_timer does not fail with IncompleteProbeCycle *)
Theorem deadline_order_no_incomplete (f : foca) (P1 P2 : list (N * timer Id)) (d : N) (t : timer Id) :
  PI f (P1 ++ (d, t) :: P2) ->
  (forall x, In x (P1 ++ P2) -> before (d, t) x) ->
  snd (fst (step rnd f (ITimer t))) <> Failed EIncompleteProbeCycle.
Proof.
  intros [HA HB] MIN H. destruct (incomplete_only_live f t H) as [-> Cn].
  pose proof (step_probe_live f Cn) as SL.
  destruct (step rnd f (ITimer (TProbeRandomMember (token f)))) as [[[f' es] r] k]. cbn [fst snd] in H. subst r.
  destruct SL as (_ & _ & _ & _ & _ & V). specialize (V eq_refl).
  destruct (HB Cn V) as (d0 & tgt & I1 & I2).
  assert (LE : d0 <= d) by (apply I2; apply in_or_app; right; left; reflexivity).
  apply in_remove_mid in I1. destruct I1 as [I1|I1]; [discriminate|].
  destruct (MIN _ I1) as [L|[E L]]; cbn [fst snd timer_seq] in *.
  - apply N.lt_nge in L. contradiction.
  - apply N.le_ngt in L. apply L. reflexivity.
Qed.

(* a pending current-token ProbeRandomMember timer means the instance is Connected *)
Theorem pending_probe_timer_connected (f : foca) (P : list (N * timer Id)) (d : N) :
  Inv f (map snd P) -> In (d, TProbeRandomMember (token f)) P -> conn f = Connected.
Proof.
  intros HI H. destruct (HI LProbe) as [_ H0].
  destruct (conn f) eqn:Cn; try reflexivity; exfalso;
    (assert (Z : cnt LProbe (token f) (map snd P) = 0%nat) by (apply H0; discriminate));
    pose proof (cnt_in LProbe (token f) (TProbeRandomMember (token f)) P d eq_refl H) as Y; rewrite Z in Y; inversion Y.
Qed.

(* in deadline order, under both invariants, handle_timer fails only if the codec fails to encode *)
Theorem deadline_order_errors (f : foca) (P1 P2 : list (N * timer Id)) (d : N) (t : timer Id) :
  PI f (P1 ++ (d, t) :: P2) -> Inv f (map snd (P1 ++ (d, t) :: P2)) ->
  (forall x, In x (P1 ++ P2) -> before (d, t) x) ->
  match snd (fst (step rnd f (ITimer t))) with Failed e => e = EEncode | _ => True end.
Proof.
  intros HP HI MIN. pose proof (handle_timer_errors rnd f t) as HE.
  pose proof (deadline_order_no_incomplete f P1 P2 d t HP MIN) as NI.
  destruct (snd (fst (step rnd f (ITimer t)))) as [|b|e|p]; auto.
  destruct HE as [E|[E|(E & NC & ->)]]; [exact E|subst e; contradiction|].
  exfalso. apply NC. apply (pending_probe_timer_connected f _ d HI). apply in_or_app. right. left. reflexivity.
Qed.

End Deadline.
