(* L_BroadcastBound.v — C16: broadcast() hands the runtime at most num_indirect_probes datagrams,
   all of them Broadcast datagrams built from the current identity, and nothing else. *)
From Foca Require Import Laws L_Lists MembersM ProbeM BcastM FocaM L_Members L_MembersInv Hoare Inv L_Probe L_Footprint.

Section BB.
Context {Id Addr : Type} {IO : IdOps Id Addr} {CO : CodecOps Id} {HO : HandlerOps Id}.
Variable rnd : oracle.
Notation member := (member Id).
Notation foca := (@foca Id Addr HO).
Notation rs := (@rs Id Addr HO).
Notation M := (@M Id Addr HO).
Notation effect := (effect Id).
Notation "x <- m ;; f" := (bind m (fun x => f)) (at level 61, m at next level, right associativity).
Notation "m ;;; f" := (bind m (fun _ => f)) (at level 61, right associativity).

(* a datagram of kind msg to dst built by an instance whose identity / incarnation are id / inc *)
Definition dgram_of (id : Id) (inc : N) (msg : message Id) (e : effect) : Prop :=
  match e with
  | Send dst b => exists rest, b = enc_hdr (mkHeader id inc dst msg) ++ rest
  | _ => False
  end.

(* m emits at most n effects, each satisfying P *)
Definition emits_le {A} (n : nat) (P : effect -> Prop) (m : M A) : Prop :=
  forall s, exists new, out (fst (m s)) = out s ++ new /\ Forall P new /\ (length new <= n)%nat.

Lemma emits_le_0 {A} P (m : M A) : (forall s, out (fst (m s)) = out s) -> emits_le 0 P m.
Proof. intros H s. exists []. rewrite H, app_nil_r. repeat split; auto. Qed.

Lemma send_message_one (s : rs) dst msg :
  exists new, out (fst (send_message rnd dst msg s)) = out s ++ new
              /\ Forall (dgram_of (identity (st s)) (incarnation (st s)) msg) new /\ (length new <= 1)%nat.
Proof.
  destruct (send_message rnd dst msg s) as [s' r] eqn:ES. cbn [fst]. revert ES.
  unfold send_message, bind at 1, get at 1. cbv beta iota.
  destruct (negb (send_cap (st s) =? max_packet_size (cfg (st s)))).
  { cbn. intros ES. inversion ES; subst. exists []. rewrite app_nil_r. repeat split; auto. }
  destruct (max_packet_size (cfg (st s)) <? len (enc_hdr _)).
  { cbn. intros ES. inversion ES; subst. exists []. rewrite app_nil_r. repeat split; auto. }
  unfold bind at 1, num_sends at 1. cbv beta iota.
  unfold bind at 1.
  pose proof (noemit_send_body rnd dst msg (max_packet_size (cfg (st s)))
                (max_packet_size (cfg (st s)) - len (enc_hdr (mkHeader (identity (st s)) (incarnation (st s)) dst msg)))
                (len (filter is_send (out s))) s) as N1.
  destruct (send_body rnd dst msg _ _ _ s) as [s1 [[body room3]|e|p]]; cbn [fst] in N1.
  2,3: intros ES; inversion ES; subst; exists []; rewrite app_nil_r, N1; repeat split; auto.
  unfold bind at 1.
  pose proof (noemit_send_customs rnd dst msg room3 (len (filter is_send (out s))) s1) as N2.
  destruct (send_customs rnd dst msg room3 _ s1) as [s2 [cust|e|p]]; cbn [fst] in N2.
  2,3: intros ES; inversion ES; subst; exists []; rewrite app_nil_r, N2, N1; repeat split; auto.
  unfold emit. intros ES. inversion ES; subst. cbn [out].
  exists [Send dst (enc_hdr (mkHeader (identity (st s)) (incarnation (st s)) dst msg) ++ body ++ cust)].
  rewrite N2, N1. repeat split; auto. constructor; [|constructor]. cbn. eexists. reflexivity.
Qed.

(* send_message leaves identity and incarnation alone *)
Lemma send_message_self (s : rs) dst msg :
  identity (st (fst (send_message rnd dst msg s))) = identity (st s)
  /\ incarnation (st (fst (send_message rnd dst msg s))) = incarnation (st s).
Proof.
  destruct (frames_send_message rnd dst msg s) as (u & c & E). rewrite E. cbn. auto.
Qed.

Lemma broadcast_loop_bound l : forall s,
  exists new, out (fst (broadcast_loop rnd l s)) = out s ++ new
              /\ Forall (dgram_of (identity (st s)) (incarnation (st s)) Broadcast) new
              /\ (length new <= length l)%nat.
Proof.
  induction l as [|m t IH]; intros s; cbn [broadcast_loop].
  - exists []. cbn. rewrite app_nil_r. repeat split; auto.
  - destruct (send_message_one s (m_id m) Broadcast) as (n1 & O1 & F1 & L1).
    destruct (send_message_self s (m_id m) Broadcast) as [I1 I2].
    unfold bind at 1. destruct (send_message rnd (m_id m) Broadcast s) as [s1 [[]|e|p]]; cbn [fst] in *.
    2,3: exists n1; repeat split; auto; cbn; lia.
    unfold bind at 1, get at 1. cbv beta iota.
    destruct (customs (st s1)).
    + cbn. exists n1. repeat split; auto. cbn. lia.
    + destruct (IH s1) as (n2 & O2 & F2 & L2). exists (n1 ++ n2). split; [rewrite O2, O1, app_assoc; reflexivity|].
      split; [apply Forall_app; split; [exact F1|rewrite <- I1, <- I2; exact F2]|].
      rewrite app_length. cbn. lia.
Qed.

Theorem broadcast_bound (f : foca) :
  let es := snd (fst (fst (step rnd f IBroadcast))) in
  Forall (dgram_of (identity f) (incarnation f) Broadcast) es
  /\ len es <= num_indirect_probes (cfg f)
  /\ (customs f = [] -> es = []).
Proof.
  destruct (step rnd f IBroadcast) as [[[f' es] r] k0] eqn:ES. cbn [fst snd]. revert ES.
  cbn [step]. unfold run_unit, broadcast, bind at 1, get at 1. cbv beta iota. cbn [st].
  destruct (customs f) as [|c0 cs] eqn:EC.
  { cbn. intros ES. inversion ES; subst. repeat split; auto. apply N.le_0_l. }
  unfold bind at 1, choose_active at 1, bind at 1, get at 1. cbv beta iota. unfold with_ctr. cbn [st ctr out].
  pose proof (choose_members_len rnd (mems f) (num_indirect_probes (cfg f))
                (fun m => m_active m && h_should_add (hst f) (m_id m)) 0) as CL.
  unfold choose_active_members.
  destruct (choose_members rnd (mems f) (num_indirect_probes (cfg f)) _ 0) as [chosen k] eqn:CM. cbn [fst] in CL.
  destruct (broadcast_loop_bound (rev chosen) (mkRs f [] k)) as (new & O & F & L).
  destruct (broadcast_loop rnd (rev chosen) (mkRs f [] k)) as [s' r']. cbn [fst snd out st] in *.
  intros ES. inversion ES; subst. cbn [app] in O. rewrite O. split; [exact F|]. split; [|intros X; discriminate].
  rewrite rev_length in L. unfold len in *. lia.
Qed.

End BB.
