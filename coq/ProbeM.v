(* ProbeM.v — model of src/probe.rs.  No proofs. *)
From Foca Require Export Types.

Section Probe.
Context {Id Addr : Type} {IO : IdOps Id Addr}.

Record probe := mkProbe {
  p_direct : option (member Id);
  p_indirect : list Id;
  p_number : N;
  p_direct_ack_ok : bool;
  p_indirect_ack_count : N;
  p_reached : bool
}.

Definition probe_new : probe := mkProbe None [] 0 false 0 false.

Definition probe_clear (p : probe) : probe :=
  mkProbe None [] (p_number p) false 0 false.

Definition probe_start (p : probe) (target : member Id) : probe * N :=
  let n := wrap8 (p_number p + 1) in
  (mkProbe (Some target) [] n false 0 false, n).

Definition probe_mark_reached (p : probe) : probe :=
  mkProbe (p_direct p) (p_indirect p) (p_number p) (p_direct_ack_ok p)
          (p_indirect_ack_count p) true.

Definition probe_validate (p : probe) : bool :=
  match p_direct p with None => true | Some _ => p_reached p end.

Definition probe_succeeded (p : probe) : bool :=
  p_direct_ack_ok p || (0 <? p_indirect_ack_count p).

Definition probe_take_failed (p : probe) : probe * option (member Id) :=
  if negb (probe_succeeded p)
  then (mkProbe None (p_indirect p) (p_number p) (p_direct_ack_ok p)
                (p_indirect_ack_count p) (p_reached p), p_direct p)
  else (p, None).

Definition probe_is_probing (p : probe) (id : Id) : bool :=
  match p_direct p with Some m => id_eqb (m_id m) id | None => false end.

Definition probe_receive_ack (p : probe) (from : Id) (n : N) : probe * bool :=
  if (n =? p_number p) && probe_is_probing p from
  then (mkProbe (p_direct p) (p_indirect p) (p_number p) true
                (p_indirect_ack_count p) (p_reached p), true)
  else (p, false).

(* debug_assert: a probe is running and [from] is not its target *)
Definition probe_expect_indirect_ack (p : probe) (from : Id) : option probe :=
  match p_direct p with
  | Some m =>
      if id_eqb (m_id m) from then None
      else Some (mkProbe (p_direct p) (p_indirect p ++ [from]) (p_number p)
                         (p_direct_ack_ok p) (p_indirect_ack_count p) (p_reached p))
  | None => None
  end.

Definition probe_receive_indirect_ack (p : probe) (from : Id) (n : N) : probe * bool :=
  if negb (p_number p =? n) then (p, false)
  else match find_index (fun i => id_eqb i from) (p_indirect p) with
       | Some pos =>
           (mkProbe (p_direct p) (swap_remove (p_indirect p) pos) (p_number p)
                    (p_direct_ack_ok p) (p_indirect_ack_count p + 1) (p_reached p), true)
       | None => (p, false)
       end.

End Probe.
Arguments probe : clear implicits.
