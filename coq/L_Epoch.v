(* L_Epoch.v — C11 / C13: the connection epoch (the timer token) changes only when the instance goes idle,
   becomes defunct or rejoins.  Along every call other than change_identity / reuse_down_identity that is not
   aborted by an Encode error or a panic: the token after the call is the token before it, or the call
   notified Idle, Defunct or Rejoin.  So a timer scheduled while Connected keeps its force for as long as
   none of these is notified - whatever else happens (probe rounds on the recovery path included). *)
From Foca Require Import Laws L_Lists MembersM ProbeM BcastM FocaM Hoare Inv L_Mech L_Mirror L_ConnCons L_Acct L_Footprint L_RoundEnd L_Evidence L_Defunct L_RenewDown.

Section Epoch.
Context {Id Addr : Type} {IO : IdOps Id Addr} {CO : CodecOps Id} {HO : HandlerOps Id} {IL : IdLaws IO}.
Variable rnd : oracle.
Notation member := (member Id).
Notation foca := (@foca Id Addr HO).
Notation rs := (@rs Id Addr HO).
Notation M := (@M Id Addr HO).
Notation effect := (effect Id).
Notation "x <- m ;; f" := (bind m (fun x => f)) (at level 61, m at next level, right associativity).
Notation "m ;;; f" := (bind m (fun _ => f)) (at level 61, right associativity).

Definition epoch_note (e : effect) : Prop :=
  match e with Notify NIdle => True | Notify NDefunct => True | Notify (NRejoin _) => True | _ => False end.

Definition tkP {X} (m : M X) (s : rs) : Prop :=
  exists new, out (fst (m s)) = out s ++ new
    /\ (okr (snd (m s)) -> token (st (fst (m s))) = token (st s) \/ Exists epoch_note new).
Definition tk {X} (m : M X) : Prop := forall s, tkP m s.

Lemma tk_bind {X Y} (m : M X) (k : X -> M Y) : tk m -> (forall a, tk (k a)) -> tk (bind m k).
Proof.
  intros Hm Hk s. destruct (Hm s) as (n1 & O1 & D1). unfold tkP, bind.
  destruct (m s) as [s1 [a|e|p]]; cbn [fst snd] in *; try (exists n1; split; [exact O1|exact D1]).
  destruct (Hk a s1) as (n2 & O2 & D2). exists (n1 ++ n2). split; [rewrite O2, O1, app_assoc; reflexivity|].
  intros OK. destruct (D1 I) as [T1|E1]; [|right; apply Exists_app; left; exact E1].
  destruct (D2 OK) as [T2|E2]; [left; congruence|right; apply Exists_app; right; exact E2].
Qed.
Lemma tk_still {X} (m : M X) : still m -> tk m.
Proof. intros H s. destruct (H s) as (_ & T & _ & new & O & _). exists new. split; [exact O|]. intros _. left. exact T. Qed.
Lemma tk_same {X} (m : M X) : (forall s, token (st (fst (m s))) = token (st s) /\ exists new, out (fst (m s)) = out s ++ new) -> tk m.
Proof. intros H s. destruct (H s) as (T & new & O). exists new. split; [exact O|]. intros _. left. exact T. Qed.
Lemma tk_ret {X} (x : X) : tk (@ret Id Addr HO X x). Proof. apply tk_still, still_ret. Qed.
Lemma tk_fail {X} e : tk (@fail Id Addr HO X e). Proof. apply tk_still, still_fail. Qed.
Lemma tk_panic {X} p : tk (@panic Id Addr HO X p). Proof. apply tk_still, still_panic. Qed.
Lemma tk_get : tk (@get Id Addr HO). Proof. apply tk_still, still_get. Qed.
Lemma tk_emit e : tk (@emit Id Addr HO e).
Proof. apply tk_same. intros s. split; [reflexivity|exists [e]; reflexivity]. Qed.
Lemma tk_modify g : (forall f, token (g f) = token f) -> tk (@modify Id Addr HO g).
Proof. intros H. apply tk_same. intros s. cbn. split; [apply H|exists []; symmetry; apply app_nil_r]. Qed.
Lemma tk_with_ctr {X} (g : N -> X * N) : tk (with_ctr g). Proof. apply tk_still, still_with_ctr. Qed.
Lemma tk_when b (m : M unit) : tk m -> tk (when b m).
Proof. destruct b; cbn; auto. intros _. apply tk_ret. Qed.
Lemma tk_forM {X} (l : list X) (k : X -> M unit) : (forall x, tk (k x)) -> tk (forM_ l k).
Proof. intros H. induction l as [|x t IH]; cbn [forM_]; [apply tk_ret|]. apply tk_bind; auto. Qed.
Lemma tk_get_bind {X} (k : foca -> M X) : (forall f, tk (k f)) -> tk (f <- get ;; k f).
Proof. intros H. apply tk_bind; [apply tk_get|exact H]. Qed.

(* the places where the epoch moves *)
Lemma tk_become_disconnected : tk (@become_disconnected Id Addr HO).
Proof.
  intros s. unfold tkP, become_disconnected, bind, get. cbv beta iota.
  destruct (negb (num_active (mems (st s)) =? 0)); [exists []; split; [symmetry; apply app_nil_r|intros []]|].
  unfold modify, emit. cbn [fst snd st out]. eexists. split; [reflexivity|]. intros _. right. constructor. exact I.
Qed.
Lemma tk_become_undead : tk (@become_undead Id Addr HO).
Proof.
  intros s. unfold tkP, become_undead, bind, modify, emit. cbn [fst snd st out]. eexists. split; [reflexivity|].
  intros _. right. constructor. exact I.
Qed.
Lemma tk_become_connected : tk (@become_connected Id Addr HO).
Proof.
  unfold become_connected. apply tk_get_bind. intros f. destruct (_ =? 0); [apply tk_panic|].
  repeat (apply tk_bind; [first [apply tk_modify; intros ?; reflexivity|apply tk_emit|unfold submit_periodic; destruct (_ : option (N * N)) as [[? ?]|]; first [apply tk_emit|apply tk_ret]]|intros _]).
  apply tk_emit.
Qed.
Lemma tk_adjust : tk (@adjust_connection_state Id Addr HO).
Proof.
  unfold adjust_connection_state. apply tk_get_bind. intros f. destruct (conn f).
  - apply tk_when, tk_become_connected.
  - apply tk_when, tk_become_disconnected.
  - apply tk_ret.
Qed.

(* the automatic renewal: an identity change followed by Rejoin - or nothing *)
Lemma tk_attempt_rejoin : tk (attempt_rejoin rnd).
Proof.
  intros s. unfold tkP, attempt_rejoin, bind, get. cbv beta iota.
  assert (NONE : exists new : list effect, out s = out s ++ new /\ (True -> token (st s) = token (st s) \/ Exists epoch_note new)).
  { exists []. split; [symmetry; apply app_nil_r|]. intros _. left. reflexivity. }
  destruct (renew (identity (st s))) as [new_id|]; [|exact NONE].
  destruct (id_eqb (identity (st s)) new_id) eqn:NE; [exact NONE|].
  destruct (negb (wins new_id (identity (st s)))); [exact NONE|].
  rewrite (change_identity_eq rnd s new_id NE).
  set (s2 := mkRs (renewed_state (st s) new_id) (out s) (ctr s)).
  destruct (still_gossip rnd s2) as (_ & _ & _ & n1 & O1 & _).
  pose proof (oee_gossip rnd s2) as OE.
  destruct (gossip rnd s2) as [s3 [[]|e|p]]; cbn [fst snd] in *.
  - unfold emit, ret. cbn [fst snd out st]. exists (n1 ++ [Notify (NRejoin new_id)]).
    split; [rewrite O1, app_assoc; reflexivity|]. intros _. right. apply Exists_app. right. constructor. exact I.
  - subst e. exists n1. split; [exact O1|]. intros [].
  - exists n1. split; [exact O1|]. intros [].
Qed.

Lemma tk_handle_self_update inc st0 : tk (handle_self_update rnd inc st0).
Proof.
  unfold handle_self_update. destruct st0.
  - apply tk_ret.
  - apply tk_get_bind. intros f. cbv zeta. destruct (_ =? u16_max).
    + apply tk_bind; [apply tk_attempt_rejoin|]. intros b. apply tk_when, tk_become_undead.
    + apply tk_bind; [apply tk_when, tk_modify; intros ?; reflexivity|]. intros _.
      apply tk_get_bind. intros f1. apply tk_when, tk_still, still_gossip.
  - apply tk_bind; [apply tk_attempt_rejoin|]. intros b. apply tk_when, tk_become_undead.
Qed.

Lemma tk_apply_one b u : tk (apply_one rnd b u).
Proof.
  unfold apply_one. apply tk_get_bind. intros f.
  destruct (id_eqb _ _); [apply tk_handle_self_update|].
  destruct (addr_eqb _ _); (apply tk_bind; [apply tk_still, still_apply_update|intros _; apply tk_ret]).
Qed.
Lemma tk_apply_many l b : tk (apply_many rnd l b).
Proof. unfold apply_many. apply tk_bind; [apply tk_forM; intros u; apply tk_apply_one|]. intros _. apply tk_adjust. Qed.

Lemma tk_react src msg : tk (react rnd src msg).
Proof.
  unfold react. apply tk_get_bind. intros f.
  destruct msg; try (apply tk_still, still_send_message); try (apply tk_modify; intros ?; reflexivity);
    try (destruct (id_eqb _ _); [apply tk_fail|first [apply tk_still, still_send_message|apply tk_modify; intros ?; reflexivity]]);
    try apply tk_ret.
  apply tk_handle_self_update.
Qed.

Lemma tk_handle_data data : tk (handle_data rnd data).
Proof.
  unfold handle_data. apply tk_get_bind. intros f.
  destruct (_ <? _); [apply tk_fail|].
  destruct (dec_hdr data) as [[h rest]|]; [|apply tk_fail].
  destruct (_ || _); [apply tk_fail|]. cbv zeta.
  destruct (_ || _); [apply tk_fail|].
  destruct (negb (accept_payload f h)); [apply tk_ret|].
  apply tk_bind.
  { destruct (_ && _); [|apply tk_ret]. destruct (get_u16 rest) as [[n r]|]; [|apply tk_fail].
    destruct (dec_members _ _); [apply tk_ret|apply tk_fail]. }
  intros [ul tail].
  apply tk_bind; [apply tk_still, still_apply_update|]. intros active.
  destruct (negb active).
  - apply tk_get_bind. intros f0. cbv zeta.
    apply tk_bind; [apply tk_when, tk_handle_self_update|]. intros _.
    apply tk_get_bind. intros f1. apply tk_when, tk_still, still_send_message.
  - apply tk_bind; [apply tk_apply_many|]. intros _.
    apply tk_bind; [apply tk_still, still_attempt, still_handle_custom_broadcasts|].
    intros cres. apply tk_get_bind. intros f1.
    destruct (negb _); [destruct cres; [apply tk_fail|apply tk_ret]|].
    apply tk_bind; [apply tk_react|]. intros _. destruct cres; [apply tk_fail|apply tk_ret].
Qed.

Lemma tk_probe_random_member : tk (probe_random_member rnd).
Proof.
  unfold probe_random_member. apply tk_get_bind. intros f.
  destruct (negb _); [apply tk_panic|]. cbv zeta.
  apply tk_bind; [apply tk_when, tk_modify; intros ?; reflexivity|]. intros _.
  apply tk_get_bind. intros f1. destruct (probe_take_failed (prb f1)) as [p' failed].
  apply tk_bind; [apply tk_modify; intros ?; reflexivity|]. intros _.
  apply tk_bind.
  { destruct failed as [fm|]; [|apply tk_ret]. cbv zeta. apply tk_get_bind. intros f2.
    destruct (apply_existing_if _ _ _) as [[ms sm]|]; [|apply tk_ret].
    apply tk_bind; [apply tk_modify; intros ?; reflexivity|]. intros _.
    apply tk_bind; [apply tk_still, still_hsum|]. intros _. apply tk_get_bind. intros f3. apply tk_when, tk_emit. }
  intros _. apply tk_get_bind. intros f2.
  apply tk_bind; [apply tk_with_ctr|]. intros [ms chosen].
  apply tk_bind; [apply tk_modify; intros ?; reflexivity|]. intros _.
  apply tk_bind.
  { destruct chosen as [m|]; [|apply tk_ret]. apply tk_get_bind. intros f4.
    destruct (probe_start (prb f4) m) as [p'0 n].
    apply tk_bind; [apply tk_modify; intros ?; reflexivity|]. intros _.
    apply tk_bind; [apply tk_still, still_send_message|]. intros _. apply tk_get_bind. intros f5. apply tk_emit. }
  intros _. apply tk_get_bind. intros f4. apply tk_bind; [apply tk_emit|]. intros _.
  destruct (negb _); [apply tk_fail|apply tk_ret].
Qed.

Lemma tk_handle_timer t : tk (handle_timer rnd t).
Proof.
  unfold handle_timer. apply tk_get_bind. intros f.
  destruct t as [tok|probed tok|mid inc tok|tok|tok|tok|down].
  - destruct (tok =? token f); [|apply tk_ret].
    destruct (negb _); [apply tk_fail|apply tk_probe_random_member].
  - destruct (negb (tok =? token f)); [apply tk_ret|].
    apply tk_bind; [apply tk_modify; intros ?; reflexivity|]. intros _.
    destruct (negb (probe_is_probing _ _)); [apply tk_ret|].
    destruct (probe_succeeded _); [apply tk_ret|].
    destruct (negb (is_active_id _ _)); [apply tk_ret|].
    apply tk_bind; [apply tk_still, still_choose_active|intros chosen; apply tk_still, still_indirect_loop].
  - destruct (negb (token f =? tok)); [apply tk_ret|]. cbv zeta.
    destruct (apply_existing_if _ _ _) as [[ms sm]|]; [|apply tk_ret].
    apply tk_bind; [apply tk_modify; intros ?; reflexivity|]. intros _.
    apply tk_bind; [apply tk_still, still_hsum|]. intros _.
    apply tk_bind; [apply tk_adjust|]. intros _. apply tk_when, tk_still, still_send_message.
  - destruct (periodic_guard _ _); [|apply tk_ret].
    destruct (periodic_announce _) as [[freq n]|]; [|apply tk_ret].
    apply tk_bind; [apply tk_emit|]. intros _. apply tk_still, still_choose_and_send.
  - destruct (periodic_guard _ _); [|apply tk_ret].
    destruct (periodic_announce_down _) as [[freq n]|]; [|apply tk_ret].
    apply tk_bind; [apply tk_emit|]. intros _. apply tk_still, still_announce_to_down.
  - destruct (periodic_guard _ _); [|apply tk_ret].
    destruct (periodic_gossip _) as [[freq n]|]; [|apply tk_ret].
    apply tk_bind; [apply tk_emit|]. intros _.
    destruct (updates f), (customs f); try apply tk_ret; apply tk_still, still_choose_and_send.
  - apply tk_modify. intros ?; reflexivity.
Qed.

(* ONE CALL other than change_identity / reuse_down_identity *)
Theorem step_epoch (f : foca) (i : @input Id) :
  match i with IChangeIdentity _ | IReuseDown => False | _ => True end ->
  let '(f', es, r, _) := step rnd f i in
  match r with
  | Failed EEncode => True
  | Panicked _ => True
  | _ => token f' = token f \/ Exists epoch_note es
  end.
Proof.
  intros NI.
  assert (RU : forall (m : M unit), tk m ->
            let '(f', es, r, _) := run_unit m f in
            match r with Failed EEncode => True | Panicked _ => True | _ => token f' = token f \/ Exists epoch_note es end).
  { intros m Hm. destruct (Hm (mkRs f [] 0)) as (new & O & D). unfold run_unit.
    destruct (m (mkRs f [] 0)) as [s' r]. cbn [fst snd st out app] in *. rewrite O.
    destruct r as [[]|e|p]; cbn [to_result]; [apply D; exact I| |exact I].
    destruct e; try exact I; apply D; exact I. }
  destruct i; try contradiction; cbn [step].
  - apply RU, tk_handle_data.
  - apply RU, tk_handle_timer.
  - apply RU, tk_apply_many.
  - apply RU, tk_still, still_send_message.
  - apply RU, tk_still, still_gossip.
  - apply RU, tk_still, still_broadcast.
  - apply RU. unfold leave_cluster. apply tk_get_bind. intros f0.
    apply tk_bind; [apply tk_still, still_add_update|]. intros _.
    apply tk_bind; [apply tk_still, still_gossip|]. intros _. apply tk_become_undead.
  - apply RU. unfold set_config. apply tk_get_bind. intros f0. cbv zeta.
    destruct (_ || _); [apply tk_fail|].
    apply tk_bind; [apply tk_when, tk_modify; intros ?; reflexivity|]. intros _. apply tk_modify. intros ?; reflexivity.
  - destruct (still_add_broadcast b (mkRs f [] 0)) as (_ & T & _ & new & O & _). unfold run_bool.
    destruct (add_broadcast b (mkRs f [] 0)) as [s' r]. cbn [fst st out app] in *. rewrite O.
    destruct r as [b0|e|p]; cbn [to_result]; [left; exact T| |exact I]. destruct e; try exact I; left; exact T.
Qed.

(* histories in which no call is change_identity / reuse_down_identity, none is aborted by an Encode error or a
   panic, and none notifies Idle, Defunct or Rejoin: the epoch at the end is the epoch at the start *)
Definition aborted_r (r : result) : Prop := match r with Failed EEncode => True | Panicked _ => True | _ => False end.
Fixpoint same_epoch_hist (f : foca) (l : list (@input Id)) : Prop :=
  match l with
  | [] => True
  | i :: t =>
      let '(f', es, r, _) := step rnd f i in
      match i with IChangeIdentity _ | IReuseDown => False | _ => True end
      /\ ~ aborted_r r /\ ~ Exists epoch_note es /\ same_epoch_hist f' t
  end.

Theorem history_epoch (l : list (@input Id)) : forall f,
  same_epoch_hist f l -> token (run_calls rnd f l) = token f.
Proof.
  induction l as [|i t IH]; intros f H; [reflexivity|]. cbn [run_calls same_epoch_hist] in *.
  pose proof (step_epoch f i) as S. destruct (step rnd f i) as [[[f' es] r] k]. cbn [fst].
  destruct H as (NI & NA & NE & HT). rewrite (IH f' HT).
  specialize (S NI). destruct r as [|b|e|p]; try (destruct S as [T|E]; [exact T|contradiction]).
  - destruct e; try (destruct S as [T|E]; [exact T|contradiction]). exfalso. apply NA. exact I.
  - exfalso. apply NA. exact I.
Qed.

End Epoch.
