(* L_TxPass.v — C15, the ledger along every call and every history.  total = transmissions still owed by
   the backlog of cluster updates; carried = sum of the count fields of the datagrams a call hands to the
   runtime.  For every call: total afterwards + carried <= total before + max_transmissions * (number of
   updates the call may accept).  Over a history from a fresh instance: the number of update
   transmissions is at most the sum of max_transmissions over the accepted updates. *)
From Foca Require Import Laws L_Lists MembersM ProbeM BcastM FocaM L_Bcast Hoare Inv L_Wire L_TxAccount L_FanOut L_SendTx L_Evidence L_Reject L_Timers.

Section TxPass.
Context {Id Addr : Type} {IO : IdOps Id Addr} {CO : CodecOps Id} {HO : HandlerOps Id} {IL : IdLaws IO} {EL : @ExtraLaws Id Addr IO CO} {CL : CodecLaws CO}.
Variable rnd : oracle.
Notation member := (member Id).
Notation foca := (@foca Id Addr HO).
Notation rs := (@rs Id Addr HO).
Notation M := (@M Id Addr HO).
Notation effect := (effect Id).
Notation "x <- m ;; f" := (bind m (fun x => f)) (at level 61, m at next level, right associativity).
Notation "m ;;; f" := (bind m (fun _ => f)) (at level 61, right associativity).

Definition mx (s : rs) : N := max_transmissions (cfg (st s)).
Definition txP {X} (A : N) (m : M X) (s : rs) : Prop :=
  cfg (st (fst (m s))) = cfg (st s)
  /\ exists new, out (fst (m s)) = out s ++ new
       /\ total (updates (st (fst (m s)))) + carried new <= total (updates (st s)) + mx s * A.
Definition tx {X} (A : N) (m : M X) : Prop := forall s, txP A m s.

Lemma tx_weaken {X} A B (m : M X) : A <= B -> tx A m -> tx B m.
Proof. intros L H s. destruct (H s) as (C & new & O & I). split; [exact C|]. exists new. split; [exact O|]. nia. Qed.
Lemma tx_bind {X Y} A B (m : M X) (k : X -> M Y) : tx A m -> (forall a, tx B (k a)) -> tx (A + B) (bind m k).
Proof.
  intros Hm Hk s. destruct (Hm s) as (C1 & n1 & O1 & I1). unfold txP, bind.
  destruct (m s) as [s1 [a|e|p]]; cbn [fst] in *; try (split; [exact C1|]; exists n1; split; [exact O1|nia]).
  destruct (Hk a s1) as (C2 & n2 & O2 & I2). split; [congruence|]. exists (n1 ++ n2). split; [rewrite O2, O1, app_assoc; reflexivity|].
  rewrite carried_app. unfold mx in *. rewrite C1 in I2. nia.
Qed.
Lemma tx_ret_bind {X Y} A (x : X) (k : X -> M Y) : tx A (k x) -> tx A (bind (ret x) k).
Proof. intros H s. exact (H s). Qed.
Lemma tx_bind0 {X Y} B (m : M X) (k : X -> M Y) : tx 0 m -> (forall a, tx B (k a)) -> tx B (bind m k).
Proof. intros. replace B with (0 + B) by lia. apply tx_bind; auto. Qed.
Lemma tx_quiet {X} (m : M X) :
  (forall s, cfg (st (fst (m s))) = cfg (st s) /\ updates (st (fst (m s))) = updates (st s) /\ out (fst (m s)) = out s) -> tx 0 m.
Proof.
  intros H s. destruct (H s) as (C & U & O). split; [exact C|]. exists []. split; [rewrite O, app_nil_r; reflexivity|].
  rewrite U. cbn [carried fold_right]. lia.
Qed.
Lemma tx_ret {X} (x : X) : tx 0 (@ret Id Addr HO X x). Proof. apply tx_quiet. intros; cbn; auto. Qed.
Lemma tx_fail {X} e : tx 0 (@fail Id Addr HO X e). Proof. apply tx_quiet. intros; cbn; auto. Qed.
Lemma tx_panic {X} p : tx 0 (@panic Id Addr HO X p). Proof. apply tx_quiet. intros; cbn; auto. Qed.
Lemma tx_get : tx 0 (@get Id Addr HO). Proof. apply tx_quiet. intros; cbn; auto. Qed.
Lemma tx_num_sends : tx 0 (@num_sends Id Addr HO). Proof. apply tx_quiet. intros; cbn; auto. Qed.
Lemma tx_ask r : tx 0 (ask rnd r). Proof. apply tx_quiet. intros; cbn; auto. Qed.
Lemma tx_with_ctr {X} (g : N -> X * N) : tx 0 (with_ctr g).
Proof. apply tx_quiet. intros s. unfold with_ctr. destruct (g (ctr s)). cbn. auto. Qed.
Lemma tx_modify g : (forall f, cfg (g f) = cfg f /\ updates (g f) = updates f) -> tx 0 (@modify Id Addr HO g).
Proof. intros H. apply tx_quiet. intros s. cbn. destruct (H (st s)). auto. Qed.
Lemma tx_emit e : is_send e = false -> tx 0 (@emit Id Addr HO e).
Proof.
  intros H s. unfold txP, emit. cbn [fst st out]. split; [reflexivity|]. exists [e]. split; [reflexivity|]. destruct e; try discriminate; cbn [carried fold_right]; lia.
Qed.
Lemma tx_when A b (m : M unit) : tx A m -> tx A (when b m).
Proof. destruct b; cbn; auto. intros _. apply (tx_weaken 0); [lia|apply tx_ret]. Qed.
Lemma tx_attempt A (m : M unit) : tx A m -> tx A (attempt m).
Proof. intros H s. specialize (H s). unfold txP in *. unfold attempt. destruct (m s) as [s1 [x|e|p]]; auto. Qed.
Lemma tx_forM {X} A (l : list X) (k : X -> M unit) : (forall x, tx A (k x)) -> tx (len l * A) (forM_ l k).
Proof.
  intros H. induction l as [|x t IH]; cbn [forM_].
  - apply (tx_weaken 0); [lia|apply tx_ret].
  - replace (len (x :: t) * A) with (A + len t * A) by (rewrite len_cons; lia). apply tx_bind; auto.
Qed.

Lemma tx_add_update u : tx 1 (@add_update Id Addr IO CO HO u).
Proof.
  intros s. unfold txP, add_update, modify. cbn [fst st out]. split; [reflexivity|]. exists []. split; [symmetry; apply app_nil_r|].
  pose proof (add_or_replace_total Addr addr_eqb (updates (st s)) (addr_of (m_id u)) (enc_mem u) (max_tx (st s))) as H.
  cbn [updates set_updates carried fold_right]. unfold mx, max_tx in *. lia.
Qed.

Lemma tx_send_message dst msg : tx 0 (send_message rnd dst msg).
Proof.
  intros s. destruct (send_message_tx rnd dst msg s) as (C & new & O & R). split; [exact C|]. exists new. split; [exact O|].
  destruct (snd (send_message rnd dst msg s)).
  - destruct R as (b & -> & E). cbn [carried fold_right]. lia.
  - destruct R as (-> & U). rewrite U. cbn [carried fold_right]. lia.
  - destruct R as (-> & L). cbn [carried fold_right]. lia.
Qed.

Ltac tx0_step :=
  first
    [ apply tx_ret | apply tx_fail | apply tx_panic | apply tx_get | apply tx_num_sends | apply tx_ask | apply tx_with_ctr
    | apply tx_modify; intros ?; split; reflexivity
    | apply tx_emit; reflexivity
    | apply tx_when | apply tx_attempt
    | apply tx_bind0; [|intros ?]
    | progress cbv zeta
    | progress unfold estimate_feed_capacity, choose_active, add_custom,
        submit_periodic, become_connected, become_disconnected, become_undead, adjust_connection_state,
        handle_custom_broadcasts, reset
    | match goal with
      | |- tx _ (match ?x with _ => _ end) => destruct x
      | |- tx _ (if ?c then _ else _) => destruct c
      | |- tx _ (let '(_, _) := ?x in _) => destruct x
      end ].
Ltac tx0 := repeat tx0_step.

Lemma tx_custom_loop sender fuel : forall data, tx 0 (@custom_loop Id Addr HO fuel data sender).
Proof. induction fuel as [|fuel IH]; intros data; cbn [custom_loop]; tx0. apply IH. Qed.

Lemma tx_choose_and_send n msg : tx 0 (choose_and_send rnd n msg).
Proof.
  unfold choose_and_send. apply tx_bind0; [tx0|]. intros chosen.
  apply (tx_weaken (len (rev chosen) * 0)); [lia|]. apply tx_forM. intros x. apply tx_send_message.
Qed.
Lemma tx_gossip : tx 0 (gossip rnd).
Proof. unfold gossip. apply tx_bind0; [apply tx_get|]. intros f. apply tx_choose_and_send. Qed.

Lemma tx_hsum sm u b : tx 1 (@handle_apply_summary Id Addr IO CO HO sm u b).
Proof.
  unfold handle_apply_summary. replace 1 with (1 + 0) by lia. apply tx_bind.
  - apply tx_when. replace 1 with (1 + 0) by lia. apply tx_bind; [apply tx_when, tx_add_update|]. intros _. tx0.
  - intros _. tx0.
Qed.

Lemma tx_apply_update u b : tx 1 (apply_update rnd u b).
Proof.
  unfold apply_update. apply tx_bind0; [apply tx_get|]. intros f.
  destruct (id_eqb _ _); [apply (tx_weaken 0); [lia|apply tx_panic]|].
  apply tx_bind0; [apply tx_with_ctr|]. intros [ms sm].
  apply tx_bind0; [apply tx_modify; intros ?; split; reflexivity|]. intros _. cbv zeta.
  replace 1 with (1 + 0) by lia. apply tx_bind; [apply tx_hsum|]. intros _. apply tx_ret.
Qed.

Lemma tx_change_identity new_id : tx 1 (change_identity rnd new_id).
Proof.
  unfold change_identity. apply tx_bind0; [apply tx_get|]. intros f.
  destruct (id_eqb _ _); [apply (tx_weaken 0); [lia|apply tx_fail]|]. cbv zeta.
  apply tx_bind0; [apply tx_modify; intros ?; split; reflexivity|]. intros _.
  apply tx_bind0; [unfold reset; apply tx_modify; intros ?; split; reflexivity|]. intros _.
  replace 1 with (1 + 0) by lia. apply tx_bind; [apply tx_when, tx_add_update|]. intros _. apply tx_gossip.
Qed.

Lemma tx_attempt_rejoin : tx 1 (attempt_rejoin rnd).
Proof.
  unfold attempt_rejoin. apply tx_bind0; [apply tx_get|]. intros f.
  destruct (renew (identity f)) as [new_id|]; [|apply (tx_weaken 0); [lia|apply tx_ret]].
  destruct (id_eqb _ _); [apply (tx_weaken 0); [lia|apply tx_ret]|].
  destruct (negb _); [apply (tx_weaken 0); [lia|apply tx_ret]|].
  replace 1 with (1 + 0) by lia. apply tx_bind; [apply tx_change_identity|]. intros _. tx0.
Qed.

Lemma tx_handle_self_update inc st0 : tx 1 (handle_self_update rnd inc st0).
Proof.
  unfold handle_self_update. destruct st0.
  - apply (tx_weaken 0); [lia|apply tx_ret].
  - apply tx_bind0; [apply tx_get|]. intros f. cbv zeta. destruct (_ =? u16_max).
    + replace 1 with (1 + 0) by lia. apply tx_bind; [apply tx_attempt_rejoin|]. intros b. tx0.
    + apply (tx_weaken 0); [lia|]. apply tx_bind0; [apply tx_when, tx_modify; intros ?; split; reflexivity|]. intros _.
      apply tx_bind0; [apply tx_get|]. intros f1. apply tx_when, tx_gossip.
  - replace 1 with (1 + 0) by lia. apply tx_bind; [apply tx_attempt_rejoin|]. intros b. tx0.
Qed.

Lemma tx_apply_one b u : tx 1 (apply_one rnd b u).
Proof.
  unfold apply_one. apply tx_bind0; [apply tx_get|]. intros f.
  destruct (id_eqb _ _); [apply tx_handle_self_update|].
  destruct (addr_eqb _ _); (replace 1 with (1 + 0) by lia; apply tx_bind; [apply tx_apply_update|intros _; apply tx_ret]).
Qed.

Lemma tx_apply_many l b : tx (len l) (apply_many rnd l b).
Proof.
  unfold apply_many. replace (len l) with (len l * 1 + 0) by lia.
  apply tx_bind; [apply tx_forM; intros; apply tx_apply_one|]. intros _. tx0.
Qed.

Lemma tx_react src msg : tx 1 (react rnd src msg).
Proof.
  assert (S1 : forall d m, tx 1 (send_message rnd d m)) by (intros; apply (tx_weaken 0); [lia|apply tx_send_message]).
  assert (Z : forall (m : M unit), tx 0 m -> tx 1 m) by (intros m H; apply (tx_weaken 0); [lia|exact H]).
  unfold react. apply tx_bind0; [apply tx_get|]. intros f.
  destruct msg.
  - apply S1.
  - apply Z. tx0.
  - destruct (id_eqb _ _); [apply Z, tx_fail|apply S1].
  - destruct (id_eqb _ _); [apply Z, tx_fail|apply S1].
  - destruct (id_eqb _ _); [apply Z, tx_fail|apply S1].
  - destruct (id_eqb _ _); [apply Z, tx_fail|apply Z; tx0].
  - apply S1.
  - apply Z, tx_ret.
  - apply Z, tx_ret.
  - apply Z, tx_ret.
  - apply tx_handle_self_update.
Qed.

Lemma tx_after_header (h : header Id) (ul : list member) (tail : bytes) :
  tx (len ul + 2)
      (sender_is_active <- apply_update rnd (mkMember (h_src h) (h_src_inc h) Alive) true ;;
       if negb sender_is_active then
         f0 <- get ;;
         let already_undead := conn_eqb (conn f0) Undead in
         when (message_eqb id_eqb (h_msg h) TurnUndead) (handle_self_update rnd 0 Down) ;;;
         f <- get ;;
         let pointless := already_undead && message_eqb id_eqb (h_msg h) TurnUndead in
         when (notify_down_members (cfg f) && negb pointless) (send_message rnd (h_src h) TurnUndead)
       else
         apply_many rnd ul true ;;;
         cres <- attempt (handle_custom_broadcasts tail (Some (h_src h))) ;;
         f <- get ;;
         if negb (conn_eqb (conn f) Connected) then
           match cres with Some e => fail e | None => ret tt end
         else
           react rnd (h_src h) (h_msg h) ;;;
           match cres with Some e => fail e | None => ret tt end).
Proof.
  replace (len ul + 2) with (1 + (len ul + 1)) by lia.
  apply tx_bind; [apply tx_apply_update|]. intros sia. destruct (negb sia).
  - apply (tx_weaken 1); [lia|].
    apply tx_bind0; [apply tx_get|]. intros f0. cbv zeta.
    replace 1 with (1 + 0) by lia. apply tx_bind; [apply tx_when, tx_handle_self_update|]. intros _.
    apply tx_bind0; [apply tx_get|]. intros f1. apply tx_when, tx_send_message.
  - apply tx_bind; [apply tx_apply_many|]. intros _.
    apply tx_bind0; [apply tx_attempt; unfold handle_custom_broadcasts; tx0; apply tx_custom_loop|]. intros cres.
    apply tx_bind0; [apply tx_get|]. intros f1.
    destruct (negb (conn_eqb _ _)).
    + apply (tx_weaken 0); [lia|]. destruct cres; tx0.
    + replace 1 with (1 + 0) by lia. apply tx_bind; [apply tx_react|]. intros _. destruct cres; tx0.
Qed.

Theorem tx_handle_data (data : bytes) : tx (updates_in data + 2) (handle_data rnd data).
Proof.
  unfold handle_data, updates_in. apply tx_bind0; [apply tx_get|]. intros f.
  destruct (_ <? len data); [apply (tx_weaken 0); [lia|apply tx_fail]|].
  destruct (dec_hdr data) as [[h rest]|]; [|apply (tx_weaken 0); [lia|apply tx_fail]].
  destruct (_ || _); [apply (tx_weaken 0); [lia|apply tx_fail]|].
  destruct (_ || _); [apply (tx_weaken 0); [lia|apply tx_fail]|].
  destruct (negb (accept_payload _ _)); [apply (tx_weaken 0); [lia|apply tx_ret]|].
  destruct ((2 <=? len rest) && negb (message_eqb id_eqb (h_msg h) Broadcast)).
  - destruct (get_u16 rest) as [[n r]|].
    2:{ intros s. unfold txP, bind, fail. cbn [fst st out]. split; [reflexivity|]. exists []. split; [symmetry; apply app_nil_r|]. cbn [carried fold_right]. lia. }
    destruct (dec_members (N.to_nat n) r) as [[ul tail]|].
    2:{ intros s. unfold txP, bind, fail. cbn [fst st out]. split; [reflexivity|]. exists []. split; [symmetry; apply app_nil_r|]. cbn [carried fold_right]. lia. }
    apply tx_ret_bind. apply tx_after_header.
  - apply tx_ret_bind. apply (tx_weaken (len (@nil member) + 2)); [unfold len; cbn [length]; lia|]. apply tx_after_header.
Qed.

Lemma tx_feed_loop l : forall room count acc0, tx 0 (@feed_loop Id Addr CO HO l room count acc0).
Proof. induction l as [|m t IH]; intros room count acc0; cbn [feed_loop]; tx0. apply IH. Qed.

Lemma tx_indirect_loop probed l : tx 0 (indirect_loop rnd probed l).
Proof.
  unfold indirect_loop. apply (tx_weaken (len l * 0)); [lia|]. apply tx_forM. intros m.
  apply tx_bind0; [apply tx_get|]. intros f. destruct (probe_expect_indirect_ack _ _); [|apply tx_panic].
  apply tx_bind0; [apply tx_modify; intros ?; split; reflexivity|]. intros _. apply tx_send_message.
Qed.

Lemma tx_probe_random_member : tx 1 (probe_random_member rnd).
Proof.
  unfold probe_random_member. apply tx_bind0; [apply tx_get|]. intros f.
  destruct (negb _); [apply (tx_weaken 0); [lia|apply tx_panic]|]. cbv zeta.
  apply tx_bind0; [apply tx_when, tx_modify; intros ?; split; reflexivity|]. intros _.
  apply tx_bind0; [apply tx_get|]. intros f1. destruct (probe_take_failed (prb f1)) as [p' failed].
  apply tx_bind0; [apply tx_modify; intros ?; split; reflexivity|]. intros _.
  replace 1 with (1 + 0) by lia. apply tx_bind.
  { destruct failed as [fm|]; [|apply (tx_weaken 0); [lia|apply tx_ret]]. cbv zeta. apply tx_bind0; [apply tx_get|]. intros f2.
    destruct (apply_existing_if _ _ _) as [[ms sm]|]; [|apply (tx_weaken 0); [lia|apply tx_ret]].
    apply tx_bind0; [apply tx_modify; intros ?; split; reflexivity|]. intros _.
    replace 1 with (1 + 0) by lia. apply tx_bind; [apply tx_hsum|]. intros _. tx0. }
  intros _. apply tx_bind0; [apply tx_get|]. intros f2.
  apply tx_bind0; [apply tx_with_ctr|]. intros [ms chosen].
  apply tx_bind0; [apply tx_modify; intros ?; split; reflexivity|]. intros _.
  apply tx_bind0.
  { destruct chosen as [m|]; [|apply tx_ret]. apply tx_bind0; [apply tx_get|]. intros f4.
    destruct (probe_start (prb f4) m) as [p'0 n].
    apply tx_bind0; [apply tx_modify; intros ?; split; reflexivity|]. intros _.
    apply tx_bind0; [apply tx_send_message|]. intros _. tx0. }
  intros _. tx0.
Qed.

Definition timer_credit (t : timer Id) : N :=
  match t with TProbeRandomMember _ | TChangeSuspectToDown _ _ _ => 1 | _ => 0 end.

Lemma tx_handle_timer t : tx (timer_credit t) (handle_timer rnd t).
Proof.
  unfold handle_timer. apply tx_bind0; [apply tx_get|]. intros f.
  destruct t as [tok|probed tok|mid inc tok|tok|tok|tok|down]; cbn [timer_credit].
  - destruct (tok =? token f); [|apply (tx_weaken 0); [lia|apply tx_ret]].
    destruct (negb _); [apply (tx_weaken 0); [lia|apply tx_fail]|apply tx_probe_random_member].
  - destruct (negb (tok =? token f)); [apply tx_ret|].
    apply tx_bind0; [apply tx_modify; intros ?; split; reflexivity|]. intros _.
    destruct (negb (probe_is_probing _ _)); [apply tx_ret|].
    destruct (probe_succeeded _); [apply tx_ret|].
    destruct (negb (is_active_id _ _)); [apply tx_ret|].
    apply tx_bind0; [tx0|intros chosen; apply tx_indirect_loop].
  - destruct (negb (token f =? tok)); [apply (tx_weaken 0); [lia|apply tx_ret]|]. cbv zeta.
    destruct (apply_existing_if _ _ _) as [[ms sm]|]; [|apply (tx_weaken 0); [lia|apply tx_ret]].
    apply tx_bind0; [apply tx_modify; intros ?; split; reflexivity|]. intros _.
    replace 1 with (1 + 0) by lia. apply tx_bind; [apply tx_hsum|]. intros _.
    apply tx_bind0; [tx0|]. intros _. apply tx_when, tx_send_message.
  - unfold periodic_guard. destruct (_ && _); [|apply tx_ret]. destruct (periodic_announce (cfg f)) as [[freq n]|]; [|apply tx_ret].
    apply tx_bind0; [apply tx_emit; reflexivity|]. intros _. apply tx_choose_and_send.
  - unfold periodic_guard. destruct (_ && _); [|apply tx_ret]. destruct (periodic_announce_down (cfg f)) as [[freq n]|]; [|apply tx_ret].
    apply tx_bind0; [apply tx_emit; reflexivity|]. intros _.
    unfold announce_to_down. apply tx_bind0; [apply tx_get|]. intros f1.
    apply tx_bind0; [apply tx_with_ctr|]. intros chosen.
    apply (tx_weaken (len (rev chosen) * 0)); [lia|]. apply tx_forM. intros x. apply tx_send_message.
  - unfold periodic_guard. destruct (_ && _); [|apply tx_ret]. destruct (periodic_gossip (cfg f)) as [[freq n]|]; [|apply tx_ret].
    apply tx_bind0; [apply tx_emit; reflexivity|]. intros _.
    destruct (updates f), (customs f); try apply tx_ret; apply tx_choose_and_send.
  - apply tx_modify. intros ?. split; reflexivity.
Qed.

Lemma tx_broadcast_loop l : tx 0 (broadcast_loop rnd l).
Proof.
  induction l as [|m t IH]; cbn [broadcast_loop]; [apply tx_ret|].
  apply tx_bind0; [apply tx_send_message|]. intros _. apply tx_bind0; [apply tx_get|]. intros f.
  destruct (customs f); [apply tx_ret|exact IH].
Qed.

(* the updates a call may accept *)
Definition credit (i : @input Id) : N :=
  match i with
  | IData b => updates_in b + 2
  | ITimer t => timer_credit t
  | IApplyMany l _ => len l
  | ILeave | IChangeIdentity _ => 1
  | _ => 0
  end.

(* ONE CALL: what the backlog still owes afterwards plus what the call's datagrams carried is at most
   what it owed before plus max_transmissions for each update the call may have accepted *)
Theorem step_ledger (f : foca) (i : @input Id) :
  let '(f', es, _, _) := step rnd f i in
  total (updates f') + carried es <= total (updates f) + max_transmissions (cfg f) * credit i.
Proof.
  assert (RU : forall A (m : M unit), tx A m ->
            let '(f', es, _, _) := run_unit m f in total (updates f') + carried es <= total (updates f) + max_transmissions (cfg f) * A).
  { intros A m H. destruct (H (mkRs f [] 0)) as (_ & new & O & I). unfold run_unit.
    destruct (m (mkRs f [] 0)) as [s' r]. cbn [fst st out mx app] in *. rewrite O. exact I. }
  destruct i; cbn [step credit].
  - apply RU, tx_handle_data.
  - apply RU, tx_handle_timer.
  - apply RU, tx_apply_many.
  - apply RU, tx_send_message.
  - apply RU, tx_gossip.
  - apply RU. unfold broadcast. apply tx_bind0; [apply tx_get|]. intros f0. destruct (customs f0); [apply tx_ret|].
    apply tx_bind0; [tx0|]. intros chosen. apply tx_broadcast_loop.
  - apply RU. unfold leave_cluster. apply tx_bind0; [apply tx_get|]. intros f0.
    replace 1 with (1 + 0) by lia. apply tx_bind; [apply tx_add_update|]. intros _.
    apply tx_bind0; [apply tx_gossip|]. intros _. tx0.
  - apply RU, tx_change_identity.
  - apply RU. unfold reuse_down_identity. tx0.
  - (* set_config: nothing sent, the backlog untouched *)
    change (run_unit (set_config c) f) with (step rnd f (ISetConfig c)). rewrite set_config_effect.
    destruct (config_refused (cfg f) c); [cbn [carried fold_right]; lia|].
    destruct (negb _); cbn [updates set_cfg set_send_cap carried fold_right]; lia.
  - assert (G : tx 0 (@add_broadcast Id Addr HO b)).
    { unfold add_broadcast. tx0. }
    destruct (G (mkRs f [] 0)) as (_ & new & O & I). unfold run_bool.
    destruct (add_broadcast b (mkRs f [] 0)) as [s' r]. cbn [fst st out mx app] in *. rewrite O. exact I.
Qed.

(* A HISTORY: credits are counted at the state each call starts from (set_config may change
   max_transmissions) *)
Fixpoint carried_hist (f : foca) (l : list (@input Id)) : N :=
  match l with
  | [] => 0
  | i :: t => carried (snd (fst (fst (step rnd f i)))) + carried_hist (fst (fst (fst (step rnd f i)))) t
  end.
Fixpoint credit_hist (f : foca) (l : list (@input Id)) : N :=
  match l with
  | [] => 0
  | i :: t => max_transmissions (cfg f) * credit i + credit_hist (fst (fst (fst (step rnd f i)))) t
  end.

Theorem history_ledger (l : list (@input Id)) : forall f,
  total (updates (run_calls rnd f l)) + carried_hist f l <= total (updates f) + credit_hist f l.
Proof.
  induction l as [|i t IH]; intros f; cbn [run_calls carried_hist credit_hist]; [lia|].
  pose proof (step_ledger f i) as S. specialize (IH (fst (fst (fst (step rnd f i))))).
  destruct (step rnd f i) as [[[f' es] r] k]. cbn [fst snd] in *. lia.
Qed.

(* from a fresh instance nothing is owed: every transmission is paid for by an acceptance *)
Corollary fresh_history_ledger (id0 : Id) (c0 : config) (h0 : hstate) (l : list (@input Id)) :
  carried_hist (@foca_init Id Addr HO id0 c0 h0) l <= credit_hist (@foca_init Id Addr HO id0 c0 h0) l.
Proof. pose proof (history_ledger l (@foca_init Id Addr HO id0 c0 h0)) as H. cbn [foca_init updates total fold_right] in H. lia. Qed.

End TxPass.
