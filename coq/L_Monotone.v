(* L_Monotone.v — C01 / C09 / C11 along every call: membership knowledge never moves backward.
   For every call of the model other than the forget-timer (RemoveDown), every address with a record
   keeps one, and the new record is at least the old one in the SWIM precedence order (mle: same
   identity with a higher key, or an identity that wins the address conflict).  Hence, over any
   history: a Down record stays Down until forgotten or superseded by a winning identity, and the
   identity stored for an address only moves forward. *)
From Coq Require Import Permutation.
From Foca Require Import Laws L_Lists MembersM ProbeM BcastM FocaM L_Members L_MembersInv Hoare Inv L_RoundRobin L_Evidence.

Section Monotone.
Context {Id Addr : Type} {IO : IdOps Id Addr} {CO : CodecOps Id} {HO : HandlerOps Id} {IL : IdLaws IO}.
Variable rnd : oracle.
Notation member := (member Id).
Notation foca := (@foca Id Addr HO).
Notation rs := (@rs Id Addr HO).
Notation M := (@M Id Addr HO).
Notation "x <- m ;; f" := (bind m (fun x => f)) (at level 61, m at next level, right associativity).
Notation "m ;;; f" := (bind m (fun _ => f)) (at level 61, right associativity).

(* ms' knows at least what ms knows *)
Definition grew (ms ms' : @members Id) : Prop :=
  forall a k, view ms a = Some k -> exists k', view ms' a = Some k' /\ mle k k'.

Lemma grew_refl ms : grew ms ms.
Proof. intros a k H. exists k. split; [exact H|apply mle_refl]. Qed.
Lemma grew_trans m1 m2 m3 : grew m1 m2 -> grew m2 m3 -> grew m1 m3.
Proof.
  intros H1 H2 a k V. destruct (H1 a k V) as (k1 & V1 & L1). destruct (H2 a k1 V1) as (k2 & V2 & L2).
  exists k2. split; [exact V2|].
  unfold view in *. apply lookup_Some_In in V. apply lookup_Some_In in V1. apply lookup_Some_In in V2.
  apply (mle_trans k k1 k2); try tauto; destruct V, V1, V2; congruence.
Qed.
Lemma grew_perm ms ms' : uniq (inner ms) -> Permutation (inner ms') (inner ms) -> grew ms ms'.
Proof.
  intros U P a k V. exists k. split; [|apply mle_refl]. unfold view in *.
  rewrite <- V. symmetry. apply lookup_perm; [exact U|symmetry; exact P].
Qed.

Definition UQ (s : rs) : Prop := uniq (inner (mems (st s))).
Definition vmP {X} (m : M X) (s : rs) : Prop :=
  UQ s -> UQ (fst (m s)) /\ grew (mems (st s)) (mems (st (fst (m s)))).
Definition vm {X} (m : M X) : Prop := forall s, vmP m s.

Lemma vmP_bind {X Y} (m : M X) (k : X -> M Y) (s : rs) : vmP m s -> (forall a, vm (k a)) -> vmP (bind m k) s.
Proof.
  intros Hm Hk U. destruct (Hm U) as [U1 G1]. unfold bind.
  destruct (m s) as [s1 [a|e|p]]; cbn [fst] in *; auto.
  destruct (Hk a s1 U1) as [U2 G2]. split; [exact U2|eapply grew_trans; eauto].
Qed.
Lemma vm_bind {X Y} (m : M X) (k : X -> M Y) : vm m -> (forall a, vm (k a)) -> vm (bind m k).
Proof. intros Hm Hk s. apply vmP_bind; [apply Hm|exact Hk]. Qed.
Lemma vm_same {X} (m : M X) : (forall s, mems (st (fst (m s))) = mems (st s)) -> vm m.
Proof. intros H s U. unfold UQ in *. rewrite H. split; [exact U|apply grew_refl]. Qed.
Lemma vm_ret {X} (x : X) : vm (@ret Id Addr HO X x). Proof. apply vm_same. reflexivity. Qed.
Lemma vm_fail {X} e : vm (@fail Id Addr HO X e). Proof. apply vm_same. reflexivity. Qed.
Lemma vm_panic {X} p : vm (@panic Id Addr HO X p). Proof. apply vm_same. reflexivity. Qed.
Lemma vm_get : vm (@get Id Addr HO). Proof. apply vm_same. reflexivity. Qed.
Lemma vm_num_sends : vm (@num_sends Id Addr HO). Proof. apply vm_same. reflexivity. Qed.
Lemma vm_emit e : vm (@emit Id Addr HO e). Proof. apply vm_same. reflexivity. Qed.
Lemma vm_ask r : vm (ask rnd r). Proof. apply vm_same. reflexivity. Qed.
Lemma vm_with_ctr {X} (g : N -> X * N) : vm (with_ctr g).
Proof. apply vm_same. intros s. unfold with_ctr. destruct (g (ctr s)). reflexivity. Qed.
Lemma vm_modify g : (forall f, mems (g f) = mems f) -> vm (@modify Id Addr HO g).
Proof. intros H. apply vm_same. intros s. cbn. apply H. Qed.
Lemma vm_when b (m : M unit) : vm m -> vm (when b m).
Proof. destruct b; cbn; auto. intros _. apply vm_ret. Qed.
Lemma vm_forM {X} (l : list X) (k : X -> M unit) : (forall x, vm (k x)) -> vm (forM_ l k).
Proof. intros H. induction l as [|x t IH]; cbn [forM_]; [apply vm_ret|]. apply vm_bind; auto. Qed.
Lemma vm_attempt (m : M unit) : vm m -> vm (attempt m).
Proof. intros H s. specialize (H s). unfold vmP in *. unfold attempt. destruct (m s) as [s1 [x|e|p]]; auto. Qed.
Lemma vm_get_bind {X} (k : foca -> M X) : (forall s, vmP (k (st s)) s) -> vm (f <- get ;; k f).
Proof. intros H s. unfold vmP, bind, get. apply H. Qed.

(* setting the member list to something that grew *)
Lemma vmP_set_mems (ms : @members Id) (s : rs) :
  (uniq (inner (mems (st s))) -> uniq (inner ms) /\ grew (mems (st s)) ms) ->
  vmP (modify (fun f => set_mems f ms)) s.
Proof. intros H U. cbn. exact (H U). Qed.

(* apply_existing_if with an arbitrary condition: unchanged, or as with the trivial condition *)
Lemma apply_existing_if_cond (ms : @members Id) u cond ms' sm :
  apply_existing_if ms u cond = Some (ms', sm) ->
  ms' = ms \/ exists sm', apply_existing_if ms u (fun _ => true) = Some (ms', sm').
Proof.
  unfold apply_existing_if. destruct (find_index _ (inner ms)) as [p|]; [|discriminate].
  destruct (nth_error (inner ms) p) as [known|]; [|discriminate].
  destruct (negb (id_eqb (m_id known) (m_id u)) && wins (m_id known) (m_id u)).
  - intros E. inversion E. left. reflexivity.
  - destruct (cond known); cbn [negb].
    + intros E. right. eexists. exact E.
    + intros E. inversion E. left. reflexivity.
Qed.

Lemma grew_existing (ms ms' : @members Id) u cond sm :
  uniq (inner ms) -> apply_existing_if ms u cond = Some (ms', sm) -> uniq (inner ms') /\ grew ms ms'.
Proof.
  intros U E. destruct (apply_existing_if_cond ms u cond ms' sm E) as [->|[sm' E']].
  - split; [exact U|apply grew_refl].
  - pose proof (apply_existing_if_true_spec ms u U) as S. rewrite E' in S.
    destruct S as (k0 & Hk & U' & Hl & _). split; [exact U'|].
    intros a k V. unfold view in *. rewrite Hl. destruct (addr_eqb (maddr u) a) eqn:Ea.
    + apply addr_eqb_eq in Ea. subst a. rewrite Hk in V. inversion V; subst k0.
      exists (rjoin k u). split; [reflexivity|apply rjoin_ge_l].
    + exists k. split; [exact V|apply mle_refl].
Qed.

Lemma grew_apply (ms : @members Id) u n :
  uniq (inner ms) ->
  uniq (inner (fst (fst (members_apply rnd ms u n)))) /\ grew ms (fst (fst (members_apply rnd ms u n))).
Proof.
  intros U. destruct (members_apply_spec rnd ms u n U) as [U' Hv]. split; [exact U'|].
  intros a k V. rewrite Hv. destruct (addr_eqb (maddr u) a) eqn:Ea.
  - apply addr_eqb_eq in Ea. subst a. rewrite V. cbn [ojoin]. exists (rjoin k u). split; [reflexivity|apply rjoin_ge_l].
  - exists k. split; [exact V|apply mle_refl].
Qed.

Ltac vm_step :=
  first
    [ apply vm_ret | apply vm_fail | apply vm_panic | apply vm_get | apply vm_num_sends
    | apply vm_emit | apply vm_ask | apply vm_with_ctr
    | apply vm_modify; intros ?; reflexivity
    | apply vm_when | apply vm_attempt
    | apply vm_forM; intros ?; cbv beta
    | apply vm_bind; [|intros ?]
    | progress cbv zeta
    | progress unfold send_message, send_body, send_customs, estimate_feed_capacity, choose_active, choose_and_send,
        gossip, announce_to_down, add_update, add_custom, handle_apply_summary, submit_periodic,
        become_connected, become_disconnected, become_undead, adjust_connection_state, reset,
        handle_custom_broadcasts, change_identity, attempt_rejoin, handle_self_update,
        leave_cluster, broadcast, reuse_down_identity, add_broadcast, periodic_guard
    | match goal with
      | |- vm (match ?x with _ => _ end) => destruct x
      | |- vm (if ?c then _ else _) => destruct c
      | |- vm (let '(_, _) := ?x in _) => destruct x
      end ].
Ltac vm_auto := repeat vm_step.

Lemma vm_feed_loop l : forall room count acc0, vm (@feed_loop Id Addr CO HO l room count acc0).
Proof. induction l as [|m t IH]; intros room count acc0; cbn [feed_loop]; vm_auto. apply IH. Qed.
Lemma vm_custom_loop sender fuel : forall data, vm (@custom_loop Id Addr HO fuel data sender).
Proof. induction fuel as [|fuel IH]; intros data; cbn [custom_loop]; vm_auto. apply IH. Qed.
Lemma vm_broadcast_loop l : vm (broadcast_loop rnd l).
Proof. induction l as [|m t IH]; cbn [broadcast_loop]; vm_auto; first [apply vm_feed_loop|apply IH]. Qed.
Lemma vm_send_message dst msg : vm (send_message rnd dst msg).
Proof. vm_auto; apply vm_feed_loop. Qed.
Lemma vm_hsum sm u b : vm (@handle_apply_summary Id Addr IO CO HO sm u b).
Proof. vm_auto. Qed.
Lemma vm_gossip : vm (gossip rnd).
Proof. vm_auto; apply vm_feed_loop. Qed.

Lemma vm_apply_update u b : vm (apply_update rnd u b).
Proof.
  unfold apply_update. apply vm_get_bind. intros s.
  destruct (id_eqb (identity (st s)) (m_id u)); [apply vm_panic|].
  destruct (members_apply rnd (mems (st s)) u (ctr s)) as [[ms sm] k'] eqn:MA.
  set (s0 := mkRs (st s) (out s) k').
  set (rest := (modify (fun f => set_mems f ms) ;;; handle_apply_summary sm u b ;;;
                ret (match s_conflict sm with Lost | FailedCondition => false | _ => is_active_now sm end)) : M bool).
  assert (E : (r <- with_ctr (fun k => let '(ms, s, k') := members_apply rnd (mems (st s)) u k in ((ms, s), k')) ;;
               let '(ms, s) := r in
               modify (fun f => set_mems f ms) ;;;
               handle_apply_summary s u b ;;;
               ret (match s_conflict s with Lost | FailedCondition => false | _ => is_active_now s end)) s = rest s0).
  { unfold bind at 1, with_ctr at 1. rewrite MA. reflexivity. }
  unfold vmP. rewrite E. intros U.
  assert (V : vmP rest s0).
  { subst rest. apply vmP_bind.
    - apply vmP_set_mems. intros U0. cbn [st s0] in U0.
      pose proof (grew_apply (mems (st s)) u (ctr s) U0) as [U' G']. rewrite MA in U', G'. cbn [fst] in U', G'. split; assumption.
    - intros _. apply vm_bind; [apply vm_hsum|]. intros _. apply vm_ret. }
  exact (V U).
Qed.

Lemma vm_handle_self_update inc st0 : vm (handle_self_update rnd inc st0).
Proof. vm_auto; apply vm_feed_loop. Qed.
Lemma vm_apply_one b u : vm (apply_one rnd b u).
Proof.
  unfold apply_one. apply vm_bind; [apply vm_get|]. intros f.
  destruct (id_eqb _ _); [apply vm_handle_self_update|].
  destruct (addr_eqb _ _); (apply vm_bind; [apply vm_apply_update|intros _; apply vm_ret]).
Qed.
Lemma vm_apply_many l b : vm (apply_many rnd l b).
Proof. unfold apply_many. apply vm_bind; [apply vm_forM; intros u; apply vm_apply_one|]. intros _. vm_auto. Qed.
Lemma vm_react src msg : vm (react rnd src msg).
Proof.
  unfold react. apply vm_bind; [apply vm_get|]. intros f.
  destruct msg; try (vm_auto; apply vm_feed_loop); try apply vm_handle_self_update; vm_auto.
Qed.

Lemma vm_handle_data data : vm (handle_data rnd data).
Proof.
  unfold handle_data. apply vm_bind; [apply vm_get|]. intros f.
  destruct (_ <? _); [apply vm_fail|].
  destruct (dec_hdr data) as [[h rest]|]; [|apply vm_fail].
  destruct (_ || _); [apply vm_fail|]. cbv zeta.
  destruct (_ || _); [apply vm_fail|].
  destruct (negb (accept_payload f h)); [apply vm_ret|].
  apply vm_bind.
  { destruct (_ && _); [|apply vm_ret]. destruct (get_u16 rest) as [[n r]|]; [|apply vm_fail].
    destruct (dec_members _ _); [apply vm_ret|apply vm_fail]. }
  intros [ul tail].
  apply vm_bind; [apply vm_apply_update|]. intros active.
  destruct (negb active).
  - apply vm_bind; [apply vm_get|]. intros f0. cbv zeta.
    apply vm_bind; [apply vm_when, vm_handle_self_update|]. intros _.
    apply vm_bind; [apply vm_get|]. intros f1. apply vm_when, vm_send_message.
  - apply vm_bind; [apply vm_apply_many|]. intros _.
    apply vm_bind.
    { apply vm_attempt. unfold handle_custom_broadcasts. vm_auto; apply vm_custom_loop. }
    intros cres. apply vm_bind; [apply vm_get|]. intros f1.
    destruct (negb _); [destruct cres; [apply vm_fail|apply vm_ret]|].
    apply vm_bind; [apply vm_react|]. intros _. destruct cres; [apply vm_fail|apply vm_ret].
Qed.

Lemma vmP_with_ctr_bind {X Y} (g : N -> X * N) (k : X -> M Y) (s : rs) :
  vmP (k (fst (g (ctr s)))) (mkRs (st s) (out s) (snd (g (ctr s)))) -> vmP (x <- with_ctr g ;; k x) s.
Proof. unfold vmP, bind, with_ctr. destruct (g (ctr s)) as [x k']. cbn [fst snd]. auto. Qed.

Lemma vm_indirect_loop probed l : vm (indirect_loop rnd probed l).
Proof.
  unfold indirect_loop. apply vm_forM. intros m. apply vm_bind; [apply vm_get|]. intros f.
  destruct (probe_expect_indirect_ack _ _); [|apply vm_panic].
  apply vm_bind; [apply vm_modify; intros ?; reflexivity|]. intros _. apply vm_send_message.
Qed.

Lemma vm_probe_random_member : vm (probe_random_member rnd).
Proof.
  unfold probe_random_member. apply vm_bind; [apply vm_get|]. intros f.
  destruct (negb _); [apply vm_panic|]. cbv zeta.
  apply vm_bind; [apply vm_when, vm_modify; intros ?; reflexivity|]. intros _.
  apply vm_bind; [apply vm_get|]. intros f1. destruct (probe_take_failed (prb f1)) as [p' failed].
  apply vm_bind; [apply vm_modify; intros ?; reflexivity|]. intros _.
  apply vm_bind.
  { destruct failed as [fm|]; [|apply vm_ret]. cbv zeta. apply vm_get_bind. intros s.
    destruct (apply_existing_if (mems (st s)) _ _) as [[ms sm]|] eqn:AE; [|apply vm_ret].
    apply vmP_bind; [apply vmP_set_mems; intros U; exact (grew_existing _ _ _ _ _ U AE)|]. intros _.
    apply vm_bind; [apply vm_hsum|]. intros _. apply vm_bind; [apply vm_get|]. intros f3. apply vm_when, vm_emit. }
  intros _. apply vm_get_bind. intros s. apply vmP_with_ctr_bind.
  pose proof (members_next_perm rnd (mems (st s)) (ctr s)) as MP.
  destruct (members_next rnd (mems (st s)) (ctr s)) as [[ms chosen] k']. cbn [fst snd] in *.
  apply vmP_bind.
  { apply vmP_set_mems. cbn [st]. intros U. split; [eapply uniq_perm; [symmetry; exact MP|exact U]|apply grew_perm; assumption]. }
  intros _. apply vm_bind.
  { destruct chosen as [m|]; [|apply vm_ret]. apply vm_bind; [apply vm_get|]. intros f4.
    destruct (probe_start (prb f4) m) as [p'0 n].
    apply vm_bind; [apply vm_modify; intros ?; reflexivity|]. intros _.
    apply vm_bind; [apply vm_send_message|]. intros _. apply vm_bind; [apply vm_get|]. intros f5. apply vm_emit. }
  intros _. apply vm_bind; [apply vm_get|]. intros f4. apply vm_bind; [apply vm_emit|]. intros _.
  destruct (negb _); [apply vm_fail|apply vm_ret].
Qed.

(* every timer but the forget-timer *)
Lemma vm_handle_timer t : (forall x, t <> TRemoveDown x) -> vm (handle_timer rnd t).
Proof.
  intros NR. unfold handle_timer.
  destruct t as [tok|probed tok|mid inc tok|tok|tok|tok|down].
  - apply vm_bind; [apply vm_get|]. intros f. destruct (tok =? token f); [|apply vm_ret].
    destruct (negb _); [apply vm_fail|apply vm_probe_random_member].
  - apply vm_bind; [apply vm_get|]. intros f. destruct (negb (tok =? token f)); [apply vm_ret|].
    apply vm_bind; [apply vm_modify; intros ?; reflexivity|]. intros _.
    destruct (negb (probe_is_probing _ _)); [apply vm_ret|].
    destruct (probe_succeeded _); [apply vm_ret|].
    destruct (negb (is_active_id _ _)); [apply vm_ret|].
    apply vm_bind; [vm_auto|intros chosen; apply vm_indirect_loop].
  - apply vm_get_bind. intros s. destruct (negb (token (st s) =? tok)); [apply vm_ret|]. cbv zeta.
    destruct (apply_existing_if (mems (st s)) _ _) as [[ms sm]|] eqn:AE; [|apply vm_ret].
    apply vmP_bind; [apply vmP_set_mems; intros U; exact (grew_existing _ _ _ _ _ U AE)|]. intros _.
    apply vm_bind; [apply vm_hsum|]. intros _. apply vm_bind; [vm_auto|]. intros _. apply vm_when, vm_send_message.
  - apply vm_bind; [apply vm_get|]. intros f. vm_auto; apply vm_feed_loop.
  - apply vm_bind; [apply vm_get|]. intros f. vm_auto; apply vm_feed_loop.
  - apply vm_bind; [apply vm_get|]. intros f. vm_auto; apply vm_feed_loop.
  - exfalso. exact (NR down eq_refl).
Qed.

(* ONE CALL other than the forget-timer: one record per address is kept and no record moves backward *)
Theorem step_knowledge_monotone (f : foca) (i : @input Id) :
  match i with ITimer (TRemoveDown _) => False | _ => True end ->
  uniq (inner (mems f)) ->
  let f' := fst (fst (fst (step rnd f i))) in
  uniq (inner (mems f')) /\ grew (mems f) (mems f').
Proof.
  intros NR U. cbv zeta.
  assert (RU : forall (m : M unit), vm m ->
            uniq (inner (mems (fst (fst (fst (run_unit m f)))))) /\ grew (mems f) (mems (fst (fst (fst (run_unit m f)))))).
  { intros m Hm. specialize (Hm (mkRs f [] 0) U). unfold run_unit. destruct (m (mkRs f [] 0)) as [s' r]. exact Hm. }
  destruct i; cbn [step].
  - apply RU, vm_handle_data.
  - apply RU, vm_handle_timer. intros x E. subst t. exact NR.
  - apply RU, vm_apply_many.
  - apply RU, vm_send_message.
  - apply RU, vm_gossip.
  - apply RU. vm_auto; first [apply vm_broadcast_loop|apply vm_feed_loop].
  - apply RU. vm_auto; apply vm_feed_loop.
  - apply RU. vm_auto; apply vm_feed_loop.
  - apply RU. vm_auto.
  - apply RU. unfold set_config. vm_auto.
  - assert (G : vm (@add_broadcast Id Addr HO b)) by vm_auto.
    specialize (G (mkRs f [] 0) U). unfold run_bool. destruct (add_broadcast b (mkRs f [] 0)) as [s' r]. exact G.
Qed.

(* what the order means for a record: same identity, never back from Down, never to a lower key;
   or another identity that wins the address *)
Lemma mle_down_final (k k' : member) :
  maddr k = maddr k' -> mle k k' -> m_state k = Down ->
  (m_id k' = m_id k /\ m_state k' = Down) \/ wins (m_id k') (m_id k) = true.
Proof.
  intros Ea L D. destruct (id_eq_dec (m_id k') (m_id k)) as [E|NE].
  - left. split; [exact E|]. unfold mle, mlt in L.
    destruct (m_state k') eqn:S'; auto; exfalso; apply L; right; (split; [exact E|]);
      unfold key_lt, key, key_of; rewrite D, S'; exact I.
  - right. unfold maddr in Ea. destruct (wins_total (m_id k') (m_id k)) as [W|W]; [congruence|exact NE|exact W|].
    exfalso. apply L. left. exact W.
Qed.

Lemma mle_forward (k k' : member) :
  maddr k = maddr k' -> mle k k' -> m_id k' = m_id k \/ wins (m_id k') (m_id k) = true.
Proof.
  intros Ea L. destruct (id_eq_dec (m_id k') (m_id k)) as [E|NE]; [left; exact E|right].
  unfold maddr in Ea. destruct (wins_total (m_id k') (m_id k)) as [W|W]; [congruence|exact NE|exact W|].
  exfalso. apply L. left. exact W.
Qed.

(* any history without forget-timers *)
Fixpoint no_forget (l : list (@input Id)) : Prop :=
  match l with
  | [] => True
  | ITimer (TRemoveDown _) :: _ => False
  | _ :: t => no_forget t
  end.

Theorem history_knowledge_monotone (l : list (@input Id)) : forall f,
  no_forget l -> uniq (inner (mems f)) ->
  uniq (inner (mems (run_calls rnd f l))) /\ grew (mems f) (mems (run_calls rnd f l)).
Proof.
  induction l as [|i t IH]; intros f NF U; cbn [run_calls].
  - split; [exact U|apply grew_refl].
  - assert (NR : match i with ITimer (TRemoveDown _) => False | _ => True end /\ no_forget t).
    { destruct i as [| t0 | | | | | | | | | ]; try (cbn in NF; split; [exact I|exact NF]).
      destruct t0; cbn in NF; try (split; [exact I|exact NF]); contradiction. }
    destruct NR as [NR NF']. destruct (step_knowledge_monotone f i NR U) as [U1 G1].
    destruct (IH _ NF' U1) as [U2 G2]. split; [exact U2|eapply grew_trans; eauto].
Qed.

(* Down is final until forgotten, identities only move forward - along any such history *)
Theorem history_down_final (l : list (@input Id)) (f : foca) (a : Addr) (k : member) :
  no_forget l -> uniq (inner (mems f)) -> view (mems f) a = Some k ->
  exists k', view (mems (run_calls rnd f l)) a = Some k'
    /\ (m_id k' = m_id k \/ wins (m_id k') (m_id k) = true)
    /\ (m_state k = Down -> (m_id k' = m_id k /\ m_state k' = Down) \/ wins (m_id k') (m_id k) = true).
Proof.
  intros NF U V. destruct (history_knowledge_monotone l f NF U) as [_ G].
  destruct (G a k V) as (k' & V' & L). exists k'. split; [exact V'|].
  assert (Ea : maddr k = maddr k').
  { unfold view in *. apply lookup_Some_In in V. apply lookup_Some_In in V'. destruct V, V'. congruence. }
  split; [apply mle_forward; assumption|intros D; apply mle_down_final; assumption].
Qed.

End Monotone.
