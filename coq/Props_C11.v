(* Props_C11.v — C11: suspicion timeout takes effect iff unrefuted; Down is final until forgotten. *)
From Foca Require Import L_TimeoutLast L_Evidence L_Monotone L_Epoch Concrete ProbeM.
From Foca Require Import Laws L_Lists MembersM FocaM L_Members L_MembersInv L_Join L_Forward L_Reject L_Timeout.
From Coq Require Import Permutation.
From Foca Require Props_C12.

Section C11.
Context {Id Addr : Type} {IO : IdOps Id Addr} {CO : CodecOps Id} {HO : HandlerOps Id}.
Context {IL : IdLaws IO}.

(* stale connection epoch: nothing at all happens *)
Theorem C11_stale_epoch_noop (rnd : oracle) (f : @foca Id Addr HO) (x : Id) (inc tok : N) :
  tok <> token f -> step rnd f (timeout x inc tok) = (f, [], Done, 0).
Proof.
  exact (fun H => reject_noop rnd f _ _ (Rj_stale_timer f (TChangeSuspectToDown x inc tok) tok eq_refl H)).
Qed.

(* cancelled (address forgotten, identity superseded by one that wins, incarnation changed,
   or already Down): no state change, no datagram, no notification, whatever the token *)
Theorem C11_cancelled_noop (rnd : oracle) (f : @foca Id Addr HO) (x : Id) (inc tok : N) :
  conn_consistent f -> cancelled f x inc ->
  step rnd f (timeout x inc tok) = (f, [], Done, 0).
Proof. exact (timeout_cancelled_noop rnd f x inc tok). Qed.

(* unrefuted: the record becomes Down at that incarnation, MemberDown is notified, the Down
   update enters the backlog with max_transmissions, forgetting is scheduled after
   remove_down_after, TurnUndead goes to the member iff notify_down_members - and nothing else *)
Theorem C11_effective (rnd : oracle) (f : @foca Id Addr HO) (x : Id) (inc : N) (k : member Id) :
  lookup (inner (mems f)) (addr_of x) = Some k ->
  m_id k = x -> m_inc k = inc -> m_active k = true ->
  conn f = Connected -> 1 < num_active (mems f) ->
  send_cap f = max_packet_size (cfg f) -> header_fits f ->
  exists ms',
    step rnd f (timeout x inc (token f)) =
    (set_updates (set_mems f ms')
       (add_or_replace Addr addr_eqb (updates f) (addr_of x) (enc_mem (mkMember x inc Down)) (max_transmissions (cfg f))),
     [Submit (TRemoveDown x) (remove_down_after (cfg f)); Notify (NMemberDown x)]
       ++ (if notify_down_members (cfg f)
           then [Send x (enc_hdr (mkHeader (identity f) (incarnation f) x TurnUndead))] else []),
     Done, 0)
    /\ num_active ms' = num_active (mems f) - 1
    /\ exists p, nth_error (inner (mems f)) p = Some k /\
                 inner ms' = set_nth p (mkMember x inc Down) (inner (mems f)).
Proof. exact (timeout_effective rnd f x inc k). Qed.

(* Down is final: no update ever changes a Down record except a newer identity that wins *)
Theorem C11_down_final (rnd : oracle) (l : list (member Id)) (ms : @members Id) (n : N) (a : Addr) (k k' : member Id) :
  uniq (inner ms) -> view ms a = Some k -> m_state k = Down ->
  view (fst (apply_list rnd ms l n)) a = Some k' ->
  (m_id k' = m_id k /\ m_state k' = Down) \/ wins (m_id k') (m_id k) = true.
Proof. exact (down_final rnd l ms n a k k'). Qed.

(* FORGETTING: the forget-timer of identity x does nothing but remove a record, and only one that
   is exactly (x, Down): every other record - in particular a Down record of a newer identity of the
   same address - stays; with no such record the timer has no effect at all *)
Theorem C11_forget_exact (rnd : oracle) (f : @foca Id Addr HO) (x : Id) :
  step rnd f (ITimer (TRemoveDown x)) = (set_mems f (fst (remove_if_down (mems f) x)), [], Done, 0)
  /\ ((exists r, m_id r = x /\ m_state r = Down
                 /\ Permutation (r :: inner (fst (remove_if_down (mems f) x))) (inner (mems f)))
      \/ (fst (remove_if_down (mems f) x) = mems f
          /\ forall r, In r (inner (mems f)) -> ~ (m_id r = x /\ m_state r = Down))).
Proof.
  split; [reflexivity|]. unfold remove_if_down.
  destruct (find_index _ (inner (mems f))) as [p|] eqn:F; cbn [fst].
  - left. destruct (find_index_Some _ _ _ F) as (r & Hr & Pr & _).
    apply andb_true_iff in Pr. destruct Pr as [P1 P2]. exists r. split; [apply id_eqb_eq; exact P1|].
    split; [destruct (m_state r); cbn in P2; congruence|]. cbn [inner]. apply swap_remove_perm. exact Hr.
  - right. split; [reflexivity|]. intros r Hin [E1 E2].
    pose proof (proj1 (find_index_None _ _) F r Hin) as N. cbn in N.
    rewrite E1, E2 in N. rewrite (proj2 (id_eqb_eq x x) eq_refl) in N. cbn in N. discriminate.
Qed.

(* the remaining effective case: the timeout of the LAST active member.  The record becomes Down
   exactly as above and the instance goes Idle: epoch bumped, probe cleared, Idle notified after
   MemberDown, the courtesy TurnUndead still sent *)
Theorem C11_effective_last_member (rnd : oracle) (f : @foca Id Addr HO) (x : Id) (inc : N) (k : member Id) :
  lookup (inner (mems f)) (addr_of x) = Some k ->
  m_id k = x -> m_inc k = inc -> m_active k = true ->
  conn f = Connected -> num_active (mems f) = 1 ->
  send_cap f = max_packet_size (cfg f) -> header_fits f ->
  exists ms',
    step rnd f (timeout x inc (token f)) =
    (set_prb (set_token (set_conn
        (set_updates (set_mems f ms')
           (add_or_replace Addr addr_eqb (updates f) (addr_of x) (enc_mem (mkMember x inc Down)) (max_transmissions (cfg f))))
        Disconnected) (wrap8 (token f + 1))) (probe_clear (prb f)),
     [Submit (TRemoveDown x) (remove_down_after (cfg f)); Notify (NMemberDown x); Notify NIdle]
       ++ (if notify_down_members (cfg f)
           then [Send x (enc_hdr (mkHeader (identity f) (incarnation f) x TurnUndead))] else []),
     Done, 0)
    /\ num_active ms' = 0
    /\ exists p, nth_error (inner (mems f)) p = Some k /\
                 inner ms' = set_nth p (mkMember x inc Down) (inner (mems f)).
Proof. exact (timeout_effective_last rnd f x inc k). Qed.

(* DOWN IS FINAL UNTIL FORGOTTEN, over whole call histories (datagrams, timers, API calls, any order):
   as long as no forget-timer fires, the address of a Down record keeps a record, and it is the same
   identity still Down, or an identity that wins the address conflict against it *)
Theorem C11_down_final_along_histories (rnd : oracle) (l : list (@input Id)) (f : @foca Id Addr HO) (a : Addr) (k : member Id) :
  no_forget l -> uniq (inner (mems f)) -> view (mems f) a = Some k -> m_state k = Down ->
  exists k', view (mems (run_calls rnd f l)) a = Some k'
    /\ ((m_id k' = m_id k /\ m_state k' = Down) \/ wins (m_id k') (m_id k) = true).
Proof.
  intros NF U V D. destruct (history_down_final rnd l f a k NF U V) as (k' & V' & _ & H). exists k'. auto.
Qed.

(* THE CONNECTION EPOCH ('the timer belongs to the current connection epoch').  The epoch (timer token)
   changes only when the instance goes idle, becomes defunct or rejoins: along every call other than
   change_identity / reuse_down_identity that is not aborted by an Encode error or a panic, the token after
   the call is the token before it, or the call notified Idle, Defunct or Rejoin; hence over any history of
   such calls without these notifications the token is unchanged - a suspicion timeout scheduled in an epoch
   keeps its force for as long as the instance neither went idle nor defunct nor rejoined, whatever else
   happened (rounds on the IncompleteProbeCycle recovery path included). *)
Theorem C11_epoch_terms (rnd : oracle) (e : effect Id) (r : result) (f : @foca Id Addr HO) (i : @input Id) (l : list (@input Id)) :
  (epoch_note e <-> match e with Notify NIdle => True | Notify NDefunct => True | Notify (NRejoin _) => True | _ => False end)
  /\ (aborted_r r <-> match r with Failed EEncode => True | Panicked _ => True | _ => False end)
  /\ (same_epoch_hist rnd f [] <-> True)
  /\ (same_epoch_hist rnd f (i :: l) <->
      let '(f', es, r, _) := step rnd f i in
      match i with IChangeIdentity _ | IReuseDown => False | _ => True end
      /\ ~ aborted_r r /\ ~ Exists epoch_note es /\ same_epoch_hist rnd f' l).
Proof. repeat split; auto. Qed.

Theorem C11_epoch_changes_only_by_idle_defunct_rejoin (rnd : oracle) (f : @foca Id Addr HO) (i : @input Id) :
  match i with IChangeIdentity _ | IReuseDown => False | _ => True end ->
  let '(f', es, r, _) := step rnd f i in
  match r with
  | Failed EEncode => True
  | Panicked _ => True
  | _ => token f' = token f \/ Exists epoch_note es
  end.
Proof. exact (step_epoch rnd f i). Qed.

Theorem C11_epoch_along_histories (rnd : oracle) (l : list (@input Id)) (f : @foca Id Addr HO) :
  same_epoch_hist rnd f l -> token (run_calls rnd f l) = token f.
Proof. exact (history_epoch rnd l f). Qed.

(* THE TIMEOUT IS ARMED WHENEVER THE INSTANCE'S OWN ROUND FAILS (the same statement as C12_round_end,
   restated here because "takes effect iff unrefuted" needs a timeout to exist): a live
   ProbeRandomMember call whose previous round produced no evidence schedules exactly one
   ChangeSuspectToDown for the target - incarnation probed at, current token, suspect_to_down_after -
   whenever the target is still an active record after the Suspect update, WHETHER OR NOT that update
   changed anything (the suspicion may already have been learnt by gossip, which arms no timer) *)
Theorem C11_timeout_armed_when_own_round_fails (rnd : oracle) (f : @foca Id Addr HO) :
  conn f = Connected ->
  let es := snd (fst (fst (step rnd f (ITimer (TProbeRandomMember (token f)))))) in
  let prb1 := if negb (probe_validate (prb f)) then probe_clear (prb f) else prb f in
  filter (fun e => match e with Submit (TChangeSuspectToDown _ _ _) _ => true | _ => false end) es =
  match snd (probe_take_failed prb1) with
  | Some fm =>
      match apply_existing_if (mems f) (mkMember (m_id fm) (m_inc fm) Suspect) (fun _ => true) with
      | Some (_, sm) =>
          if is_active_now sm
          then [Submit (TChangeSuspectToDown (m_id fm) (m_inc fm) (token f)) (suspect_to_down_after (cfg f))]
          else []
      | None => []
      end
  | None => []
  end.
Proof. exact (Props_C12.C12_round_end rnd f). Qed.

End C11.

(* non-vacuity: a round that starts on the recovery path (the indirect-stage timer of the previous round was
   lost) reports IncompleteProbeCycle and leaves the epoch alone; the instance stays Connected *)
Definition ex11_cfg : config := mkConfig 1500000000 500000000 3 10 3000000000 86400000000000 1400 false None None None.
Definition ex11_o : oracle := fun _ r => match r with RShuffle _ => [0; 1; 2; 3] | RChoose _ => [0] | RRange _ => [0] | RTie _ _ => [] end.
Definition ex11_f0 : @foca cid N cid_handler := foca_init (mkCid 1 0 0 0) ex11_cfg (mkChst 0 255 []).
Definition ex11_f : @foca cid N cid_handler :=
  fst (fst (fst (step ex11_o ex11_f0 (IApplyMany [mkMember (mkCid 2 0 0 0) 0 Alive; mkMember (mkCid 3 0 0 0) 0 Alive] false)))).
Definition ex11_f1 : @foca cid N cid_handler :=
  fst (fst (fst (step ex11_o ex11_f (ITimer (TProbeRandomMember (token ex11_f)))))).
Example C11_epoch_example :
  let l := [ITimer (TProbeRandomMember (token ex11_f)); ITimer (TProbeRandomMember (token ex11_f))] in
  token (run_calls ex11_o ex11_f l) = token ex11_f
  /\ snd (fst (step ex11_o ex11_f1 (ITimer (TProbeRandomMember (token ex11_f))))) = Failed EIncompleteProbeCycle
  /\ conn (run_calls ex11_o ex11_f l) = Connected.
Proof. vm_compute. repeat split; auto. Qed.

Print Assumptions C11_stale_epoch_noop.
Print Assumptions C11_cancelled_noop.
Print Assumptions C11_effective.
Print Assumptions C11_down_final.
Print Assumptions C11_forget_exact.
Print Assumptions C11_effective_last_member.
Print Assumptions C11_down_final_along_histories.
Print Assumptions C11_epoch_terms.
Print Assumptions C11_epoch_changes_only_by_idle_defunct_rejoin.
Print Assumptions C11_epoch_along_histories.
Print Assumptions C11_epoch_example.
Print Assumptions C11_timeout_armed_when_own_round_fails.
