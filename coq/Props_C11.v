(* Props_C11.v — C11: suspicion timeout takes effect iff unrefuted; Down is final until forgotten. *)
From Foca Require Import Laws MembersM FocaM L_Members L_MembersInv L_Join L_Forward L_Reject L_Timeout.

Section C11.
Context {Id Addr : Type} {IO : IdOps Id Addr} {CO : CodecOps Id} {HO : HandlerOps Id}.
Context {IL : IdLaws IO}.

(* stale connection epoch: nothing at all happens *)
Theorem C11_stale_epoch_noop (rnd : oracle) (f : @foca Id Addr HO) (x : Id) (inc tok : N) :
  tok <> token f -> step rnd f (timeout x inc tok) = (f, [], Done, 0).
Proof.
  exact (fun H => reject_noop rnd f _ _ (Rj_stale_timer f (TChangeSuspectToDown x inc tok) tok eq_refl H)).
Qed.

(* cancelled (address forgotten, identity superseded by one that wins, incarnation changed,
   or already Down): no state change, no datagram, no notification, whatever the token *)
Theorem C11_cancelled_noop (rnd : oracle) (f : @foca Id Addr HO) (x : Id) (inc tok : N) :
  conn_consistent f -> cancelled f x inc ->
  step rnd f (timeout x inc tok) = (f, [], Done, 0).
Proof. exact (timeout_cancelled_noop rnd f x inc tok). Qed.

(* unrefuted: the record becomes Down at that incarnation, MemberDown is notified, the Down
   update enters the backlog with max_transmissions, forgetting is scheduled after
   remove_down_after, TurnUndead goes to the member iff notify_down_members - and nothing else *)
Theorem C11_effective (rnd : oracle) (f : @foca Id Addr HO) (x : Id) (inc : N) (k : member Id) :
  lookup (inner (mems f)) (addr_of x) = Some k ->
  m_id k = x -> m_inc k = inc -> m_active k = true ->
  conn f = Connected -> 1 < num_active (mems f) ->
  send_cap f = max_packet_size (cfg f) -> header_fits f ->
  exists ms',
    step rnd f (timeout x inc (token f)) =
    (set_updates (set_mems f ms')
       (add_or_replace Addr addr_eqb (updates f) (addr_of x) (enc_mem (mkMember x inc Down)) (max_transmissions (cfg f))),
     [Submit (TRemoveDown x) (remove_down_after (cfg f)); Notify (NMemberDown x)]
       ++ (if notify_down_members (cfg f)
           then [Send x (enc_hdr (mkHeader (identity f) (incarnation f) x TurnUndead))] else []),
     Done, 0)
    /\ num_active ms' = num_active (mems f) - 1
    /\ exists p, nth_error (inner (mems f)) p = Some k /\
                 inner ms' = set_nth p (mkMember x inc Down) (inner (mems f)).
Proof. exact (timeout_effective rnd f x inc k). Qed.

(* Down is final: no update ever changes a Down record except a newer identity that wins *)
Theorem C11_down_final (rnd : oracle) (l : list (member Id)) (ms : @members Id) (n : N) (a : Addr) (k k' : member Id) :
  uniq (inner ms) -> view ms a = Some k -> m_state k = Down ->
  view (fst (apply_list rnd ms l n)) a = Some k' ->
  (m_id k' = m_id k /\ m_state k' = Down) \/ wins (m_id k') (m_id k) = true.
Proof. exact (down_final rnd l ms n a k k'). Qed.

End C11.

Print Assumptions C11_stale_epoch_noop.
Print Assumptions C11_cancelled_noop.
Print Assumptions C11_effective.
Print Assumptions C11_down_final.
