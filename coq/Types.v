(* Types.v — the user-supplied parameters (as type classes) and Foca's data types. *)
From Foca Require Export Base.

Class IdOps (Id Addr : Type) := {
  id_eqb : Id -> Id -> bool;
  addr_of : Id -> Addr;
  addr_eqb : Addr -> Addr -> bool;
  wins : Id -> Id -> bool;          (* self.win_addr_conflict(adversary) *)
  renew : Id -> option Id
}.

Inductive mstate := Alive | Suspect | Down.

Definition mstate_eqb (a b : mstate) : bool :=
  match a, b with
  | Alive, Alive | Suspect, Suspect | Down, Down => true
  | _, _ => false
  end.

Record member (Id : Type) := mkMember { m_id : Id; m_inc : N; m_state : mstate }.
Arguments mkMember {Id}.
Arguments m_id {Id}.
Arguments m_inc {Id}.
Arguments m_state {Id}.

Inductive message (Id : Type) :=
| Ping (n : N) | Ack (n : N)
| PingReq (target : Id) (n : N)
| IndirectPing (origin : Id) (n : N)
| IndirectAck (target : Id) (n : N)
| ForwardedAck (origin : Id) (n : N)
| Announce | Feed | Gossip | Broadcast | TurnUndead.
Arguments Ping {Id}. Arguments Ack {Id}. Arguments PingReq {Id}.
Arguments IndirectPing {Id}. Arguments IndirectAck {Id}. Arguments ForwardedAck {Id}.
Arguments Announce {Id}. Arguments Feed {Id}. Arguments Gossip {Id}.
Arguments Broadcast {Id}. Arguments TurnUndead {Id}.

Record header (Id : Type) := mkHeader {
  h_src : Id; h_src_inc : N; h_dst : Id; h_msg : message Id }.
Arguments mkHeader {Id}.
Arguments h_src {Id}. Arguments h_src_inc {Id}. Arguments h_dst {Id}. Arguments h_msg {Id}.

Inductive timer (Id : Type) :=
| TProbeRandomMember (tok : N)
| TSendIndirectProbe (probed : Id) (tok : N)
| TChangeSuspectToDown (mid : Id) (inc : N) (tok : N)
| TPeriodicAnnounce (tok : N)
| TPeriodicAnnounceDown (tok : N)
| TPeriodicGossip (tok : N)
| TRemoveDown (mid : Id).
Arguments TProbeRandomMember {Id}. Arguments TSendIndirectProbe {Id}.
Arguments TChangeSuspectToDown {Id}. Arguments TPeriodicAnnounce {Id}.
Arguments TPeriodicAnnounceDown {Id}. Arguments TPeriodicGossip {Id}.
Arguments TRemoveDown {Id}.

(* Timer::seq of src/runtime.rs: the tie-break of Timer's PartialOrd / Ord (timers that fall due at
   the same instant are delivered in this order) *)
Definition timer_seq {Id : Type} (t : timer Id) : N :=
  match t with
  | TSendIndirectProbe _ _ => 0
  | TProbeRandomMember _ => 1
  | TChangeSuspectToDown _ _ _ => 2
  | TPeriodicAnnounce _ => 3
  | TPeriodicGossip _ => 4
  | TRemoveDown _ => 5
  | TPeriodicAnnounceDown _ => 6
  end.

Inductive notification (Id : Type) :=
| NMemberUp (i : Id) | NMemberDown (i : Id) | NRename (old new : Id)
| NActive | NIdle | NDefunct | NRejoin (i : Id).
Arguments NMemberUp {Id}. Arguments NMemberDown {Id}. Arguments NRename {Id}.
Arguments NActive {Id}. Arguments NIdle {Id}. Arguments NDefunct {Id}. Arguments NRejoin {Id}.

Inductive effect (Id : Type) :=
| Send (dst : Id) (data : bytes)
| Submit (t : timer Id) (after : N)
| Notify (n : notification Id).
Arguments Send {Id}. Arguments Submit {Id}. Arguments Notify {Id}.

Record config := mkConfig {
  probe_period : N;
  probe_rtt : N;
  num_indirect_probes : N;      (* NonZeroUsize *)
  max_transmissions : N;        (* NonZeroU8 *)
  suspect_to_down_after : N;
  remove_down_after : N;
  max_packet_size : N;          (* NonZeroUsize *)
  notify_down_members : bool;
  periodic_announce : option (N * N);        (* frequency, num_members *)
  periodic_announce_down : option (N * N);
  periodic_gossip : option (N * N)
}.

Class CodecOps (Id : Type) := {
  enc_hdr : header Id -> bytes;
  dec_hdr : bytes -> option (header Id * bytes);
  enc_mem : member Id -> bytes;
  dec_mem : bytes -> option (member Id * bytes);
  (* bytes a failing encode_member leaves behind in a buffer with [room] < len (enc_mem m)
     (Foca truncates them away, but the Limit wrapper's budget stays consumed) *)
  enc_mem_partial : member Id -> N -> N
}.

(* BroadcastHandler + Invalidates.  [h_recv] returns None for a handler error. *)
Class HandlerOps (Id : Type) := {
  hstate : Type;
  hkey : Type;
  h_recv : hstate -> bytes -> option Id -> hstate * option (option hkey);
  h_should_add : hstate -> Id -> bool;
  h_inval : hkey -> hkey -> bool
}.

Definition is_active_state (s : mstate) : bool :=
  match s with Down => false | _ => true end.
Definition m_active {Id} (m : member Id) : bool := is_active_state (m_state m).

Definition message_eqb {Id} (eqb : Id -> Id -> bool) (a b : message Id) : bool :=
  match a, b with
  | Ping x, Ping y | Ack x, Ack y => N.eqb x y
  | PingReq i x, PingReq j y | IndirectPing i x, IndirectPing j y
  | IndirectAck i x, IndirectAck j y | ForwardedAck i x, ForwardedAck j y =>
      eqb i j && N.eqb x y
  | Announce, Announce | Feed, Feed | Gossip, Gossip
  | Broadcast, Broadcast | TurnUndead, TurnUndead => true
  | _, _ => false
  end.

Definition allow_custom_broadcasts {Id} (m : message Id) : bool :=
  match m with Announce | TurnUndead => false | _ => true end.
Definition needs_piggyback {Id} (m : message Id) : bool :=
  match m with Announce | TurnUndead | Broadcast => false | _ => true end.
Definition piggyback_only_active {Id} (m : message Id) : bool :=
  match m with Feed => true | _ => false end.
