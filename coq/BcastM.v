(* BcastM.v — model of src/broadcast.rs (Broadcasts, Entry order, fill).  No proofs.
   The BinaryHeap is modelled as a list; its pop order among equal-priority
   entries is resolved by a hint (the oracle's RTie answer). *)
From Foca Require Export Types.

Section Bcast.
Variable K : Type.

Record entry := mkEntry { e_tx : N; e_data : bytes; e_key : K }.

Definition backlog := list entry.

(* Entry::cmp — (remaining_tx, data.len()) *)
Definition prio_le (a b : entry) : bool :=
  (e_tx a <? e_tx b) || ((e_tx a =? e_tx b) && (len (e_data a) <=? len (e_data b))).

(* stable insertion sort, highest priority first: an element goes in front of
   everything that is not strictly above it (fold_right inserts the earlier
   elements last, so ties keep their list order) *)
Fixpoint insert_desc (e : entry) (l : backlog) : backlog :=
  match l with
  | [] => [e]
  | x :: t => if prio_le x e then e :: x :: t else x :: insert_desc e t
  end.
Definition sort_desc (l : backlog) : backlog := fold_right insert_desc [] l.

(* split a hint [n1; b..; n2; b..; ...] into items *)
Fixpoint split_items (fuel : nat) (h : list N) : list bytes :=
  match fuel, h with
  | S f, n :: r => firstn (N.to_nat n) r :: split_items f (skipn (N.to_nat n) r)
  | _, _ => []
  end.

Fixpoint take_first (d : bytes) (l : backlog) : option (entry * backlog) :=
  match l with
  | [] => None
  | x :: t => if bytes_eqb (e_data x) d then Some (x, t)
              else match take_first d t with
                   | Some (e, t') => Some (e, x :: t')
                   | None => None
                   end
  end.

Fixpoint pull_hinted (items : list bytes) (l : backlog) : backlog * backlog :=
  match items with
  | [] => ([], l)
  | d :: r => match take_first d l with
              | Some (e, l') => let '(a, b) := pull_hinted r l' in (e :: a, b)
              | None => pull_hinted r l
              end
  end.

(* the order in which the heap will pop: always a priority-sorted permutation of [l] *)
Definition pop_order (hint : list N) (l : backlog) : backlog :=
  let '(a, b) := pull_hinted (split_items (length hint) hint) l in
  sort_desc (a ++ b).

(* Broadcasts::add_or_replace *)
Definition add_or_replace (inval : K -> K -> bool) (l : backlog) (item : K) (data : bytes) (max_tx : N)
  : backlog :=
  filter (fun e => negb (inval item (e_key e))) l ++ [mkEntry max_tx data item].

(* the while loop of fill / fill_with_len_prefix over the pop order.
   [extra] = 0 (fill) or 2 (fill_with_len_prefix).
   returns: written bytes, number taken, entries kept, first debug-assertion hit. *)
Fixpoint fill_loop (extra : N) (l : backlog) (room remaining : N)
  : bytes * N * backlog * option site :=
  match l with
  | [] => ([], 0, [], None)
  | e :: t =>
      if (0 <? room) && (0 <? remaining) then
        if e_tx e =? 0 then ([], 0, l, Some PZeroTx)
        else if len (e_data e) + extra <=? room then
          if (extra =? 2) && (u16_max <? len (e_data e)) then ([], 0, l, Some PItemTooLong)
          else
          let '(w, n, kept, p) := fill_loop extra t (room - (len (e_data e) + extra)) (remaining - 1) in
          let w0 := (if extra =? 0 then [] else u16_be (len (e_data e))) ++ e_data e in
          (w0 ++ w, n + 1,
           (if 1 <? e_tx e then mkEntry (e_tx e - 1) (e_data e) (e_key e) :: kept else kept), p)
        else
          let '(w, n, kept, p) := fill_loop extra t room remaining in
          (w, n, e :: kept, p)
      else ([], 0, l, None)
  end.

Definition fill_gen (extra : N) (hint : list N) (l : backlog) (room max_items : N)
  : bytes * N * backlog * option site :=
  match l with
  | [] => ([], 0, [], None)
  | _ => fill_loop extra (pop_order hint l) room max_items
  end.

End Bcast.
Arguments mkEntry {K}. Arguments e_tx {K}. Arguments e_data {K}. Arguments e_key {K}.
