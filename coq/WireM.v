(* WireM.v — an independent grammar of Foca datagrams, written from payload.rs:8-14
   and the property text (not from send_message).  No proofs. *)
From Foca Require Export Types FocaM.

Section Wire.
Context {Id Addr : Type} {IO : IdOps Id Addr} {CO : CodecOps Id} {HO : HandlerOps Id}.

(* zero or more items, each a big-endian u16 length L >= 1 followed by exactly L bytes;
   nothing else *)
Fixpoint parse_items (fuel : nat) (b : bytes) : option (list bytes) :=
  match b with
  | [] => Some []
  | _ =>
      match fuel with
      | O => None
      | S f =>
          match get_u16 b with
          | Some (n, r) =>
              if (n =? 0) || (len r <? n) then None
              else match parse_items f (skipn (N.to_nat n) r) with
                   | Some l => Some (firstn (N.to_nat n) r :: l)
                   | None => None
                   end
          | None => None
          end
      end
  end.

Record datagram := mkDatagram {
  d_hdr : header Id;
  d_members : option (list (member Id));   (* None: no count written *)
  d_items : list bytes
}.

Definition parse_datagram (b : bytes) : option datagram :=
  match dec_hdr b with
  | None => None
  | Some (h, r) =>
      match h_msg h with
      | Announce | TurnUndead =>
          match r with [] => Some (mkDatagram h None []) | _ => None end
      | Broadcast =>
          match parse_items (length r) r with
          | Some its => Some (mkDatagram h None its)
          | None => None
          end
      | _ =>
          match r with
          | [] => Some (mkDatagram h None [])
          | _ =>
              match get_u16 r with
              | Some (n, r1) =>
                  match @dec_members Id CO (N.to_nat n) r1 with
                  | Some (ms, r2) =>
                      match parse_items (length r2) r2 with
                      | Some its => Some (mkDatagram h (Some ms) its)
                      | None => None
                      end
                  | None => None
                  end
              | None => None
              end
          end
      end
  end.

End Wire.
