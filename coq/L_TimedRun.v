(* L_TimedRun.v — C13 over whole histories of a runtime with a clock: API calls and datagrams at
   arbitrary times, timers delivered in deadline order (ties in Timer's order) however late.
   Every reachable (state, pending timers) pair satisfies the loop invariant Inv and the open-round
   invariant PI, so no delivery ever fails except through the codec (Encode). *)
From Foca Require Import Laws L_Lists MembersM ProbeM BcastM FocaM Hoare Inv L_Mech L_Mirror L_ConnCons L_Reject L_Timers L_Acct L_CfgFrame L_Deadline.

Section TimedRun.
Context {Id Addr : Type} {IO : IdOps Id Addr} {CO : CodecOps Id} {HO : HandlerOps Id} {IL : IdLaws IO}.
Variable rnd : oracle.
Variable rd : N -> N.      (* the runtime's (possibly coarse) clock: a monotone rounding of deadlines *)
Hypothesis rd_mono : forall a b, a <= b -> rd a <= rd b.
Notation foca := (@foca Id Addr HO).
Notation effect := (effect Id).
Notation stamp := (stamp rd).

Definition timing_ok (f : foca) : Prop := probe_rtt (cfg f) <= probe_period (cfg f).

Lemma timing_ok_step (f : foca) (i : @input Id) :
  timing_ok f -> timing_ok (fst (fst (fst (step rnd f i)))).
Proof.
  intros H. pose proof (step_cfg_frame rnd f i) as K. destruct i; try (unfold timing_ok; rewrite K; exact H).
  rewrite set_config_effect. destruct (config_refused (cfg f) c) eqn:R; [exact H|].
  destruct (set_config_accepts f c R) as (E1 & E2 & _). unfold timing_ok. cbn. rewrite E1, E2. exact H.
Qed.

(* the side conditions of the loop invariant: the call did not abort on an Encode error (or panic, C06),
   and fewer than 256 epoch changes separate the issue of a timer from its delivery *)
Definition side (f f' : foca) (P : list (N * timer Id)) (es : list effect) (r : result) : Prop :=
  clean r /\ (epoch_changed f f' es -> no_alias f' (map snd P) es).

Inductive trun : foca -> list (N * timer Id) -> N -> Prop :=
| tr_init id0 c0 h0 :
    probe_rtt c0 <= probe_period c0 -> trun (@foca_init Id Addr HO id0 c0 h0) [] 0
| tr_call f P now now' i f' es r k :
    trun f P now -> now <= now' ->
    match i with ITimer _ => False | _ => True end ->
    step rnd f i = (f', es, r, k) -> side f f' P es r ->
    trun f' (P ++ stamp now' es) now'
| tr_timer f P1 d t P2 now now' f' es r k :
    trun f (P1 ++ (d, t) :: P2) now -> now <= now' -> d <= now' ->
    (forall x, In x (P1 ++ P2) -> before (d, t) x) ->
    step rnd f (ITimer t) = (f', es, r, k) -> side f f' (P1 ++ P2) es r ->
    trun f' (P1 ++ P2 ++ stamp now' es) now'.

Lemma live_probe_iff (f : foca) (t : timer Id) :
  live_timer f t = Some LProbe <-> (t = TProbeRandomMember (token f) /\ conn f = Connected).
Proof.
  split.
  - destruct t as [tok|probed tok|mid inc tok|tok|tok|tok|down]; cbn [live_timer]; try discriminate;
      try (match goal with |- (if ?c then _ else _) = _ -> _ => destruct c; discriminate end).
    destruct (tok =? token f) eqn:T; cbn [andb]; [|discriminate].
    destruct (conn f); cbn [conn_eqb]; try discriminate. intros _. apply N.eqb_eq in T. subst. auto.
  - intros [-> Cn]. cbn [live_timer]. rewrite N.eqb_refl, Cn. reflexivity.
Qed.

Theorem trun_invariants f P now :
  trun f P now -> Inv f (map snd P) /\ PI f P /\ timing_ok f.
Proof.
  induction 1 as [id0 c0 h0 LE
                 |f P now now' i f' es r k TR [HI [HP HT]] LE NT ES [Cl NA]
                 |f P1 d t P2 now now' f' es r k TR [HI [HP HT]] LE LD MIN ES [Cl NA]].
  - split; [|split].
    + intros K. split; [cbn; discriminate|reflexivity].
    + apply PI_initially.
    + exact LE.
  - split; [|split].
    + rewrite map_app, stamp_subm. pose proof (loop_invariant_other rnd f (map snd P) i HI) as L.
      assert (X : match i with ITimer t => live_timer f t = None | _ => True end) by (destruct i; auto; contradiction).
      specialize (L X). rewrite ES in L. apply L; assumption.
    + pose proof (PI_other rnd rd f P now' i NT HP) as L. rewrite ES in L. exact L.
    + pose proof (timing_ok_step f i HT) as L. rewrite ES in L. exact L.
  - split; [|split].
    + rewrite !map_app, stamp_subm. rewrite map_app in HI. cbn [map snd] in HI.
      destruct (live_timer f t) as [K|] eqn:LT.
      * pose proof (loop_invariant_live rnd f (map snd P1) (map snd P2) t K HI LT) as L. rewrite ES in L. apply L. exact Cl.
      * pose proof (Inv_remove_nonlive f _ _ t HI LT) as H0.
        pose proof (loop_invariant_other rnd f (map snd P1 ++ map snd P2) (ITimer t) H0 LT) as L.
        rewrite ES in L. rewrite <- app_assoc in L. apply L; [exact Cl|]. rewrite <- map_app. exact NA.
    + destruct (live_timer f t) as [K|] eqn:LT.
      * destruct K.
        -- apply live_probe_iff in LT. destruct LT as [-> Cn].
           pose proof (PI_deliver_live rnd rd rd_mono f P1 P2 d now' Cn HI HT) as L. rewrite ES in L. apply L. exact Cl.
        -- assert (NL : ~ (t = TProbeRandomMember (token f) /\ conn f = Connected)).
           { intros X. apply live_probe_iff in X. rewrite X in LT. discriminate. }
           pose proof (PI_deliver_other rnd rd f P1 P2 d now' t NL HP) as L. rewrite ES in L. exact L.
        -- assert (NL : ~ (t = TProbeRandomMember (token f) /\ conn f = Connected)).
           { intros X. apply live_probe_iff in X. rewrite X in LT. discriminate. }
           pose proof (PI_deliver_other rnd rd f P1 P2 d now' t NL HP) as L. rewrite ES in L. exact L.
        -- assert (NL : ~ (t = TProbeRandomMember (token f) /\ conn f = Connected)).
           { intros X. apply live_probe_iff in X. rewrite X in LT. discriminate. }
           pose proof (PI_deliver_other rnd rd f P1 P2 d now' t NL HP) as L. rewrite ES in L. exact L.
      * assert (NL : ~ (t = TProbeRandomMember (token f) /\ conn f = Connected)).
        { intros X. apply live_probe_iff in X. rewrite X in LT. discriminate. }
        pose proof (PI_deliver_other rnd rd f P1 P2 d now' t NL HP) as L. rewrite ES in L. exact L.
    + pose proof (timing_ok_step f (ITimer t) HT) as L. rewrite ES in L. exact L.
Qed.

(* every timer delivery of such a history returns Ok unless the codec failed to encode *)
Theorem trun_timer_results f P1 d t P2 now :
  trun f (P1 ++ (d, t) :: P2) now ->
  (forall x, In x (P1 ++ P2) -> before (d, t) x) ->
  match snd (fst (step rnd f (ITimer t))) with Failed e => e = EEncode | _ => True end.
Proof.
  intros TR MIN. destruct (trun_invariants _ _ _ TR) as (HI & HP & _).
  exact (deadline_order_errors rnd f P1 P2 d t HP HI MIN).
Qed.

End TimedRun.
