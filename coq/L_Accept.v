(* L_Accept.v — a peer with the same codec and packet size accepts every datagram Foca
   emits: no Decode / MalformedPacket / DataTooBig error (C07, second half). *)
From Foca Require Import Laws L_Lists MembersM ProbeM BcastM FocaM WireM L_Members L_MembersInv L_Bcast L_Fill Hoare Inv L_Wire L_Discard.

Section Accept.
Context {Id Addr : Type} {IO : IdOps Id Addr} {CO : CodecOps Id} {HO : HandlerOps Id}.
Context {IL : IdLaws IO} {EL : @ExtraLaws Id Addr IO CO} {CL : CodecLaws CO}.
Variable rnd : oracle.
Notation member := (member Id).
Notation foca := (@foca Id Addr HO).
Notation rs := (@rs Id Addr HO).
Notation M := (@M Id Addr HO).

Definition step_result_of (x : foca * list (effect Id) * result * N) : result := snd (fst x).

Definition bad (e : error) : Prop := e = EDecode \/ e = EMalformedPacket \/ e = EDataTooBig.

(* m never fails with a "bad" error *)
Definition clean {A} (m : M A) : Prop :=
  forall s, match m s with (_, RErr e) => ~ bad e | _ => True end.

Lemma clean_bind {A B} (m : M A) (f : A -> M B) : clean m -> (forall a, clean (f a)) -> clean (bind m f).
Proof.
  intros Hm Hf s. unfold bind. specialize (Hm s). destruct (m s) as [s' [a|e|p]]; auto. apply Hf.
Qed.
Lemma clean_ret {A} (a : A) : clean (ret a). Proof. intros s. exact I. Qed.
Lemma clean_get : clean (@get Id Addr HO). Proof. intros s. exact I. Qed.
Lemma clean_modify g : clean (@modify Id Addr HO g). Proof. intros s. exact I. Qed.
Lemma clean_emit e : clean (@emit Id Addr HO e). Proof. intros s. exact I. Qed.
Lemma clean_ask r : clean (ask rnd r). Proof. intros s. exact I. Qed.
Lemma clean_panic {A} p : clean (@panic Id Addr HO A p). Proof. intros s. exact I. Qed.
Lemma clean_with_ctr {A} (g : N -> A * N) : clean (with_ctr g).
Proof. intros s. unfold with_ctr. destruct (g (ctr s)). exact I. Qed.
Lemma clean_fail {A} e : ~ bad e -> clean (@fail Id Addr HO A e).
Proof. intros H s. exact H. Qed.
Lemma clean_when b (m : M unit) : clean m -> clean (when b m).
Proof. intros H. destruct b; [exact H|apply clean_ret]. Qed.
Lemma clean_forM {A} (l : list A) (f : A -> M unit) : (forall x, clean (f x)) -> clean (forM_ l f).
Proof.
  intros H. induction l as [|x t IH]; cbn [forM_]; [apply clean_ret|].
  apply clean_bind; [apply H|intros; exact IH].
Qed.

Ltac nb := unfold bad; intros [X|[X|X]]; discriminate X.

Lemma clean_feed_loop l : forall room count acc, clean (feed_loop l room count acc).
Proof.
  induction l as [|m t IH]; intros room count acc; cbn [feed_loop]; [apply clean_ret|].
  destruct (room <? len (enc_mem m)); [apply clean_ret|].
  destruct (count =? u16_max); [apply clean_panic|apply IH].
Qed.

Lemma clean_send_message dst msg : clean (send_message rnd dst msg).
Proof.
  unfold send_message. apply clean_bind; [apply clean_get|]. intros f.
  destruct (negb _); [apply clean_panic|].
  destruct (_ <? _); [apply clean_fail; nb|].
  apply clean_bind; [intros s; exact I|]. intros idx.
  apply clean_bind.
  - unfold send_body. destruct (needs_piggyback msg && _); [|apply clean_ret].
    destruct (piggyback_only_active msg).
    + apply clean_bind.
      { unfold estimate_feed_capacity. destruct (_ =? 0); [apply clean_panic|apply clean_ret]. }
      intros cap. apply clean_bind.
      { unfold choose_active. apply clean_bind; [apply clean_get|]. intros f1. apply clean_with_ctr. }
      intros chosen. apply clean_bind; [apply clean_feed_loop|]. intros [[c b] l]. apply clean_ret.
    + apply clean_bind; [apply clean_get|]. intros f0.
      destruct (updates f0); [apply clean_ret|].
      apply clean_bind; [apply clean_ask|]. intros hint.
      destruct (fill_gen Addr 0 hint _ _ _) as [[[w n] kept] p].
      destruct p; [apply clean_panic|].
      apply clean_bind; [apply clean_modify|intros; apply clean_ret].
  - intros [body room3]. apply clean_bind; [|intros; apply clean_emit].
    unfold send_customs. apply clean_bind; [apply clean_get|]. intros f1.
    destruct (_ && _ && _); [|apply clean_ret].
    destruct (customs f1); [apply clean_ret|].
    apply clean_bind; [apply clean_ask|]. intros hint.
    destruct (fill_gen hkey 2 hint _ _ _) as [[[w n] kept] p].
    destruct p; [apply clean_panic|].
    apply clean_bind; [apply clean_modify|intros; apply clean_ret].
Qed.

Lemma clean_choose_and_send n msg : clean (choose_and_send rnd n msg).
Proof.
  unfold choose_and_send. apply clean_bind.
  { unfold choose_active. apply clean_bind; [apply clean_get|]. intros f1. apply clean_with_ctr. }
  intros chosen. apply clean_forM. intros m. apply clean_send_message.
Qed.

Lemma clean_gossip : clean (gossip rnd).
Proof. unfold gossip. apply clean_bind; [apply clean_get|]. intros f. apply clean_choose_and_send. Qed.

Lemma clean_become_undead : clean (@become_undead Id Addr HO).
Proof. unfold become_undead. apply clean_bind; [apply clean_modify|intros; apply clean_emit]. Qed.

Lemma clean_change_identity i : clean (change_identity rnd i).
Proof.
  unfold change_identity. apply clean_bind; [apply clean_get|]. intros f.
  destruct (id_eqb _ _); [apply clean_fail; nb|].
  apply clean_bind; [apply clean_modify|]. intros _.
  apply clean_bind; [unfold reset; apply clean_modify|]. intros _.
  apply clean_bind; [apply clean_when; unfold add_update; apply clean_modify|]. intros _.
  apply clean_gossip.
Qed.

Lemma clean_attempt_rejoin : clean (attempt_rejoin rnd).
Proof.
  unfold attempt_rejoin. apply clean_bind; [apply clean_get|]. intros f.
  destruct (renew (identity f)); [|apply clean_ret].
  destruct (id_eqb _ _); [apply clean_ret|]. destruct (negb _); [apply clean_ret|].
  apply clean_bind; [apply clean_change_identity|]. intros _.
  apply clean_bind; [apply clean_emit|intros; apply clean_ret].
Qed.

Lemma clean_handle_self_update inc st0 : clean (handle_self_update rnd inc st0).
Proof.
  unfold handle_self_update. destruct st0.
  - apply clean_ret.
  - apply clean_bind; [apply clean_get|]. intros f. destruct (_ =? _).
    + apply clean_bind; [apply clean_attempt_rejoin|]. intros b. apply clean_when. apply clean_become_undead.
    + apply clean_bind; [apply clean_when; apply clean_modify|]. intros _.
      apply clean_bind; [apply clean_get|]. intros f1. apply clean_when. apply clean_gossip.
  - apply clean_bind; [apply clean_attempt_rejoin|]. intros b. apply clean_when. apply clean_become_undead.
Qed.

Lemma clean_handle_apply_summary sm u b : clean (handle_apply_summary sm u b).
Proof.
  unfold handle_apply_summary. apply clean_bind.
  { apply clean_when. apply clean_bind; [apply clean_when; unfold add_update; apply clean_modify|].
    intros _. apply clean_bind; [apply clean_get|]. intros f. apply clean_when. apply clean_emit. }
  intros _. apply clean_bind.
  { destruct (s_conflict sm); try apply clean_ret. apply clean_emit. }
  intros _. apply clean_when. apply clean_emit.
Qed.

Lemma clean_apply_update u b : clean (apply_update rnd u b).
Proof.
  unfold apply_update. apply clean_bind; [apply clean_get|]. intros f.
  destruct (id_eqb _ _); [apply clean_panic|].
  apply clean_bind; [apply clean_with_ctr|]. intros [ms s].
  apply clean_bind; [apply clean_modify|]. intros _.
  apply clean_bind; [apply clean_handle_apply_summary|intros; apply clean_ret].
Qed.

Lemma clean_adjust : clean (@adjust_connection_state Id Addr HO).
Proof.
  unfold adjust_connection_state. apply clean_bind; [apply clean_get|]. intros f.
  destruct (conn f).
  - apply clean_when. unfold become_connected. apply clean_bind; [apply clean_get|]. intros f1.
    destruct (_ =? 0); [apply clean_panic|].
    repeat (apply clean_bind; [first [apply clean_modify|apply clean_emit|unfold submit_periodic; match goal with |- clean (match ?p with _ => _ end) => destruct p as [[? ?]|]; [apply clean_emit|apply clean_ret] end]|intros _]).
    apply clean_emit.
  - apply clean_when. unfold become_disconnected. apply clean_bind; [apply clean_get|]. intros f1.
    destruct (negb _); [apply clean_panic|].
    apply clean_bind; [apply clean_modify|intros; apply clean_emit].
  - apply clean_ret.
Qed.

Lemma clean_apply_many l b : clean (apply_many rnd l b).
Proof.
  unfold apply_many. apply clean_bind; [|intros; apply clean_adjust].
  apply clean_forM. intros u. unfold apply_one. apply clean_bind; [apply clean_get|]. intros f.
  destruct (id_eqb _ _); [apply clean_handle_self_update|].
  destruct (addr_eqb _ _); (apply clean_bind; [apply clean_apply_update|intros; apply clean_ret]).
Qed.

Lemma clean_react src msg : clean (react rnd src msg).
Proof.
  unfold react. apply clean_bind; [apply clean_get|]. intros f.
  destruct msg; try apply clean_send_message; try apply clean_modify; try apply clean_ret;
    try apply clean_handle_self_update;
    try (destruct (id_eqb _ _); [apply clean_fail; nb|]; first [apply clean_send_message|apply clean_modify]).
Qed.

(* well-formed custom frames are consumed without a framing error *)
Lemma clean_custom_loop_frames (items : list bytes) sender : forall fuel,
  Forall item_ok items -> (length (flat_map fr items) <= fuel)%nat ->
  clean (custom_loop fuel (flat_map fr items) sender).
Proof.
  induction items as [|d t IH]; intros fuel F L.
  - cbn [flat_map]. destruct fuel; cbn [custom_loop].
    + apply clean_ret.
    + replace (2 <? len (@nil N)) with false by (unfold len; cbn; lia). apply clean_ret.
  - inversion F as [|? ? [D1 D2] Ft]; subst. cbn [flat_map] in *.
    assert (Lf : (3 <= length (fr d ++ flat_map fr t))%nat).
    { rewrite app_length. unfold fr at 1. rewrite app_length. unfold u16_be. cbn [length]. unfold len in D1. lia. }
    destruct fuel as [|fuel]; [lia|]. cbn [custom_loop].
    replace (2 <? len (fr d ++ flat_map fr t)) with true by (unfold len; lia).
    unfold fr at 1. rewrite <- app_assoc. rewrite get_u16_u16_be by exact D2.
    replace ((len d =? 0) || (len (d ++ flat_map fr t) <? len d)) with false by (rewrite len_app; lia).
    apply clean_bind; [apply clean_get|]. intros f.
    rewrite firstn_len_app, skipn_len_app.
    destruct (h_recv (hst f) d sender) as [h' r].
    apply clean_bind; [apply clean_modify|]. intros _.
    apply clean_bind.
    { destruct r as [[k|]|]; [unfold add_custom; apply clean_modify|apply clean_ret|apply clean_fail; nb]. }
    intros _. apply IH; auto.
    rewrite app_length in L. unfold fr at 1 in L. rewrite app_length in L. unfold u16_be in L. cbn [length] in L. lia.
Qed.

Lemma clean_handle_custom_frames (items : list bytes) sender :
  Forall item_ok items -> clean (handle_custom_broadcasts (flat_map fr items) sender).
Proof.
  intros F. unfold handle_custom_broadcasts.
  destruct (flat_map fr items) as [|b0 bs] eqn:E; [apply clean_ret|].
  destruct items as [|d t]; [discriminate|].
  inversion F as [|? ? [D1 D2] Ft]; subst.
  replace (len (b0 :: bs) <? 3) with false.
  2:{ rewrite <- E. cbn [flat_map]. rewrite len_app. unfold fr at 1. rewrite len_app. unfold u16_be, len at 1. cbn [length]. lia. }
  rewrite <- E. apply clean_custom_loop_frames; auto.
Qed.

Definition cleanR {A} (R : A -> Prop) (m : M A) : Prop :=
  forall s, match m s with (_, ROk a) => R a | (_, RErr e) => ~ bad e | _ => True end.

Lemma clean_bindR {A B} (R : A -> Prop) (m : M A) (f : A -> M B) :
  cleanR R m -> (forall a, R a -> clean (f a)) -> clean (bind m f).
Proof.
  intros Hm Hf s. unfold bind. specialize (Hm s). destruct (m s) as [s' [a|e|p]]; auto. apply Hf. exact Hm.
Qed.

Lemma clean_after_parse (h : header Id) ul (items : list bytes) :
  Forall item_ok items -> clean (after_parse rnd h ul (flat_map fr items)).
Proof.
  intros F. unfold after_parse.
  apply clean_bind; [apply clean_apply_update|]. intros active.
  destruct (negb active).
  - apply clean_bind; [apply clean_get|]. intros f00.
    apply clean_bind; [apply clean_when; apply clean_handle_self_update|]. intros _.
    apply clean_bind; [apply clean_get|]. intros f. apply clean_when. apply clean_send_message.
  - apply clean_bind; [apply clean_apply_many|]. intros _.
    apply (clean_bindR (fun o => match o with Some e => ~ bad e | None => True end)).
    { intros s. unfold attempt. pose proof (clean_handle_custom_frames items (Some (h_src h)) F s) as C.
      destruct (handle_custom_broadcasts _ _ s) as [s' [[]|e|p]]; auto. }
    intros cres Hc.
    apply clean_bind; [apply clean_get|]. intros f.
    destruct (negb _).
    + destruct cres; [apply clean_fail; exact Hc|apply clean_ret].
    + apply clean_bind; [apply clean_react|]. intros _.
      destruct cres; [apply clean_fail; exact Hc|apply clean_ret].
Qed.

(* the peer's handle_data on a datagram of the documented shape *)
Theorem peer_accepts (f2 : foca) (src dst : Id) (inc : N) (msg : message Id)
        (ms : option (list member)) (items : list bytes) :
  let h := mkHeader src inc dst msg in
  let b := enc_hdr h
           ++ (match ms with Some l => u16_be (len l) ++ flat_map enc_mem l | None => [] end)
           ++ flat_map fr items in
  len b <= max_packet_size (cfg f2) ->
  Forall item_ok items ->
  (match ms with Some l => len l <= u16_max | None => True end) ->
  (needs_piggyback msg = false -> ms = None) ->
  (allow_custom_broadcasts msg = false -> items = []) ->
  (needs_piggyback msg = true -> ms = None -> items = []) ->
  match step_result_of (step rnd f2 (IData b)) with
  | Failed e => ~ bad e
  | _ => True
  end.
Proof.
  intros h b Sz FI Lm K1 K2 K3.
  unfold step_result_of, step, run_unit.
  set (s := mkRs f2 [] 0).
  assert (C : match handle_data rnd b s with (_, RErr e) => ~ bad e | _ => True end).
  2:{ destruct (handle_data rnd b s) as [s' [[]|e|p]]; cbn; auto. }
  unfold handle_data, bind at 1, get at 1.
  replace (max_packet_size (cfg (st s)) <? len b) with false by (unfold s; cbn [st]; lia).
  unfold b at 1. rewrite dec_enc_hdr.
  destruct (_ || _); [nb|].
  set (rest := (match ms with Some l => u16_be (len l) ++ flat_map enc_mem l | None => [] end) ++ flat_map fr items).
  (* framing checks cannot fail on this shape *)
  assert (Hrest : len rest <> 1).
  { unfold rest. destruct ms as [l|].
    - rewrite !len_app. unfold u16_be, len at 1. cbn [length]. lia.
    - cbn [app]. destruct items as [|d t]; [unfold len; cbn; lia|].
      inversion FI as [|? ? [D1 D2] _]; subst. cbn [flat_map]. rewrite len_app. unfold fr. rewrite len_app.
      unfold u16_be, len at 1. cbn [length]. lia. }
  assert (Hann : message_eqb id_eqb (h_msg h) Announce = true -> len rest = 0).
  { intros E. assert (msg = Announce) by (unfold h in E; cbn in E; destruct msg; cbn in E; try discriminate; reflexivity).
    subst msg. unfold rest. rewrite (K1 eq_refl), (K2 eq_refl). reflexivity. }
  destruct ((len rest =? 1) || (message_eqb id_eqb (h_msg h) Announce && (0 <? len rest))) eqn:Fr.
  { exfalso. apply orb_true_iff in Fr. destruct Fr as [Fr|Fr]; [lia|].
    apply andb_true_iff in Fr. destruct Fr as [Fa Fl]. specialize (Hann Fa). lia. }
  destruct (negb (accept_payload (st s) h)); [exact I|].
  (* the update section *)
  unfold bind at 1.
  destruct ms as [l|].
  - assert (Np : needs_piggyback msg = true) by (destruct (needs_piggyback msg) eqn:E; auto; specialize (K1 eq_refl); discriminate).
    assert (NB : message_eqb id_eqb (h_msg h) Broadcast = false) by (unfold h; cbn; destruct msg; cbn in *; auto; discriminate).
    rewrite NB. cbn [negb andb].
    replace (2 <=? len rest) with true.
    2:{ unfold rest. rewrite !len_app. unfold u16_be, len at 1. cbn [length]. lia. }
    unfold rest. rewrite <- !app_assoc. rewrite get_u16_u16_be by exact Lm.
    unfold len at 1. rewrite Nat2N.id. rewrite dec_members_encs.
    exact (clean_after_parse h l items FI s).
  - unfold rest. cbn [app].
    destruct (needs_piggyback msg) eqn:Np.
    + rewrite (K3 eq_refl eq_refl). cbn [flat_map].
      replace (2 <=? len (@nil N)) with false by (unfold len; cbn; lia). cbn [andb].
      exact (clean_after_parse h [] [] (Forall_nil _) s).
    + destruct (allow_custom_broadcasts msg) eqn:Al.
      * assert (msg = Broadcast) by (destruct msg; cbn in *; try discriminate; reflexivity). subst msg.
        replace (message_eqb id_eqb (h_msg h) Broadcast) with true by reflexivity.
        rewrite andb_false_r.
        exact (clean_after_parse h [] items FI s).
      * rewrite (K2 eq_refl). cbn [flat_map].
        replace (2 <=? len (@nil N)) with false by (unfold len; cbn; lia). cbn [andb].
        exact (clean_after_parse h [] [] (Forall_nil _) s).
Qed.

End Accept.
