(* L_RenewDown.v — C10 "gossiping the old identity as Down": an identity change of an instance that is
   not defunct is exactly: adopt the new identity (epoch bumped, incarnation 0, idle, probe cleared), put
   Down(old identity) into the update backlog with the full max_transmissions, then gossip from that
   state.  The automatic renewal on learning Down(self) is this identity change followed by Rejoin. *)
From Foca Require Import Laws L_Lists MembersM ProbeM BcastM FocaM.

Section RenewDown.
Context {Id Addr : Type} {IO : IdOps Id Addr} {CO : CodecOps Id} {HO : HandlerOps Id}.
Variable rnd : oracle.
Notation member := (member Id).
Notation foca := (@foca Id Addr HO).
Notation rs := (@rs Id Addr HO).
Notation M := (@M Id Addr HO).
Notation "x <- m ;; f" := (bind m (fun x => f)) (at level 61, m at next level, right associativity).
Notation "m ;;; f" := (bind m (fun _ => f)) (at level 61, right associativity).

(* the state an identity change starts gossiping from *)
Definition adopted (f : foca) (new : Id) : foca :=
  let f0 := set_identity f new in
  set_prb (set_token (set_incarnation (set_conn f0 Disconnected) 0) (wrap8 (token f0 + 1))) (probe_clear (prb f0)).
Definition down_entry (f : foca) : @entry Addr :=
  mkEntry (max_tx f) (enc_mem (mkMember (identity f) 0 Down)) (addr_of (identity f)).
Definition renewed_state (f : foca) (new : Id) : foca :=
  let f1 := adopted f new in
  if conn_eqb (conn f) Undead then f1
  else set_updates f1 (add_or_replace Addr addr_eqb (updates f1) (addr_of (identity f)) (enc_mem (mkMember (identity f) 0 Down)) (max_tx f1)).

Lemma change_identity_eq (s : rs) (new : Id) :
  id_eqb (identity (st s)) new = false ->
  change_identity rnd new s = gossip rnd (mkRs (renewed_state (st s) new) (out s) (ctr s)).
Proof.
  intros NE. unfold change_identity, bind at 1, get at 1. cbv beta iota. rewrite NE.
  unfold bind at 1, modify at 1. cbv beta iota. unfold bind at 1, reset at 1, modify at 1. cbv beta iota.
  unfold bind at 1. unfold renewed_state, adopted. cbv zeta. cbn [st out ctr].
  destruct (conn_eqb (conn (st s)) Undead); cbn [negb when]; [reflexivity|].
  unfold add_update, modify. cbv beta iota. cbn [st out ctr]. reflexivity.
Qed.

(* what the renewed state holds *)
Lemma renewed_state_facts (f : foca) (new : Id) :
  identity (renewed_state f new) = new /\ incarnation (renewed_state f new) = 0
  /\ conn (renewed_state f new) = Disconnected /\ mems (renewed_state f new) = mems f
  /\ cfg (renewed_state f new) = cfg f /\ token (renewed_state f new) = wrap8 (token f + 1)
  /\ (conn f <> Undead -> In (down_entry f) (updates (renewed_state f new))
                         /\ forall e, In e (updates (renewed_state f new)) -> e = down_entry f \/ (In e (updates f) /\ addr_eqb (addr_of (identity f)) (e_key e) = false)).
Proof.
  unfold renewed_state, adopted. cbv zeta.
  destruct (conn_eqb (conn f) Undead) eqn:C;
    (split; [reflexivity|]); (split; [reflexivity|]); (split; [reflexivity|]); (split; [reflexivity|]);
    (split; [reflexivity|]); (split; [reflexivity|]); intros NU.
  - exfalso. apply NU. destruct (conn f); try discriminate; reflexivity.
  - split.
    + unfold add_or_replace. cbn. apply in_or_app. right. left. reflexivity.
    + intros e. cbn. unfold add_or_replace. rewrite in_app_iff, filter_In. cbn [In].
      rewrite negb_true_iff. intros [[H1 H2]|[H|[]]]; [right; split; assumption|left; symmetry; exact H].
Qed.

(* the automatic renewal *)
Lemma attempt_rejoin_eq (s : rs) (new : Id) :
  renew (identity (st s)) = Some new -> id_eqb (identity (st s)) new = false -> wins new (identity (st s)) = true ->
  attempt_rejoin rnd s =
  (gossip rnd ;;; emit (Notify (NRejoin new)) ;;; ret true) (mkRs (renewed_state (st s) new) (out s) (ctr s)).
Proof.
  intros R NE W. unfold attempt_rejoin, bind at 1, get at 1. cbv beta iota. rewrite R, NE, W. cbn [negb].
  unfold bind at 1. rewrite (change_identity_eq s new NE). unfold bind at 3. reflexivity.
Qed.

End RenewDown.
