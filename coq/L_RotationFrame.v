(* L_RotationFrame.v — C14: the probe rotation (the order of the member list and the cursor) is touched by
   nothing that merely sends: gossip(), announce(), broadcast(), add_broadcast(), set_config(), the periodic
   timers and the indirect-stage timer leave the member list exactly as it is - order and cursor included. *)
From Foca Require Import Laws L_Lists MembersM ProbeM BcastM FocaM Hoare Inv L_Mech L_Mirror.

Section RotationFrame.
Context {Id Addr : Type} {IO : IdOps Id Addr} {CO : CodecOps Id} {HO : HandlerOps Id} {IL : IdLaws IO}.
Variable rnd : oracle.
Notation foca := (@foca Id Addr HO).
Notation rs := (@rs Id Addr HO).
Notation M := (@M Id Addr HO).
Notation "x <- m ;; f" := (bind m (fun x => f)) (at level 61, m at next level, right associativity).
Notation "m ;;; f" := (bind m (fun _ => f)) (at level 61, right associativity).

Definition sending_call (i : @input Id) : Prop :=
  match i with
  | IGossip | IAnnounce _ | IBroadcast | IAddBroadcast _ | ISetConfig _ => True
  | ITimer (TSendIndirectProbe _ _) | ITimer (TPeriodicAnnounce _) | ITimer (TPeriodicAnnounceDown _) | ITimer (TPeriodicGossip _) => True
  | _ => False
  end.

Lemma quiet_get_bind {B} (body : foca -> M B) : (forall f, quiet (body f)) -> quiet (f <- get ;; body f).
Proof. intros H. apply quiet_bind; [apply quiet_get|exact H]. Qed.

Lemma quiet_sending_timer t :
  match t with TSendIndirectProbe _ _ | TPeriodicAnnounce _ | TPeriodicAnnounceDown _ | TPeriodicGossip _ => True | _ => False end ->
  quiet (handle_timer rnd t).
Proof.
  intros S. unfold handle_timer. apply quiet_get_bind. intros f.
  destruct t as [tok|probed tok|mid inc tok|tok|tok|tok|down]; try contradiction.
  - destruct (negb (tok =? token f)); [apply quiet_ret|].
    apply quiet_bind; [apply quiet_modify; intros ?; repeat split; reflexivity|]. intros _.
    destruct (negb (probe_is_probing _ _)); [apply quiet_ret|].
    destruct (probe_succeeded _); [apply quiet_ret|].
    destruct (negb (is_active_id _ _)); [apply quiet_ret|].
    apply quiet_bind; [apply quiet_choose_active|]. intros chosen. apply quiet_indirect_loop.
  - destruct (periodic_guard _ _); [|apply quiet_ret].
    destruct (periodic_announce _) as [[freq n]|]; [|apply quiet_ret].
    apply quiet_bind; [apply quiet_emit; exact I|]. intros _. apply quiet_choose_and_send.
  - destruct (periodic_guard _ _); [|apply quiet_ret].
    destruct (periodic_announce_down _) as [[freq n]|]; [|apply quiet_ret].
    apply quiet_bind; [apply quiet_emit; exact I|]. intros _. apply quiet_announce_to_down.
  - destruct (periodic_guard _ _); [|apply quiet_ret].
    destruct (periodic_gossip _) as [[freq n]|]; [|apply quiet_ret].
    apply quiet_bind; [apply quiet_emit; exact I|]. intros _.
    destruct (updates f), (customs f); try apply quiet_ret; apply quiet_choose_and_send.
Qed.

Theorem sending_keeps_rotation (f : foca) (i : @input Id) :
  sending_call i -> mems (fst (fst (fst (step rnd f i)))) = mems f.
Proof.
  intros S.
  assert (RU : forall (m : M unit), quiet m -> mems (fst (fst (fst (run_unit m f)))) = mems f).
  { intros m Q. destruct (Q (mkRs f [] 0)) as (E & _). unfold run_unit. destruct (m (mkRs f [] 0)) as [s' r]. exact E. }
  destruct i; try contradiction; cbn [step].
  - apply RU, quiet_sending_timer. destruct t; try contradiction; exact I.
  - apply RU, quiet_send_message.
  - apply RU, quiet_gossip.
  - apply RU, quiet_broadcast.
  - apply RU, quiet_set_config.
  - destruct (quiet_add_broadcast b (mkRs f [] 0)) as (E & _). unfold run_bool.
    destruct (add_broadcast b (mkRs f [] 0)) as [s' r]. exact E.
Qed.

End RotationFrame.
