(* Props_C10.v — C10: incarnation discipline, self-refutation and reaction to one's own death. *)
From Foca Require Import Laws MembersM FocaM WireM L_Members L_MembersInv L_Join Inv L_Wire L_Discard L_Mech L_IncMono.
From Foca Require Import BcastM L_Evidence L_IncHist L_RenewDown L_RoundPing Concrete.

Section C10.
Context {Id Addr : Type} {IO : IdOps Id Addr} {CO : CodecOps Id} {HO : HandlerOps Id}.
Context {IL : IdLaws IO} {EL : @ExtraLaws Id Addr IO CO} {CL : CodecLaws CO}.

(* a new instance, and every identity adopted through change_identity / renewal, starts at 0 *)
Theorem C10_starts_at_zero (id : Id) (c : config) (h : hstate) (rnd : oracle) (s : @rs Id Addr HO) (new_id : Id) :
  incarnation (@foca_init Id Addr HO id c h) = 0
  /\ (id_eqb (identity (st s)) new_id = false ->
      incarnation (st (fst (change_identity rnd new_id s))) = 0
      /\ identity (st (fst (change_identity rnd new_id s))) = new_id).
Proof.
  split; [reflexivity|]. intros E. destruct (change_identity_state rnd s new_id E) as (u & c0 & ->). cbn. auto.
Qed.

(* a suspicion about the current identity at an incarnation not lower than the own one (below
   MAX) makes the own incarnation exactly that incarnation + 1; identity and connection state
   are untouched *)
Theorem C10_self_refute (rnd : oracle) (s : @rs Id Addr HO) (i : N) :
  incarnation (st s) <= i -> i < u16_max ->
  let s' := fst (handle_self_update rnd i Suspect s) in
  incarnation (st s') = i + 1 /\ identity (st s') = identity (st s) /\ conn (st s') = conn (st s).
Proof. exact (self_refute rnd s i). Qed.

(* an older suspicion does not move the incarnation *)
Theorem C10_stale_suspicion (rnd : oracle) (s : @rs Id Addr HO) (i : N) :
  i < incarnation (st s) -> incarnation (st s) < u16_max ->
  incarnation (st (fst (handle_self_update rnd i Suspect s))) = incarnation (st s).
Proof. exact (stale_suspicion_no_bump rnd s i). Qed.

(* every datagram carries the identity and incarnation current when it is built *)
Theorem C10_header_is_current (rnd : oracle) (dst : Id) (msg : message Id) (s : @rs Id Addr HO) :
  WF (st s) ->
  match send_message rnd dst msg s with
  | (s', ROk _) => exists b, out s' = out s ++ [Send dst b] /\ sent_ok (st s) dst msg b
  | (s', RErr e) => e = EEncode /\ s' = s
  | (_, RPanic _) => False
  end.
Proof. exact (send_message_shape rnd dst msg s). Qed.

(* no fabrication: the record held after an update is the one held before or the update
   itself - never an incarnation nobody told *)
Theorem C10_no_fabrication (rnd : oracle) (ms : @members Id) (u : member Id) (n : N) (a : Addr) (k' : member Id) :
  uniq (inner ms) ->
  view (fst (fst (members_apply rnd ms u n))) a = Some k' ->
  view ms a = Some k' \/ k' = u.
Proof. exact (no_spontaneous_state rnd ms u n a k'). Qed.

(* learning that the current identity is Down: renewed identity (different, winning,
   incarnation 0, Rejoin notified) or defunct - nothing else *)
Theorem C10_down_dichotomy (rnd : oracle) (s : @rs Id Addr HO) (inc : N) :
  match handle_self_update rnd inc Down s with
  | (s', ROk _) =>
      (exists new_id, renew (identity (st s)) = Some new_id /\ new_id <> identity (st s)
                      /\ wins new_id (identity (st s)) = true
                      /\ identity (st s') = new_id /\ incarnation (st s') = 0
                      /\ In (Notify (NRejoin new_id)) (out s'))
      \/ (identity (st s') = identity (st s) /\ conn (st s') = Undead /\ In (Notify NDefunct) (out s'))
  | _ => True
  end.
Proof. exact (down_dichotomy rnd s inc). Qed.

(* a defunct instance does not refute suspicion about its dead identity (fix d16bcfc) *)
Theorem C10_defunct_does_not_refute (rnd : oracle) (s : @rs Id Addr HO) (i : N) :
  conn (st s) = Undead -> N.max i (incarnation (st s)) < u16_max ->
  out (fst (handle_self_update rnd i Suspect s)) = out s.
Proof. exact (defunct_does_not_refute rnd s i). Qed.

(* ALONG EVERY CALL (any input other than change_identity / reuse_down_identity, any oracle): either
   the identity is kept and the own incarnation did not decrease, or the identity moved to a
   same-address identity that wins against the previous one (auto-rejoin); the incarnation stays
   a u16.  With C10_starts_at_zero and C10_self_refute / C10_stale_suspicion this is the
   'never decreases while that identity is in use, grows only in reaction to a suspicion' clause. *)
Theorem C10_monotone_call (rnd : oracle) (f : @foca Id Addr HO) (i : @input Id) :
  incarnation f <= u16_max ->
  match i with IChangeIdentity _ | IReuseDown => True | _ =>
    let f' := fst (fst (fst (step rnd f i))) in
    incarnation f' <= u16_max
    /\ ((identity f' = identity f /\ incarnation f <= incarnation f')
        \/ (addr_of (identity f') = addr_of (identity f) /\ wins (identity f') (identity f) = true))
  end.
Proof. exact (step_inc_mono rnd f i). Qed.

Theorem C10_incarnation_is_u16 (rnd : oracle) (f : @foca Id Addr HO) (i : @input Id) :
  incarnation f <= u16_max -> incarnation (fst (fst (fst (step rnd f i)))) <= u16_max.
Proof. exact (step_inc_u16 rnd f i). Qed.

(* OVER WHOLE CALL HISTORIES without change_identity / reuse_down_identity: the own incarnation never
   decreases while the identity is in use and stays a u16; the identity only ever moves to a
   same-address identity that wins against the earlier one *)
Theorem C10_monotone_along_histories (rnd : oracle) (l : list (@input Id)) (f : @foca Id Addr HO) :
  no_identity_api l -> incarnation f <= u16_max ->
  let g := run_calls rnd f l in
  incarnation g <= u16_max
  /\ ((identity g = identity f /\ incarnation f <= incarnation g)
      \/ (addr_of (identity g) = addr_of (identity f) /\ wins (identity g) (identity f) = true)).
Proof. exact (history_inc_mono rnd l f). Qed.

Theorem C10_no_identity_api_meaning (i : @input Id) (l : list (@input Id)) :
  (@no_identity_api Id [] <-> True)
  /\ (no_identity_api (i :: l) <-> match i with IChangeIdentity _ | IReuseDown => False | _ => no_identity_api l end).
Proof. split; reflexivity. Qed.

(* GOSSIPING THE OLD IDENTITY AS DOWN.  An identity change is exactly: adopt the new identity (epoch
   bumped, incarnation 0, idle, probe cleared, member list and configuration kept), put Down(old identity)
   into the update backlog with the full max_transmissions - unless the instance was defunct, whose old
   identity the cluster already holds Down -, then gossip from that state.  The automatic renewal on
   learning Down(self) (C10_down_dichotomy) is this identity change followed by the Rejoin notification.
   What a gossip round takes from the backlog is C15's subject (fill: every fitting pending update). *)
Theorem C10_renewed_state_terms (f : @foca Id Addr HO) (new : Id) :
  identity (renewed_state f new) = new /\ incarnation (renewed_state f new) = 0
  /\ conn (renewed_state f new) = Disconnected /\ mems (renewed_state f new) = mems f
  /\ cfg (renewed_state f new) = cfg f /\ token (renewed_state f new) = wrap8 (token f + 1)
  /\ (conn f <> Undead ->
      In (mkEntry (max_tx f) (enc_mem (mkMember (identity f) 0 Down)) (addr_of (identity f))) (updates (renewed_state f new))
      /\ forall e, In e (updates (renewed_state f new)) ->
           e = mkEntry (max_tx f) (enc_mem (mkMember (identity f) 0 Down)) (addr_of (identity f))
           \/ (In e (updates f) /\ addr_eqb (addr_of (identity f)) (e_key e) = false)).
Proof. exact (renewed_state_facts f new). Qed.

Theorem C10_identity_change_declares_old_identity_down (rnd : oracle) (f : @foca Id Addr HO) (new : Id) :
  id_eqb (identity f) new = false ->
  step rnd f (IChangeIdentity new) = run_unit (gossip rnd) (renewed_state f new).
Proof.
  intros NE. cbn [step]. unfold run_unit. rewrite (change_identity_eq rnd (mkRs f [] 0) new NE). reflexivity.
Qed.

Theorem C10_renewal_gossips_old_identity_as_down (rnd : oracle) (s : @rs Id Addr HO) (new : Id) :
  renew (identity (st s)) = Some new -> id_eqb (identity (st s)) new = false -> wins new (identity (st s)) = true ->
  attempt_rejoin rnd s =
  bind (gossip rnd) (fun _ => bind (emit (Notify (NRejoin new))) (fun _ => ret true))
       (mkRs (renewed_state (st s) new) (out s) (ctr s)).
Proof. exact (attempt_rejoin_eq rnd s new). Qed.

End C10.

(* non-vacuity: changing identity while connected to two members: Down(old identity) entered the backlog with
   max_transmissions = 10 and went out on the two gossip datagrams of the call - 8 left *)
Definition ex10_cfg : config := mkConfig 1500000000 500000000 3 10 3000000000 86400000000000 1400 false None None None.
Definition ex10_o : oracle := fun _ r => match r with RShuffle _ => [0; 1; 2; 3] | RChoose _ => [0] | RRange _ => [0] | RTie _ _ => [] end.
Definition ex10_f0 : @foca cid N cid_handler := foca_init (mkCid 1 0 0 0) ex10_cfg (mkChst 0 255 []).
Definition ex10_f : @foca cid N cid_handler :=
  fst (fst (fst (step ex10_o ex10_f0 (IApplyMany [mkMember (mkCid 2 0 0 0) 0 Alive; mkMember (mkCid 3 0 0 0) 0 Alive] false)))).
Example C10_renewal_example :
  let '(f', es, r, _) := step ex10_o ex10_f (IChangeIdentity (mkCid 1 1 0 0)) in
  r = Done
  /\ map (fun e => (e_key e, e_tx e, e_data e)) (updates f') = [(1, 8, enc_mem (mkMember (mkCid 1 0 0 0) 0 Down))]
  /\ length (dsts es) = 2%nat.
Proof. vm_compute. repeat split; auto. Qed.

Print Assumptions C10_monotone_call.
Print Assumptions C10_incarnation_is_u16.
Print Assumptions C10_starts_at_zero.
Print Assumptions C10_self_refute.
Print Assumptions C10_stale_suspicion.
Print Assumptions C10_header_is_current.
Print Assumptions C10_no_fabrication.
Print Assumptions C10_down_dichotomy.
Print Assumptions C10_defunct_does_not_refute.
Print Assumptions C10_monotone_along_histories.
Print Assumptions C10_no_identity_api_meaning.
Print Assumptions C10_renewed_state_terms.
Print Assumptions C10_identity_change_declares_old_identity_down.
Print Assumptions C10_renewal_gossips_old_identity_as_down.
Print Assumptions C10_renewal_example.
