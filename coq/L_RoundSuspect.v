(* L_RoundSuspect.v — C12: what a failed round does to the member list.  At the ProbeRandomMember
   timer the member list becomes (up to the probe order, which the round-robin may reshuffle) the
   old list with the Suspect update of the failed target applied through apply_existing_if; in
   particular a target still Alive at the probed incarnation becomes Suspect there, and nothing else
   changes. *)
From Coq Require Import Permutation.
From Foca Require Import Laws L_Lists MembersM ProbeM FocaM L_Members L_MembersInv Hoare Inv L_Mech L_Mirror L_Footprint L_Timeout L_RoundRobin L_RoundEnd L_ConnCons L_Acct L_Deadline.

Section RoundSuspect.
Context {Id Addr : Type} {IO : IdOps Id Addr} {CO : CodecOps Id} {HO : HandlerOps Id} {IL : IdLaws IO}.
Variable rnd : oracle.
Notation member := (member Id).
Notation foca := (@foca Id Addr HO).
Notation rs := (@rs Id Addr HO).
Notation M := (@M Id Addr HO).
Notation effect := (effect Id).
Notation "x <- m ;; f" := (bind m (fun x => f)) (at level 61, m at next level, right associativity).
Notation "m ;;; f" := (bind m (fun _ => f)) (at level 61, right associativity).

(* the member list after the suspicion part of the round *)
Definition round_members (f : foca) : @members Id :=
  let prb1 := if negb (probe_validate (prb f)) then probe_clear (prb f) else prb f in
  match snd (probe_take_failed prb1) with
  | Some fm =>
      match apply_existing_if (mems f) (mkMember (m_id fm) (m_inc fm) Suspect) (fun _ => true) with
      | Some (ms, _) => ms
      | None => mems f
      end
  | None => mems f
  end.

(* member list preserved up to permutation *)
Definition pm {A} (m : M A) : Prop :=
  forall s, Permutation (inner (mems (st (fst (m s))))) (inner (mems (st s))).
Lemma pm_bind {A B} (m : M A) (k : A -> M B) : pm m -> (forall a, pm (k a)) -> pm (bind m k).
Proof.
  intros Hm Hk s. specialize (Hm s). unfold bind. destruct (m s) as [s1 [a|e|p]]; cbn [fst] in *; auto.
  eapply perm_trans; [apply Hk|exact Hm].
Qed.
Lemma pm_same {A} (m : M A) : (forall s, mems (st (fst (m s))) = mems (st s)) -> pm m.
Proof. intros H s. rewrite H. apply Permutation_refl. Qed.
Lemma pm_send_message dst msg : pm (send_message rnd dst msg).
Proof.
  apply pm_same. intros s. pose proof (frames_send_message rnd dst msg s) as F.
  destruct F as (u & c & E). rewrite E. reflexivity.
Qed.

Theorem probe_round_members (s : rs) :
  conn (st s) = Connected ->
  Permutation (inner (mems (st (fst (probe_random_member rnd s))))) (inner (round_members (st s))).
Proof.
  intros Cn. unfold probe_random_member, bind at 1, get at 1. cbv beta iota. rewrite Cn. cbn [conn_eqb negb].
  set (f := st s).
  set (inc := negb (probe_validate (prb f))).
  set (f1 := if inc then set_prb f (probe_clear (prb f)) else f).
  assert (E1 : when inc (modify (fun f0 => set_prb f0 (probe_clear (prb f0)))) s = (mkRs f1 (out s) (ctr s), ROk tt)).
  { subst f1. unfold when, modify, ret. destruct inc; [reflexivity|destruct s; reflexivity]. }
  unfold bind at 1. rewrite E1. cbv beta iota.
  unfold bind at 1, get at 1. cbv beta iota. cbn [st].
  assert (P1 : prb f1 = if inc then probe_clear (prb f) else prb f) by (subst f1; destruct inc; reflexivity).
  unfold round_members. fold f inc. rewrite <- P1.
  destruct (probe_take_failed (prb f1)) as [p' failed] eqn:TF. cbn [snd].
  unfold bind at 1, modify at 1. cbv beta iota. cbn [st out ctr].
  set (f2 := set_prb f1 p').
  assert (Mm : mems f2 = mems f) by (subst f2 f1; destruct inc; reflexivity).
  set (tail := (f3 <- get ;;
      r <- with_ctr (fun k => let '(ms, m, k') := members_next rnd (mems f3) k in ((ms, m), k')) ;;
      let '(ms, chosen) := r in
      modify (fun f4 => set_mems f4 ms) ;;;
      match chosen with
      | Some m =>
          f4 <- get ;;
          let '(p'0, n) := probe_start (prb f4) m in
          modify (fun f5 => set_prb f5 p'0) ;;;
          send_message rnd (m_id m) (Ping n) ;;;
          f5 <- get ;;
          emit (Submit (TSendIndirectProbe (m_id m) (token f5)) (probe_rtt (cfg f5)))
      | None => ret tt
      end ;;;
      f4 <- get ;;
      emit (Submit (TProbeRandomMember (token f4)) (probe_period (cfg f4))) ;;;
      (if inc then fail EIncompleteProbeCycle else ret tt)) : M unit).
  assert (TL : pm tail).
  { subst tail. intros s0. unfold bind at 1, get at 1. cbv beta iota.
    unfold bind at 1, with_ctr at 1. cbv beta iota.
    pose proof (members_next_perm rnd (mems (st s0)) (ctr s0)) as MP.
    destruct (members_next rnd (mems (st s0)) (ctr s0)) as [[ms chosen] k']. cbn [fst] in MP. cbv beta iota.
    unfold bind at 1, modify at 1. cbv beta iota. cbn [st out ctr].
    match goal with |- Permutation (inner (mems (st (fst (?m ?x))))) _ => assert (PR : pm m) end.
    { apply pm_bind.
      - destruct chosen as [m|]; [|apply pm_same; reflexivity].
        apply pm_bind; [apply pm_same; reflexivity|]. intros f4.
        destruct (probe_start (prb f4) m) as [p'0 n].
        apply pm_bind; [apply pm_same; reflexivity|]. intros _.
        apply pm_bind; [apply pm_send_message|]. intros _.
        apply pm_bind; [apply pm_same; reflexivity|]. intros f5. apply pm_same. reflexivity.
      - intros _. apply pm_bind; [apply pm_same; reflexivity|]. intros f4.
        apply pm_bind; [apply pm_same; reflexivity|]. intros _.
        destruct inc; apply pm_same; reflexivity. }
    eapply perm_trans; [apply PR|]. cbn [st mems set_mems]. exact MP. }
  destruct failed as [fm|].
  - unfold bind at 1. unfold bind at 1. unfold get at 1. cbv beta iota. cbn [st]. rewrite Mm.
    destruct (apply_existing_if (mems f) (mkMember (m_id fm) (m_inc fm) Suspect) (fun _ => true)) as [[ms sm]|] eqn:AE.
    + unfold bind at 1, modify at 1. cbv beta iota. cbn [st out ctr].
      unfold bind at 1. rewrite hsum_eq. cbv beta iota. cbn [st out ctr].
      unfold bind at 1, get at 1. cbv beta iota. cbn [st].
      set (f3 := hsum_state sm (mkMember (m_id fm) (m_inc fm) Suspect) true (set_mems f2 ms)).
      assert (M3 : mems f3 = ms) by (subst f3; unfold hsum_state; destruct (_ && _); reflexivity).
      destruct (is_active_now sm); cbn [when].
      * unfold emit at 1. cbv beta iota. cbn [st out ctr].
        eapply perm_trans; [apply TL|]. cbn [st]. rewrite M3. apply Permutation_refl.
      * unfold ret at 1. cbv beta iota.
        eapply perm_trans; [apply TL|]. cbn [st]. rewrite M3. apply Permutation_refl.
    + unfold ret at 1. cbv beta iota. eapply perm_trans; [apply TL|]. cbn [st]. rewrite Mm. apply Permutation_refl.
  - unfold bind at 1, ret at 1. cbv beta iota. eapply perm_trans; [apply TL|]. cbn [st]. rewrite Mm. apply Permutation_refl.
Qed.

(* a target still Alive or Suspect at the probed incarnation: its record becomes Suspect at that
   incarnation, every other record is untouched *)
Lemma suspect_applies (ms : @members Id) (x : Id) (i : N) (k : member) :
  lookup (inner ms) (addr_of x) = Some k -> m_id k = x -> m_inc k = i -> m_state k = Alive ->
  exists p ms' sm, nth_error (inner ms) p = Some k
    /\ apply_existing_if ms (mkMember x i Suspect) (fun _ => true) = Some (ms', sm)
    /\ inner ms' = set_nth p (mkMember x i Suspect) (inner ms)
    /\ is_active_now sm = true.
Proof.
  intros L Eid Einc Est. destruct (lookup_find_index _ _ _ L) as (p & F & Np).
  exists p. unfold apply_existing_if. cbn [m_id]. unfold maddr in F. rewrite F, Np.
  rewrite Eid, id_eqb_refl. cbn [negb andb].
  unfold change_state, can_change. cbn [m_state m_inc]. rewrite Est, Einc.
  replace (i <=? i) with true by (symmetry; apply N.leb_le; reflexivity).
  unfold m_active. rewrite Est. cbn. rewrite Eid. eexists _, _. repeat split.
Qed.

(* as one call *)
Theorem step_round_members (f : foca) :
  conn f = Connected ->
  Permutation (inner (mems (fst (fst (fst (step rnd f (ITimer (TProbeRandomMember (token f)))))))))
              (inner (round_members f)).
Proof.
  intros Cn. cbn [step]. unfold run_unit, handle_timer, bind at 1, get at 1. cbv beta iota. cbn [st].
  rewrite N.eqb_refl, Cn. cbn [conn_eqb negb].
  pose proof (probe_round_members (mkRs f [] 0) Cn) as H.
  destruct (probe_random_member rnd (mkRs f [] 0)) as [s' r]. exact H.
Qed.

(* THE HAND-OVER from probing to the suspicion timeout: a round that failed on a target still Alive
   at the probed incarnation leaves that member Suspect in the list, schedules exactly the timeout
   that will declare it Down (same identity, same incarnation, current token), and stays Connected *)
Theorem failed_round_hands_over (f : foca) (fm k : member) :
  conn f = Connected ->
  snd (probe_take_failed (if negb (probe_validate (prb f)) then probe_clear (prb f) else prb f)) = Some fm ->
  lookup (inner (mems f)) (addr_of (m_id fm)) = Some k ->
  m_id k = m_id fm -> m_inc k = m_inc fm -> m_state k = Alive ->
  let '(f1, es, r, _) := step rnd f (ITimer (TProbeRandomMember (token f))) in
  clean r ->
  In (mkMember (m_id fm) (m_inc fm) Suspect) (inner (mems f1))
  /\ In (Submit (TChangeSuspectToDown (m_id fm) (m_inc fm) (token f1)) (suspect_to_down_after (cfg f1))) es
  /\ conn f1 = Connected /\ token f1 = token f.
Proof.
  intros Cn TF L Eid Einc Est.
  destruct (suspect_applies (mems f) (m_id fm) (m_inc fm) k L Eid Einc Est) as (p & ms' & sm & Np & AE & In' & AN).
  pose proof (step_round_members f Cn) as PM.
  pose proof (step_probe_live rnd f Cn) as SL.
  assert (RE : exists new, snd (fst (fst (step rnd f (ITimer (TProbeRandomMember (token f)))))) = new
                           /\ cstd_of new = round_suspicion f).
  { cbn [step]. unfold run_unit, handle_timer, bind at 1, get at 1. cbv beta iota. cbn [st].
    rewrite N.eqb_refl, Cn. cbn [conn_eqb negb].
    destruct (probe_round_end rnd (mkRs f [] 0) Cn) as (new & O & C).
    destruct (probe_random_member rnd (mkRs f [] 0)) as [s' r0]. cbn [fst snd out st app] in *.
    exists new. split; [exact O|exact C]. }
  destruct (step rnd f (ITimer (TProbeRandomMember (token f)))) as [[[f1 es] r] k0]. cbn [fst snd] in *.
  intros Cl.
  assert (F : conn f1 = Connected /\ token f1 = token f /\ cfg f1 = cfg f).
  { destruct r as [|b|e|pp]; [| |destruct e|]; cbn in Cl; try contradiction;
      destruct SL as (A & B & C & _); auto. }
  destruct F as (C1 & T1 & G1).
  split; [|split; [|split; [exact C1|exact T1]]].
  - eapply Permutation_in; [symmetry; exact PM|]. unfold round_members. rewrite TF, AE, In'.
    destruct (set_nth_split p (mkMember (m_id fm) (m_inc fm) Suspect) _ _ Np) as (l1 & l2 & _ & E2 & _).
    rewrite E2. apply in_or_app. right. left. reflexivity.
  - destruct RE as (new & E & C). subst new. unfold round_suspicion in C. rewrite TF, AE, AN in C.
    assert (X : In (Submit (TChangeSuspectToDown (m_id fm) (m_inc fm) (token f)) (suspect_to_down_after (cfg f))) (cstd_of es))
      by (rewrite C; left; reflexivity).
    unfold cstd_of in X. apply filter_In in X. rewrite T1, G1. exact (proj1 X).
Qed.

End RoundSuspect.
