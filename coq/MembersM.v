(* MembersM.v — model of src/member.rs (Member, Members, ApplySummary).  No proofs. *)
From Foca Require Export Types.

Section Members.
Context {Id Addr : Type} {IO : IdOps Id Addr}.
Variable rnd : oracle.

Notation member := (member Id).

(* Member::can_change — SWIM precedence *)
Definition can_change (m : member) (oinc : N) (other : mstate) : bool :=
  match m_state m with
  | Alive => match other with
             | Alive => m_inc m <? oinc
             | Suspect => m_inc m <=? oinc
             | Down => true
             end
  | Suspect => match other with
               | Down => true
               | _ => m_inc m <? oinc
               end
  | Down => false
  end.

(* Member::change_state *)
Definition change_state (m : member) (inc : N) (s : mstate) : member * bool :=
  if can_change m inc s then (mkMember (m_id m) inc s, true) else (m, false).

Record members := mkMembers { inner : list member; cursor : N; num_active : N }.

Definition members_new (l : list member) : members :=
  mkMembers l 0 (len (filter m_active l)).

(* Note on saturating arithmetic: `pos.saturating_add(1)` and
   `num_active.saturating_add(1)` can never saturate (a Vec holds at most
   isize::MAX elements), so they are modelled as plain +1. *)

(* Members::next.  Returns the new state, the chosen member and the next oracle index. *)
Definition members_next (ms : members) (k : N) : members * option member * N :=
  let '(inn, cur, k1) :=
    if len (inner ms) <=? cursor ms
    then (apply_perm (rnd k (RShuffle (len (inner ms)))) (inner ms), 0, k + 1)
    else (inner ms, cursor ms, k) in
  let c := N.to_nat cur in
  let pos :=
    match find_index m_active (skipn c inn) with
    | Some p => Some (p + c)%nat
    | None => find_index m_active (firstn c inn)
    end in
  match pos with
  | Some p =>
      let cur' := if Nat.ltb p c then usize_max else N.of_nat p + 1 in
      (mkMembers inn cur' (num_active ms), nth_error inn p, k1)
  | None => (mkMembers inn cur (num_active ms), None, k1)
  end.

(* Members::choose_members — reservoir sampling *)
Fixpoint choose_loop (picker : member -> bool) (wanted : N) (l : list member)
         (out : list member) (num_seen k : N) : list member * N :=
  match l with
  | [] => (out, k)
  | m :: t =>
      if picker m then
        let seen := num_seen + 1 in
        if len out <? wanted
        then choose_loop picker wanted t (out ++ [m]) seen k
        else
          let r := below seen (rnd k (RRange seen)) in
          let out' := if r <? wanted then set_nth (N.to_nat r) m out else out in
          choose_loop picker wanted t out' seen (k + 1)
      else choose_loop picker wanted t out num_seen k
  end.

Definition choose_members (ms : members) (wanted : N) (picker : member -> bool) (k : N)
  : list member * N :=
  choose_loop picker wanted (inner ms) [] 0 k.

Definition choose_down_members_if (ms : members) (wanted : N) (picker : Id -> bool) (k : N) :=
  choose_members ms wanted (fun m => negb (m_active m) && picker (m_id m)) k.

Definition choose_active_members (ms : members) (wanted : N) (picker : Id -> bool) (k : N) :=
  choose_members ms wanted (fun m => m_active m && picker (m_id m)) k.

(* Members::remove_if_down *)
Definition remove_if_down (ms : members) (id : Id) : members * bool :=
  match find_index (fun m => id_eqb (m_id m) id && mstate_eqb (m_state m) Down) (inner ms) with
  | Some p => (mkMembers (swap_remove (inner ms) p) (cursor ms) (num_active ms), true)
  | None => (ms, false)
  end.

Definition is_active_id (ms : members) (id : Id) : bool :=
  existsb (fun m => id_eqb (m_id m) id && m_active m) (inner ms).

Inductive conflict := NoConflict | Replaced (old : Id) | Lost | FailedCondition.

Record summary := mkSummary {
  is_active_now : bool;
  apply_successful : bool;
  changed_active_set : bool;
  s_conflict : conflict
}.

(* Members::apply_existing_if *)
Definition apply_existing_if (ms : members) (u : member) (cond : member -> bool)
  : option (members * summary) :=
  match find_index (fun m => addr_eqb (addr_of (m_id m)) (addr_of (m_id u))) (inner ms) with
  | None => None
  | Some p =>
      match nth_error (inner ms) p with
      | None => None
      | Some known =>
          let id_conflict := negb (id_eqb (m_id known) (m_id u)) in
          if id_conflict && wins (m_id known) (m_id u) then
            Some (ms, mkSummary (m_active known) false false Lost)
          else if negb (cond known) then
            Some (ms, mkSummary (m_active known) false false
                                (if id_conflict then FailedCondition else NoConflict))
          else
            let was_active := m_active known in
            let '(known', ok, cf) :=
              if id_conflict
              then (mkMember (m_id u) (m_inc u) (m_state u), true, Replaced (m_id known))
              else let '(k', ok) := change_state known (m_inc u) (m_state u) in
                   (k', ok, NoConflict) in
            let now := m_active known' in
            let changed := negb (Bool.eqb now was_active) in
            let na :=
              if changed
              then (if now then num_active ms + 1 else num_active ms - 1)
              else num_active ms in
            Some (mkMembers (set_nth p known' (inner ms)) (cursor ms) na,
                  mkSummary now ok changed cf)
      end
  end.

(* Members::apply.  [RPanic]-free: the len()-1 on an empty vec cannot happen after push. *)
Definition members_apply (ms : members) (u : member) (k : N) : members * summary * N :=
  match apply_existing_if ms u (fun _ => true) with
  | Some (ms', s) => (ms', s, k)
  | None =>
      let now := m_active u in
      let l := inner ms ++ [u] in
      let inserted_at := (length l - 1)%nat in
      let idx := N.to_nat (below (len l) (rnd k (RChoose (len l)))) in
      let l' := swap l idx inserted_at in
      let na := if now then num_active ms + 1 else num_active ms in
      (mkMembers l' (cursor ms) na, mkSummary now true now NoConflict, k + 1)
  end.

End Members.
