(* L_TxAccount.v — C15, transmission accounting.  total l = the transmissions still owed by a backlog.
   One fill writes n updates and lowers the total by exactly n (a written update costs exactly one
   transmission, nothing else changes the total); accepting an update (add_or_replace) raises it by at
   most max_transmissions. *)
From Coq Require Import Permutation.
From Foca Require Import Laws L_Lists MembersM ProbeM BcastM FocaM L_Bcast Hoare Inv.

Section TxAccount.
Variable K : Type.

Definition total (l : @backlog K) : N := fold_right (fun e a => e_tx e + a) 0 l.

Lemma total_app a b : total (a ++ b) = total a + total b.
Proof. induction a as [|x t IH]; cbn [total fold_right app]; [reflexivity|]. fold (total (t ++ b)) (total t). rewrite IH. lia. Qed.
Lemma total_perm a b : Permutation a b -> total a = total b.
Proof.
  induction 1 as [|x l l' P IH|x y l|l1 l2 l3 P1 IH1 P2 IH2]; cbn [total fold_right]; auto.
  - fold (total l) (total l'). rewrite IH. reflexivity.
  - fold (total l). lia.
  - congruence.
Qed.

(* one fill: what is written is paid for, one transmission each *)
Lemma fill_loop_total extra : forall (l : @backlog K) room remaining w n kept,
  fill_loop K extra l room remaining = (w, n, kept, None) -> total kept + n = total l.
Proof.
  induction l as [|e t IH]; intros room remaining w n kept H; cbn [fill_loop] in H.
  - inversion H; subst. reflexivity.
  - destruct ((0 <? room) && (0 <? remaining)).
    2:{ inversion H; subst. lia. }
    destruct (e_tx e =? 0) eqn:Z; [discriminate|].
    destruct (len (e_data e) + extra <=? room).
    + destruct ((extra =? 2) && (u16_max <? len (e_data e))); [discriminate|].
      destruct (fill_loop K extra t (room - (len (e_data e) + extra)) (remaining - 1)) as [[[w1 n1] k1] p1] eqn:F.
      inversion H; subst. specialize (IH _ _ _ _ _ F). cbn [total fold_right]. fold (total t).
      destruct (1 <? e_tx e) eqn:G; cbn [total fold_right e_tx]; fold (total k1); lia.
    + destruct (fill_loop K extra t room remaining) as [[[w1 n1] k1] p1] eqn:F.
      inversion H; subst. specialize (IH _ _ _ _ _ F). cbn [total fold_right]. fold (total t) (total k1). lia.
Qed.

Theorem fill_total extra hint (l : @backlog K) room mx w n kept :
  fill_gen K extra hint l room mx = (w, n, kept, None) -> total kept + n = total l.
Proof.
  unfold fill_gen. destruct l as [|e t]; [intros H; inversion H; reflexivity|].
  intros H. rewrite (fill_loop_total _ _ _ _ _ _ _ H). apply total_perm, pop_order_perm.
Qed.

(* accepting an update *)
Theorem add_or_replace_total (inval : K -> K -> bool) (l : @backlog K) k d mx :
  total (add_or_replace K inval l k d mx) <= total l + mx.
Proof.
  unfold add_or_replace. rewrite total_app. cbn [total fold_right e_tx].
  assert (H : total (filter (fun e => negb (inval k (e_key e))) l) <= total l).
  { induction l as [|x t IH]; cbn [filter total fold_right]; [lia|]. fold (total t).
    destruct (negb _); cbn [total fold_right]; fold (total (filter (fun e => negb (inval k (e_key e))) t)); lia. }
  lia.
Qed.

End TxAccount.
Arguments total {K}.

