"""Per-property configuration of ./check: scopes (DESIGN.md 5.3), budgets, trusted base."""

AXIOM_ALLOWLIST = {
    # standard-library axioms only; none is declared by this development
    "functional_extensionality_dep",
    "FunctionalExtensionality.functional_extensionality_dep",
    "Coq.Logic.FunctionalExtensionality.functional_extensionality_dep",
    "ClassicalDedekindReals.sig_forall_dec",
    "ClassicalDedekindReals.sig_not_dec",
    "Classical_Prop.classic",
}

TB_COMMON = [
    "Coq 8.16.1 kernel (coqc); vm_compute used for concrete Examples and the replay sample; no native_compute",
    "hand-written Gallina model /verif/coq/{Base,Types,MembersM,ProbeM,BcastM,FocaM}.v of src/{lib,member,probe,broadcast,payload,runtime}.rs (debug-assertion build)",
    "correspondence: per-step refinement check (/verif/harness) of the extracted model (ExtrOcamlBasic only, no Extract Constant/Inductive of our own; OCaml 4.13.1) against the real crate built from /repo with --cfg foca_verif; extraction cross-checked by re-evaluating a sample of the same steps with vm_compute",
    "hooks src/verif.rs, src/{member,probe,broadcast}/verif.rs read private state faithfully (public getters compared too)",
    "rand 0.9.5 / std BinaryHeap tie order enter the model only as an oracle the theorems quantify over; the harness answers it with the real algorithms and checks final RNG state equality",
    "section hypotheses visible in the statements: IdLaws (decidable equalities; win_addr_conflict is a strict total order per address), proved for the executable identities (ConcreteLaws.v)",
]


def refine(qs=8, qh=120, qsteps=200, ts=16, th=1500, tsteps=300):
    return {
        "quick": {"shards": qs, "histories": qh, "steps": qsteps, "coq_sample": 60},
        "thorough": {"shards": ts, "histories": th, "steps": tsteps, "coq_sample": 400},
    }


PROPS = {
    "C01": {
        "scope": {"inputs": ["apply_many", "data"], "components": ["members", "result", "panic"]},
        "refine": refine(),
        "falsify": {"quick": 3000, "thorough": 200000},
        "trusted_base": TB_COMMON,
        "assumptions": [
            "B1: the view clause is for identities other than the instance's own (a Down(self) update renews the identity mid-call)",
            "B2: win_addr_conflict is a strict total order on identities sharing an address",
            "theorems are stated on Members (member.rs); their transfer to apply_many/handle_data rests on the refinement check in scope {apply_many,data} x {members,result}",
        ],
    },
}
