"""Per-property configuration of ./check: scopes (DESIGN.md 5.3), budgets, trusted base."""

AXIOM_ALLOWLIST = {
    # standard-library axioms only; none is declared by this development
    "functional_extensionality_dep",
    "FunctionalExtensionality.functional_extensionality_dep",
    "Coq.Logic.FunctionalExtensionality.functional_extensionality_dep",
    "ClassicalDedekindReals.sig_forall_dec",
    "ClassicalDedekindReals.sig_not_dec",
    "Classical_Prop.classic",
}

TB_COMMON = [
    "Coq 8.16.1 kernel (coqc); vm_compute used for concrete Examples and the replay sample; no native_compute",
    "hand-written Gallina model /verif/coq/{Base,Types,MembersM,ProbeM,BcastM,FocaM}.v of src/{lib,member,probe,broadcast,payload,runtime}.rs (debug-assertion build)",
    "correspondence: per-step refinement check (/verif/harness) of the extracted model (ExtrOcamlBasic only, no Extract Constant/Inductive of our own; OCaml 4.13.1) against the real crate built from /repo with --cfg foca_verif; extraction cross-checked by re-evaluating a sample of the same steps with vm_compute",
    "hooks src/verif.rs, src/{member,probe,broadcast}/verif.rs read private state faithfully (public getters compared too)",
    "rand 0.9.5 / std BinaryHeap tie order enter the model only as an oracle the theorems quantify over; the harness answers it with the real algorithms and checks final RNG state equality",
    "section hypotheses visible in the statements: IdLaws (decidable equalities; win_addr_conflict is a strict total order per address), proved for the executable identities (ConcreteLaws.v)",
]


def refine(qs=8, qh=120, qsteps=200, ts=16, th=1500, tsteps=300):
    return {
        "quick": {"shards": qs, "histories": qh, "steps": qsteps, "coq_sample": 60},
        "thorough": {"shards": ts, "histories": th, "steps": tsteps, "coq_sample": 400},
    }


PROPS = {
    "C01": {
        "level_text": "Unbounded Coq theorems on the model of member.rs: SWIM precedence = strict order by key; Members::apply = join; monotone; order/multiplicity/oracle independence of any update list; re-applying own state is the identity; two-way exchange agrees (all modulo the incarnation kept next to Down). Transferred to the code by the per-step refinement check in scope {apply_many,data} x {members,result}, plus a permutation/duplication falsifier on the real crate.",
        "technique": "Coq proof (join-semilattice, induction over update lists) + model/code per-step refinement check",
        "scope": {"inputs": ["apply_many", "data"], "components": ["members", "result", "panic"]},
        "refine": refine(),
        "falsify": {"quick": 3000, "thorough": 200000},
        "trusted_base": TB_COMMON,
        "assumptions": [
            "B1: the view clause is for identities other than the instance's own (a Down(self) update renews the identity mid-call)",
            "B2: win_addr_conflict is a strict total order on identities sharing an address",
            "theorems are stated on Members (member.rs); their transfer to apply_many/handle_data rests on the refinement check in scope {apply_many,data} x {members,result}",
        ],
    },
    "C06": {
        "level_text": "Coq theorem step_preserves: for every state satisfying the master invariant WF (proved for every reachable state by induction over histories), every legal input (arbitrary byte strings, any Timer variant with any token/identity/incarnation, every API call, set_config with any legal config) and every oracle, the model's step never returns Panicked - where the model raises Panicked at every debug_assert/expect/overflow site of the debug build. Transferred to the code by the refinement check (panic <-> Panicked on every compared step) and a catch_unwind falsifier incl. Config::new_lan/new_wan sweeps.",
        "technique": "Coq proof (inductive invariant over all histories, Hoare logic on the model monad) + per-step refinement check + catch_unwind fuzzing of the real crate",
        "scope": {"inputs": "*", "components": ["panic", "result", "send_cap"]},
        "refine": refine(),
        "falsify": {"quick": 400, "thorough": 40000},
        "trusted_base": TB_COMMON + ["ExtraLaws (renew keeps the address, encoded members are non-empty, decoders leave bytes) - proved for the executable codec/identity", "B6: 1 <= max_packet_size <= 65535 in the theorem (larger packets are covered by the refinement check and falsifier only)"],
        "partial": "Config::new_lan/new_wan (f64 log10 arithmetic) are covered by the falsifier sweep, not by a theorem; panics inside bytes/rand/alloc and user-supplied code are excluded by contract",
        "assumptions": [
            "user-supplied Codec/Runtime/BroadcastHandler/Identity do not panic (as the property states)",
            "B3: change_identity keeps the address; B6: max_packet_size <= 65535 for the theorem",
            "received data are bytes (each < 256)",
        ],
    },
    "C19": {
        "level_text": "Coq theorem: in every call from a WF state every Send effect goes to an identity whose address differs from the instance's own, unless that identity was named by the input (announce(dst), relay target of PingReq/IndirectAck, member of a suspicion timer); the own address is constant along every history. Proved from the invariant 'every record bearing the own address is Down' for every reachable state, all oracles. Refinement scope sends.dst; falsifier checks every destination along histories that keep learning own-address identities.",
        "technique": "Coq proof (inductive invariant + per-call Hoare reasoning) + per-step refinement check",
        "scope": {"inputs": "*", "components": ["sends.dst", "sends.count", "members", "identity"]},
        "refine": refine(),
        "falsify": {"quick": 400, "thorough": 40000},
        "trusted_base": TB_COMMON + ["ExtraLaws - proved for the executable codec/identity"],
        "assumptions": ["B3: change_identity(new) keeps the address (documented use); renew() keeps the address",
                        "relays to a target named by a peer and the destination passed to announce() are outside the guarantee (as the property states)"],
    },
    "C09": {
        "level_text": "Coq theorems: every reachable state (any history of legal inputs, any oracle) has one record per address, an exact active count and only Down records bearing the instance's own address (from the master invariant); the identity stored for an address changes only to a same-address identity that wins the conflict, hence never falls back along any update sequence; data claiming the own identity/address is rejected with no change; a datagram whose sender is not active after its header was processed has its whole payload discarded (handle_data reduces to the optional TurnUndead reply). Refinement scope members/notes/result; falsifier monitors the same clauses (plus Rename and the size bound) on the real crate.",
        "technique": "Coq proof (inductive invariant, join lemmas, equational reduction of handle_data) + per-step refinement check",
        "scope": {"inputs": ["data", "apply_many", "timer", "change_identity"], "components": ["members", "notes", "result", "order", "handler", "custom_backlog"]},
        "refine": refine(),
        "falsify": {"quick": 600, "thorough": 60000},
        "trusted_base": TB_COMMON + ["ExtraLaws - proved for the executable codec/identity"],
        "partial": "the bound 'never more records than distinct addresses told about' and 'Rename is notified for every replacement' are checked by the falsifier and the refinement check (notes component), not stated as theorems yet",
        "assumptions": ["B2 (strict total order per address), B3 (change_identity keeps the address)"],
    },
    "C11": {
        "level_text": "Coq theorems on the model's handle_timer(ChangeSuspectToDown): stale epoch => no effect at all; cancelled (address forgotten / superseded by a winning identity / incarnation changed / already Down) => no state change, no datagram, no notification (after fix 07f6a2c); unrefuted => exactly: record Down at that incarnation, MemberDown, Down update in the backlog with max_transmissions, RemoveDown after remove_down_after, TurnUndead iff notify_down_members; and a Down record is final under any update sequence except for a newer identity that wins. Refinement scope on the timer inputs; exhaustive case-table falsifier on the real crate.",
        "technique": "Coq proof (equational evaluation of the timer handler, lattice lemmas) + per-step refinement check + exhaustive case table on the implementation",
        "scope": {"inputs": ["timer.suspect_to_down", "timer.remove_down", "data", "apply_many"], "components": ["members", "notes", "timers", "sends", "updates_backlog", "conn", "token", "result"]},
        "refine": refine(),
        "falsify": {"quick": 300, "thorough": 30000},
        "trusted_base": TB_COMMON,
        "partial": "the effective case is stated for the situation with other active members remaining (no Idle transition) and under header_fits; forgetting (RemoveDown removes exactly that Down identity) is covered by the invariant proof and the falsifier",
        "assumptions": ["genuine timers: the timer's identity does not win against the stored one (records only move forward)", "conn_consistent: connection state agrees with the member count (holds at every call boundary; checked by the harness)"],
    },
    "C13": {
        "level_text": "Coq theorems: any token-carrying timer with a non-current token has no effect at all (state, effects, oracle untouched); connecting arms exactly one probe timer and one timer per enabled periodic task with the current token; set_config emits nothing, cannot change probe timing nor enable a task; timers of disabled tasks and periodic timers while not connected are dropped without effect. The history-level accounting (exactly one outstanding timer per loop while active, none effective otherwise, ordered delivery never errors, any order at most IncompleteProbeCycle) is decided by an exactly-once-runtime falsifier on the real crate and by the refinement check on timers/conn/token.",
        "technique": "Coq proof (equational lemmas on the timer handlers) + per-step refinement check + pending-set accounting on the implementation",
        "scope": {"inputs": "*", "components": ["timers", "conn", "token", "result"]},
        "refine": refine(),
        "falsify": {"quick": 600, "thorough": 60000},
        "trusted_base": TB_COMMON,
        "partial": "the pending-set invariant over whole histories is not (yet) a theorem: it is checked by simulation with an exactly-once runtime",
        "assumptions": ["fewer than 256 epoch changes between issue and delivery of a timer (token width), as the property states"],
    },
    "C17": {
        "level_text": "Coq theorems: for every class of rejected input (12 classes) step returns the unchanged state, no effect, the documented result and does not consult the oracle; inserting any list of rejected inputs at any point of any history leaves every observation of the rest of the history and the final state identical (induction over histories). Determinism of the code as a function of (history, seed) is what the refinement check establishes step by step; twin-run falsifier on the real crate.",
        "technique": "Coq proof (case analysis + induction over histories) + per-step refinement check + twin runs on the implementation",
        "scope": {"inputs": "*", "components": "*"},
        "refine": refine(),
        "falsify": {"quick": 300, "thorough": 30000},
        "trusted_base": TB_COMMON,
        "assumptions": ["the codec's decoders are functions of the bytes (model: dec_hdr/dec_mem)"],
    },
    "C14": {
        "level_text": "Coq theorem next_sliding_window on the model of Members::next: for a stable membership with n >= 1 active records, any number and positions of Down records, any starting cursor (any N incl. the usize::MAX sentinel) and any oracle (every shuffle), every window of 2n-1 consecutive rounds - wherever it starts - yields every active member; each round yields an active record only (never Down; never the instance itself by the invariant of C09). Tightness witness (gap of exactly 2n-2) by vm_compute. The probe round pings next()'s result: refinement scope order/rng_use/sends.dst; sliding-window falsifier on the real crate.",
        "technique": "Coq proof (induction on the position in the current pass / pass decomposition) + per-step refinement check",
        "scope": {"inputs": ["timer.probe"], "components": ["order", "rng_use", "sends.dst", "sends.count", "probe", "members"]},
        "refine": refine(),
        "falsify": {"quick": 800, "thorough": 40000},
        "trusted_base": TB_COMMON,
        "assumptions": ["the member list is shorter than usize::MAX (a Vec cannot be longer)", "B5: 'stable' includes no forgetting in between (swap_remove can move an unvisited record in front of the cursor)"],
    },
    "C07": {
        "level_text": "Coq theorems: (1) send_message_shape - from any well-formed state send_message either fails with Encode leaving no trace or emits exactly one datagram = header(current identity, incarnation, dst, msg) ++ optional (u16 count ++ that many encoded members) ++ exactly-framed non-empty items, at most max_packet_size long, kind rules respected, a Feed listing only active members other than the receiver; (2) the invariant pass instantiated with this property: every datagram emitted by ANY call from a well-formed state (all inputs, all oracles) has this shape and parses with an independent grammar (WireM.v, written from payload.rs) back to exactly these components; (3) peer_accepts - a peer with the same codec whose packet size admits such a datagram never answers Decode / MalformedPacket / DataTooBig. Parametric in the codec (prefix round-trip law), hence fixed- and variable-length identities. Refinement scope sends.bytes.*; independent Rust parser + delivery-to-peer falsifier over a packet size sweep.",
        "technique": "Coq proof (print/parse round trip, Hoare-style invariant pass, error-set analysis) + per-step refinement check",
        "scope": {"inputs": "*", "components": ["sends.bytes", "sends.count", "sends.dst", "result"]},
        "refine": refine(),
        "falsify": {"quick": 400, "thorough": 20000},
        "trusted_base": TB_COMMON + ["CodecLaws: prefix round-trip dec(enc x ++ r) = (x, r) for headers and members, assumed of the user codec for every value of the identity type; proved for the executable codec on every value a Rust VId/Member/Header can hold (ConcreteLaws.c_dec_enc_hdr / c_dec_enc_mem)", "ExtraLaws"],
        "partial": "the length bound is against the max_packet_size in force when the datagram was built (set_config itself sends nothing); the bundled serde codecs are covered by C20 and by the falsifier, not by this theorem",
        "assumptions": ["B6: max_packet_size <= 65535 in the theorem", "handler errors are the handler's (excluded from 'accepted')"],
    },
    "C15": {
        "level_text": "Coq theorems: every reachable state holds at most one pending update per address, each with >= 1 transmission left and carrying exactly an encoded member; add_or_replace keeps only the latest per address; one fill = visit in pop order (a permutation sorted by (transmissions left, length), highest first, for every tie-break), write whole entries, decrement written ones by exactly one, drop at zero, leave unwritten ones unchanged; maximality (an unwritten entry exceeds the room left unless the 65535 item budget ran out); over any sequence of fills an entry is written at most its transmissions-left times (induction over the sequence, per-key accounting); Feed/Announce/TurnUndead/Broadcast sends and apply with broadcasting disabled leave the backlog untouched. Ledger falsifier on the real crate; refinement scope updates_backlog + update bytes.",
        "technique": "Coq proof (list/permutation reasoning on the heap model, induction over fill sequences) + per-step refinement check + per-entry ledger on the implementation",
        "scope": {"inputs": "*", "components": ["updates_backlog", "sends.bytes.updates", "sends.bytes.malformed"]},
        "refine": refine(),
        "falsify": {"quick": 500, "thorough": 40000},
        "trusted_base": TB_COMMON + ["std BinaryHeap modelled as: pops a maximum of (remaining_tx, len); tie order = oracle (theorems hold for every tie order)"],
        "assumptions": ["the 'exactly max_transmissions' clause is per entry: a re-accepted identical update restarts its count (as the property's 'superseded' clause allows)"],
    },
    "C16": {
        "level_text": "Coq theorems: reachable custom backlog entries have >= 1 transmission left and 1..65535 bytes; accepting a key inserts the item byte for byte with max_transmissions and leaves nothing it invalidates in the backlog (so an invalidated item can never be sent again - items only leave the backlog through fill); the custom section = whole items with exact u16 prefixes in priority order, same accounting as C15; the datagram shape theorem gates items by kind and should_add_broadcast_data; on the receiving side handle_custom_broadcasts on the framed items IS forM_ items recv_item: the handler sees exactly the items sent, in order, once each, with the sender; broadcast() with an empty backlog does nothing. Arbitrary handler / invalidation relation / predicate (type-class parameters, no hypotheses). Ledger + receiver falsifier on the real crate; refinement scope custom_backlog, custom bytes, handler state.",
        "technique": "Coq proof (equational reasoning on the framing loop, backlog lemmas) + per-step refinement check + sender/receiver ledger on the implementation",
        "scope": {"inputs": "*", "components": ["custom_backlog", "sends.bytes.custom", "sends.bytes.malformed", "handler"]},
        "refine": refine(),
        "falsify": {"quick": 500, "thorough": 40000},
        "trusted_base": TB_COMMON,
        "partial": "the per-item transmission bound over histories is the C15 tx_bound lemma instantiated per fill (the custom key type has no decidable equality in general); 'broadcast() sends at most num_indirect_probes Broadcast datagrams and stops when drained' is checked by the falsifier and the refinement check",
        "assumptions": ["items longer than 65535 bytes are rejected by add_broadcast (fix 871834b)"],
    },
    "C12": {
        "level_text": "Coq theorems on the model of probe.rs and of the message reactions: direct evidence only from an Ack with the current number from the probed member; indirect evidence only from a ForwardedAck with the current number from an asked, not-yet-counted helper (struck off: counted once); every round start / clear resets it; the target is handed over for suspicion iff the round did not succeed; the PingReq fan-out has at most num_indirect_probes members, each an active record other than the target; Ping n is answered by Ack n to the sender, and PingReq -> IndirectPing -> IndirectAck -> ForwardedAck each emit exactly one datagram to the right member whose header preserves origin/target/number (via the datagram shape theorem); requests naming the instance itself return IndirectForOurselves with no send. The whole-round statement (suspicion raised iff no genuine evidence, exactly one timeout) is decided by an exhaustive evidence table + four-instance relay chain on the real crate and by the refinement check (probe/members/timers/sends).",
        "technique": "Coq proof (case analysis on the probe record, equational reduction of the reactions) + per-step refinement check + exhaustive evidence table on the implementation",
        "scope": {"inputs": ["timer.probe", "timer.indirect", "data"], "components": ["probe", "members", "timers", "sends", "result", "rng_use"]},
        "refine": refine(),
        "falsify": {"quick": 16, "thorough": 800},
        "trusted_base": TB_COMMON + ["CodecLaws, ExtraLaws (for the reply shape)"],
        "partial": "C12_round_end (Suspect applied + exactly one ChangeSuspectToDown when the round fails) is not stated as one theorem; its ingredients are (take_failed_iff, the invariant pass) and the clause is decided on the implementation by the exhaustive table",
        "assumptions": ["instance is Connected and not defunct for the reply clauses"],
    },
}
