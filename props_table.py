"""Per-property configuration of ./check: scopes (DESIGN.md 5.3), budgets, trusted base."""

AXIOM_ALLOWLIST = {
    # standard-library axioms only; none is declared by this development
    "functional_extensionality_dep",
    "FunctionalExtensionality.functional_extensionality_dep",
    "Coq.Logic.FunctionalExtensionality.functional_extensionality_dep",
    "ClassicalDedekindReals.sig_forall_dec",
    "ClassicalDedekindReals.sig_not_dec",
    "Classical_Prop.classic",
}

TB_COMMON = [
    "Coq 8.16.1 kernel (coqc); vm_compute used for concrete Examples and the replay sample; no native_compute",
    "hand-written Gallina model /verif/coq/{Base,Types,MembersM,ProbeM,BcastM,FocaM}.v of src/{lib,member,probe,broadcast,payload,runtime}.rs (debug-assertion build)",
    "correspondence: per-step refinement check (/verif/harness) of the extracted model (ExtrOcamlBasic only, no Extract Constant/Inductive of our own; OCaml 4.13.1) against the real crate built from /repo with --cfg foca_verif; extraction cross-checked by re-evaluating a sample of the same steps with vm_compute",
    "hooks src/verif.rs, src/{member,probe,broadcast}/verif.rs read private state faithfully (public getters compared too)",
    "rand 0.9.5 / std BinaryHeap tie order enter the model only as an oracle the theorems quantify over; the harness answers it with the real algorithms and checks final RNG state equality",
    "section hypotheses visible in the statements: IdLaws (decidable equalities; win_addr_conflict is a strict total order per address), proved for the executable identities (ConcreteLaws.v)",
]


def refine(qs=8, qh=120, qsteps=200, ts=16, th=1500, tsteps=300):
    return {
        "quick": {"shards": qs, "histories": qh, "steps": qsteps, "coq_sample": 60},
        "thorough": {"shards": ts, "histories": th, "steps": tsteps, "coq_sample": 400},
    }


PROPS = {
    "C01": {
        "level_text": "Unbounded Coq theorems on the model of member.rs: SWIM precedence = strict order by key; Members::apply = join; monotone; order/multiplicity/oracle independence of any update list; re-applying own state is the identity; two-way exchange agrees (all modulo the incarnation kept next to Down). Transferred to the code by the per-step refinement check in scope {apply_many,data} x {members,result}, plus a permutation/duplication falsifier on the real crate.",
        "technique": "Coq proof (join-semilattice, induction over update lists) + model/code per-step refinement check",
        "scope": {"inputs": ["apply_many", "data"], "components": ["members", "result", "panic"]},
        "refine": refine(),
        "falsify": {"quick": 3000, "thorough": 200000},
        "trusted_base": TB_COMMON,
        "assumptions": [
            "B1: the view clause is for identities other than the instance's own (a Down(self) update renews the identity mid-call)",
            "B2: win_addr_conflict is a strict total order on identities sharing an address",
            "theorems are stated on Members (member.rs); their transfer to apply_many/handle_data rests on the refinement check in scope {apply_many,data} x {members,result}",
        ],
    },
    "C06": {
        "level_text": "Coq theorem step_preserves: for every state satisfying the master invariant WF (proved for every reachable state by induction over histories), every legal input (arbitrary byte strings, any Timer variant with any token/identity/incarnation, every API call, set_config with any legal config) and every oracle, the model's step never returns Panicked - where the model raises Panicked at every debug_assert/expect/overflow site of the debug build. Transferred to the code by the refinement check (panic <-> Panicked on every compared step) and a catch_unwind falsifier incl. Config::new_lan/new_wan sweeps.",
        "technique": "Coq proof (inductive invariant over all histories, Hoare logic on the model monad) + per-step refinement check + catch_unwind fuzzing of the real crate",
        "scope": {"inputs": "*", "components": ["panic", "result", "send_cap"]},
        "refine": refine(),
        "falsify": {"quick": 400, "thorough": 40000},
        "trusted_base": TB_COMMON + ["ExtraLaws (renew keeps the address, encoded members are non-empty, decoders leave bytes) - proved for the executable codec/identity", "B6: 1 <= max_packet_size <= 65535 in the theorem (larger packets are covered by the refinement check and falsifier only)"],
        "partial": "Config::new_lan/new_wan (f64 log10 arithmetic) are covered by the falsifier sweep, not by a theorem; panics inside bytes/rand/alloc and user-supplied code are excluded by contract",
        "assumptions": [
            "user-supplied Codec/Runtime/BroadcastHandler/Identity do not panic (as the property states)",
            "B3: change_identity keeps the address; B6: max_packet_size <= 65535 for the theorem",
            "received data are bytes (each < 256)",
        ],
    },
    "C19": {
        "level_text": "Coq theorem: in every call from a WF state every Send effect goes to an identity whose address differs from the instance's own, unless that identity was named by the input (announce(dst), relay target of PingReq/IndirectAck, member of a suspicion timer); the own address is constant along every history. Proved from the invariant 'every record bearing the own address is Down' for every reachable state, all oracles. Refinement scope sends.dst; falsifier checks every destination along histories that keep learning own-address identities.",
        "technique": "Coq proof (inductive invariant + per-call Hoare reasoning) + per-step refinement check",
        "scope": {"inputs": "*", "components": ["sends.dst", "sends.count", "members", "identity"]},
        "refine": refine(),
        "falsify": {"quick": 400, "thorough": 40000},
        "trusted_base": TB_COMMON + ["ExtraLaws - proved for the executable codec/identity"],
        "assumptions": ["B3: change_identity(new) keeps the address (documented use); renew() keeps the address",
                        "relays to a target named by a peer and the destination passed to announce() are outside the guarantee (as the property states)"],
    },
}
