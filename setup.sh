#!/bin/sh
# Offline build of the framework: Coq development, extracted model driver, Rust harness.
set -e
cd "$(dirname "$0")"
export CARGO_NET_OFFLINE=true
mkdir -p build evidence replays
(cd coq && ./build_model.sh -k)
(cd harness && RUSTFLAGS="--cfg foca_verif" CARGO_TARGET_DIR=../build/target cargo build --offline)
(cd harness && RUSTFLAGS="--cfg foca_verif" CARGO_TARGET_DIR=../build/target cargo build --release --offline)
echo setup done
